//! E4 — type-level witnesses (compile_fail doctests, each paired with a compiling twin that differs only in
//! the offending line).  They back the confinement rules from *outside* the crate: an API user cannot forge,
//! mutate or bypass what the MIR rules confine inside the crate.
//!
//! Run with `cargo +nightly test --doc --offline` (error codes are only checked on nightly).

/// W1 (C02.R1 / C17.R1 / C05): an API user cannot assign the fields of an `UnsealedState`.
///
/// ```compile_fail,E0616
/// use melstf::GenesisConfig;
/// use novasmt::{Database, InMemoryCas};
/// let db = Database::new(InMemoryCas::default());
/// let mut state = GenesisConfig::std_testnet().realize(&db);
/// state.fee_multiplier = 1; // private field
/// ```
///
/// twin (compiles): the only way to change the state is through the transition functions
/// ```
/// use melstf::GenesisConfig;
/// use novasmt::{Database, InMemoryCas};
/// let db = Database::new(InMemoryCas::default());
/// let mut state = GenesisConfig::std_testnet().realize(&db);
/// let _ = state.apply_tx_batch(&[]);
/// ```
pub struct W1FieldsArePrivate;

/// W1b: tips / fee pool cannot be assigned either.
///
/// ```compile_fail,E0616
/// use melstf::GenesisConfig;
/// use novasmt::{Database, InMemoryCas};
/// let db = Database::new(InMemoryCas::default());
/// let mut state = GenesisConfig::std_testnet().realize(&db);
/// state.tips = melstructs::CoinValue(0);
/// ```
pub struct W1bTipsPrivate;

/// W2 (C06.R4 / C08): a `SealedState` cannot be constructed outside the crate (tuple struct with private fields):
/// only `seal`, `apply_block` and `from_block` produce one.
///
/// ```compile_fail,E0423
/// use melstf::{GenesisConfig, SealedState};
/// use novasmt::{Database, InMemoryCas};
/// let db = Database::new(InMemoryCas::default());
/// let state = GenesisConfig::std_testnet().realize(&db);
/// let forged = SealedState(state, None); // constructor is private
/// ```
///
/// twin (compiles):
/// ```
/// use melstf::GenesisConfig;
/// use novasmt::{Database, InMemoryCas};
/// let db = Database::new(InMemoryCas::default());
/// let state = GenesisConfig::std_testnet().realize(&db);
/// let sealed = state.seal(None);
/// let _ = sealed.header();
/// ```
pub struct W2SealedNotForgeable;

/// W2b: the inner state of a `SealedState` cannot be reached (and hence not mutated) from outside.
///
/// ```compile_fail,E0616
/// use melstf::GenesisConfig;
/// use novasmt::{Database, InMemoryCas};
/// let db = Database::new(InMemoryCas::default());
/// let sealed = GenesisConfig::std_testnet().realize(&db).seal(None);
/// let _inner = &sealed.0; // private field
/// ```
pub struct W2bSealedOpaque;

/// W3 (C20.R2): `CoinMapping::inner()` hands out only a shared reference to the coin tree: an insertion that
/// would bypass the per-covenant counts does not type-check.
///
/// ```compile_fail,E0596
/// use melstf::CoinMapping;
/// use novasmt::{Database, InMemoryCas};
/// let db = Database::new(InMemoryCas::default());
/// let cm = CoinMapping::new(db.get_tree([0u8; 32]).unwrap());
/// cm.inner().insert([1u8; 32], b"x"); // cannot borrow as mutable
/// ```
///
/// twin (compiles): reading is fine
/// ```
/// use melstf::CoinMapping;
/// use novasmt::{Database, InMemoryCas};
/// let db = Database::new(InMemoryCas::default());
/// let cm = CoinMapping::new(db.get_tree([0u8; 32]).unwrap());
/// let _ = cm.inner().root_hash();
/// ```
pub struct W3CoinTreeReadOnly;

/// W3b: the `inner` field itself is private.
///
/// ```compile_fail,E0616
/// use melstf::CoinMapping;
/// use novasmt::{Database, InMemoryCas};
/// let db = Database::new(InMemoryCas::default());
/// let mut cm = CoinMapping::new(db.get_tree([0u8; 32]).unwrap());
/// cm.inner.insert([1u8; 32], b"x");
/// ```
pub struct W3bInnerPrivate;
