// mirfacts: rustc_private driver that dumps the type-checked MIR of every body of a
// workspace crate as JSON facts (one file per crate, one write per process).
//
// Used as RUSTC_WORKSPACE_WRAPPER under `cargo +nightly check`; argv[1] is the real
// rustc path and is dropped.  Output directory: $MIRFACTS_OUT.
#![feature(rustc_private)]
extern crate rustc_abi;
extern crate rustc_driver;
extern crate rustc_hir;
extern crate rustc_interface;
extern crate rustc_middle;
extern crate rustc_span;

use rustc_driver::Compilation;
use rustc_hir::def::DefKind;
use rustc_hir::def_id::{DefId, LOCAL_CRATE};
use rustc_interface::interface::Compiler;
use rustc_middle::mir::{
    self, AggregateKind, Body, Operand, Place, PlaceTy, ProjectionElem, Rvalue, StatementKind,
    TerminatorKind,
};
use rustc_middle::ty::{self, Instance, Ty, TyCtxt, TypingEnv};
use std::collections::BTreeMap;

// ---------------------------------------------------------------- tiny JSON
fn jstr(s: &str) -> String {
    let mut o = String::with_capacity(s.len() + 2);
    o.push('"');
    for c in s.chars() {
        match c {
            '"' => o.push_str("\\\""),
            '\\' => o.push_str("\\\\"),
            '\n' => o.push_str("\\n"),
            '\r' => o.push_str("\\r"),
            '\t' => o.push_str("\\t"),
            c if (c as u32) < 0x20 => o.push_str(&format!("\\u{:04x}", c as u32)),
            c => o.push(c),
        }
    }
    o.push('"');
    o
}
fn jobj(fields: Vec<(&str, String)>) -> String {
    let parts: Vec<String> = fields
        .into_iter()
        .map(|(k, v)| format!("{}:{}", jstr(k), v))
        .collect();
    format!("{{{}}}", parts.join(","))
}
fn jarr(items: Vec<String>) -> String {
    format!("[{}]", items.join(","))
}
fn jbool(b: bool) -> String {
    if b { "true".into() } else { "false".into() }
}
fn jnull() -> String {
    "null".into()
}

// ---------------------------------------------------------------- naming
fn canon_id<'tcx>(tcx: TyCtxt<'tcx>, did: DefId) -> String {
    format!(
        "{}{}",
        tcx.crate_name(did.krate),
        tcx.def_path(did).to_string_no_crate_verbose()
    )
}
fn nice_name<'tcx>(tcx: TyCtxt<'tcx>, did: DefId) -> String {
    let s = tcx.def_path_str(did);
    if did.is_local() {
        format!("{}::{}", tcx.crate_name(LOCAL_CRATE), s)
    } else {
        s
    }
}

struct Ctx<'tcx> {
    tcx: TyCtxt<'tcx>,
    adts: BTreeMap<String, String>,
}

impl<'tcx> Ctx<'tcx> {
    fn note_adt(&mut self, adt: ty::AdtDef<'tcx>) {
        let tcx = self.tcx;
        let path = nice_name(tcx, adt.did());
        if self.adts.contains_key(&path) {
            return;
        }
        self.adts.insert(path.clone(), String::new());
        let mut variants = vec![];
        // discriminant values (SwitchInt on a discriminant compares with these, not with variant indices)
        let mut dvals: Vec<String> = vec![];
        if adt.is_enum() {
            for (_vi, d) in adt.discriminants(tcx) {
                dvals.push(format!("{}", d.val));
            }
        }
        for (vpos, v) in adt.variants().iter().enumerate() {
            let mut fields = vec![];
            for f in v.fields.iter() {
                let fty = tcx.type_of(f.did).instantiate_identity().skip_norm_wip();
                fields.push(jobj(vec![
                    ("name", jstr(&f.name.to_string())),
                    ("ty", jstr(&format!("{}", fty))),
                    ("vis", jstr(&format!("{:?}", f.vis))),
                ]));
            }
            variants.push(jobj(vec![
                ("name", jstr(&v.name.to_string())),
                ("fields", jarr(fields)),
                ("discr", jstr(dvals.get(vpos).map(|s| s.as_str()).unwrap_or(""))),
            ]));
        }
        let kind = if adt.is_enum() {
            "enum"
        } else if adt.is_union() {
            "union"
        } else {
            "struct"
        };
        let j = jobj(vec![
            ("kind", jstr(kind)),
            ("id", jstr(&canon_id(tcx, adt.did()))),
            ("local", jbool(adt.did().is_local())),
            ("variants", jarr(variants)),
        ]);
        self.adts.insert(path, j);
    }

    fn note_ty(&mut self, t: Ty<'tcx>) {
        // record ADTs mentioned (peel refs / boxes one level deep)
        let mut t = t;
        loop {
            match t.kind() {
                ty::Ref(_, inner, _) => t = *inner,
                ty::RawPtr(inner, _) => t = *inner,
                ty::Adt(adt, _) => {
                    self.note_adt(*adt);
                    break;
                }
                _ => break,
            }
        }
    }

    fn place(&mut self, body: &Body<'tcx>, p: &Place<'tcx>) -> String {
        let tcx = self.tcx;
        let mut pty = PlaceTy::from_ty(body.local_decls[p.local].ty);
        let mut projs = vec![];
        for elem in p.projection.iter() {
            let j = match elem {
                ProjectionElem::Deref => jobj(vec![("k", jstr("deref"))]),
                ProjectionElem::Field(f, fty) => {
                    let (name, owner) = match pty.ty.kind() {
                        ty::Adt(adt, _) => {
                            self.note_adt(*adt);
                            let owner = nice_name(tcx, adt.did());
                            if adt.is_enum() && pty.variant_index.is_none() {
                                (format!("{}", f.as_usize()), owner)
                            } else {
                                let v = pty.variant_index.unwrap_or(rustc_abi::FIRST_VARIANT);
                                (adt.variant(v).fields[f].name.to_string(), owner)
                            }
                        }
                        ty::Closure(did, _) => {
                            // upvar: name from the closure's captures
                            let names = tcx.closure_saved_names_of_captured_variables(*did);
                            let n = names
                                .get(f)
                                .map(|s| s.to_string())
                                .unwrap_or_else(|| format!("{}", f.as_usize()));
                            (n, "closure".to_string())
                        }
                        _ => (format!("{}", f.as_usize()), "tuple".to_string()),
                    };
                    jobj(vec![
                        ("k", jstr("field")),
                        ("i", format!("{}", f.as_usize())),
                        ("n", jstr(&name)),
                        ("owner", jstr(&owner)),
                        ("ty", jstr(&format!("{}", fty))),
                    ])
                }
                ProjectionElem::Downcast(n, vi) => jobj(vec![
                    ("k", jstr("downcast")),
                    (
                        "v",
                        jstr(&n.map(|s| s.to_string()).unwrap_or_default()),
                    ),
                    ("i", format!("{}", vi.as_usize())),
                ]),
                ProjectionElem::Index(l) => jobj(vec![
                    ("k", jstr("index")),
                    ("l", format!("{}", l.as_usize())),
                ]),
                ProjectionElem::ConstantIndex { offset, from_end, .. } => jobj(vec![
                    ("k", jstr("constindex")),
                    ("offset", format!("{}", offset)),
                    ("from_end", jbool(from_end)),
                ]),
                ProjectionElem::Subslice { from, to, from_end } => jobj(vec![
                    ("k", jstr("subslice")),
                    ("from", format!("{}", from)),
                    ("to", format!("{}", to)),
                    ("from_end", jbool(from_end)),
                ]),
                other => jobj(vec![
                    ("k", jstr("other")),
                    ("dbg", jstr(&format!("{:?}", other))),
                ]),
            };
            projs.push(j);
            pty = pty.projection_ty(tcx, elem);
        }
        jobj(vec![
            ("l", format!("{}", p.local.as_usize())),
            ("p", jarr(projs)),
        ])
    }

    fn fn_ref(&mut self, owner: DefId, cdid: DefId, gargs: ty::GenericArgsRef<'tcx>) -> String {
        let tcx = self.tcx;
        let res = Instance::try_resolve(tcx, TypingEnv::post_analysis(tcx, owner), cdid, gargs);
        let (rname, rid, rlocal, rkind) = match res {
            Ok(Some(i)) => {
                let d = i.def_id();
                let kind = match i.def {
                    ty::InstanceKind::Item(_) => "item",
                    ty::InstanceKind::Virtual(..) => "virtual",
                    ty::InstanceKind::ClosureOnceShim { .. } => "closure_once_shim",
                    ty::InstanceKind::FnPtrShim(..) => "fnptr_shim",
                    ty::InstanceKind::DropGlue(..) => "drop_glue",
                    ty::InstanceKind::CloneShim(..) => "clone_shim",
                    ty::InstanceKind::Intrinsic(..) => "intrinsic",
                    _ => "other",
                };
                (nice_name(tcx, d), canon_id(tcx, d), d.is_local(), kind)
            }
            _ => (String::new(), String::new(), false, "unresolved"),
        };
        let ga: Vec<String> = gargs.iter().map(|a| jstr(&format!("{}", a))).collect();
        // the self type for trait method calls: first generic arg
        jobj(vec![
            ("path", jstr(&nice_name(tcx, cdid))),
            ("id", jstr(&canon_id(tcx, cdid))),
            ("resolved", jstr(&rname)),
            ("resolved_id", jstr(&rid)),
            ("resolved_local", jbool(rlocal)),
            ("resolved_kind", jstr(rkind)),
            ("crate", jstr(&tcx.crate_name(cdid.krate).to_string())),
            ("gargs", jarr(ga)),
        ])
    }

    fn operand(&mut self, owner: DefId, body: &Body<'tcx>, o: &Operand<'tcx>) -> String {
        let tcx = self.tcx;
        match o {
            Operand::Copy(p) => jobj(vec![("k", jstr("copy")), ("place", self.place(body, p))]),
            Operand::Move(p) => jobj(vec![("k", jstr("move")), ("place", self.place(body, p))]),
            Operand::Constant(c) => {
                let ty = c.const_.ty();
                let mut fields: Vec<(&str, String)> = vec![
                    ("k", jstr("const")),
                    ("ty", jstr(&format!("{}", ty))),
                    ("dbg", jstr(&format!("{}", c.const_))),
                ];
                match ty.kind() {
                    ty::FnDef(did, gargs) => {
                        fields.push(("fn", self.fn_ref(owner, *did, gargs)));
                    }
                    ty::Closure(did, _) => {
                        fields.push(("closure", jstr(&nice_name(tcx, *did))));
                    }
                    _ => {}
                }
                if let mir::Const::Unevaluated(uv, _) = c.const_ {
                    if let Some(p) = uv.promoted {
                        fields.push(("promoted", format!("{}", p.as_usize())));
                    } else {
                        fields.push(("def", jstr(&nice_name(tcx, uv.def))));
                    }
                }
                // pointer to a static: name it
                if let mir::Const::Val(mir::ConstValue::Scalar(rustc_middle::mir::interpret::Scalar::Ptr(ptr, _)), _) = c.const_ {
                    if let rustc_middle::mir::interpret::GlobalAlloc::Static(sdid) = tcx.global_alloc(ptr.provenance.alloc_id()) {
                        fields.push(("static", jstr(&nice_name(tcx, sdid))));
                    }
                }
                // integers / bools / chars: evaluate
                let mut is_scalar = matches!(
                    ty.kind(),
                    ty::Int(_) | ty::Uint(_) | ty::Bool | ty::Char
                );
                // single-field tuple structs over an unsigned integer (CoinValue, BlockHeight): scalar ABI, the value is the field
                if let ty::Adt(adef, aargs) = ty.kind() {
                    if adef.is_struct() && adef.all_fields().count() == 1 {
                        let fty = adef.all_fields().next().unwrap().ty(tcx, aargs);
                        if matches!(fty.kind(), ty::Uint(_)) {
                            is_scalar = true;
                        }
                    }
                }
                if is_scalar {
                    let env = TypingEnv::post_analysis(tcx, owner);
                    if let Some(si) = c.const_.try_eval_scalar_int(tcx, env) {
                        let size = si.size();
                        let bits = si.to_bits(size);
                        let signed = matches!(ty.kind(), ty::Int(_));
                        let v: String = if signed {
                            let sh = 128 - size.bits();
                            let sv = ((bits as i128) << sh) >> sh;
                            format!("{}", sv)
                        } else {
                            format!("{}", bits)
                        };
                        fields.push(("int", jstr(&v)));
                    }
                }
                jobj(fields)
            }
            #[allow(unreachable_patterns)]
            _ => jobj(vec![("k", jstr("other")), ("dbg", jstr(&format!("{:?}", o)))]),
        }
    }

    fn rvalue(&mut self, owner: DefId, body: &Body<'tcx>, rv: &Rvalue<'tcx>) -> String {
        let tcx = self.tcx;
        match rv {
            Rvalue::Use(o, ..) => jobj(vec![("k", jstr("use")), ("op", self.operand(owner, body, o))]),
            Rvalue::CopyForDeref(p) => jobj(vec![
                ("k", jstr("use")),
                (
                    "op",
                    jobj(vec![("k", jstr("copy")), ("place", self.place(body, p))]),
                ),
            ]),
            Rvalue::BinaryOp(op, ops) => jobj(vec![
                ("k", jstr("bin")),
                ("op", jstr(&format!("{:?}", op))),
                ("a", self.operand(owner, body, &ops.0)),
                ("b", self.operand(owner, body, &ops.1)),
            ]),
            Rvalue::UnaryOp(op, a) => jobj(vec![
                ("k", jstr("un")),
                ("op", jstr(&format!("{:?}", op))),
                ("a", self.operand(owner, body, a)),
            ]),
            Rvalue::Ref(_, bk, p) => jobj(vec![
                ("k", jstr("ref")),
                ("mut", jbool(matches!(bk, mir::BorrowKind::Mut { .. }))),
                ("place", self.place(body, p)),
            ]),
            Rvalue::RawPtr(kind, p) => jobj(vec![
                ("k", jstr("rawptr")),
                ("mut", jbool(format!("{:?}", kind).contains("Mut"))),
                ("place", self.place(body, p)),
            ]),
            Rvalue::Cast(k, o, t) => {
                let from = o.ty(&body.local_decls, tcx);
                jobj(vec![
                    ("k", jstr("cast")),
                    ("ck", jstr(&format!("{:?}", k))),
                    ("op", self.operand(owner, body, o)),
                    ("from", jstr(&format!("{}", from))),
                    ("ty", jstr(&format!("{}", t))),
                ])
            }
            Rvalue::Aggregate(k, fields) => {
                let mut out: Vec<(&str, String)> = vec![("k", jstr("agg"))];
                match &**k {
                    AggregateKind::Adt(did, vidx, _, _, _) => {
                        let adt = tcx.adt_def(*did);
                        self.note_adt(adt);
                        let v = adt.variant(*vidx);
                        let fnames: Vec<String> =
                            v.fields.iter().map(|f| jstr(&f.name.to_string())).collect();
                        out.push(("ak", jstr("adt")));
                        out.push(("path", jstr(&nice_name(tcx, *did))));
                        out.push(("variant", jstr(&v.name.to_string())));
                        out.push(("vidx", format!("{}", vidx.as_usize())));
                        out.push(("fields", jarr(fnames)));
                    }
                    AggregateKind::Closure(did, _) => {
                        out.push(("ak", jstr("closure")));
                        out.push(("path", jstr(&nice_name(tcx, *did))));
                        out.push(("id", jstr(&canon_id(tcx, *did))));
                        let names = tcx.closure_saved_names_of_captured_variables(*did);
                        let fnames: Vec<String> =
                            names.iter().map(|s| jstr(&s.to_string())).collect();
                        out.push(("fields", jarr(fnames)));
                    }
                    AggregateKind::Tuple => out.push(("ak", jstr("tuple"))),
                    AggregateKind::Array(t) => {
                        out.push(("ak", jstr("array")));
                        out.push(("elem_ty", jstr(&format!("{}", t))));
                    }
                    other => {
                        out.push(("ak", jstr("other")));
                        out.push(("dbg", jstr(&format!("{:?}", other))));
                    }
                }
                let ops: Vec<String> = fields.iter().map(|o| self.operand(owner, body, o)).collect();
                out.push(("ops", jarr(ops)));
                jobj(out)
            }
            Rvalue::Discriminant(p) => jobj(vec![
                ("k", jstr("discr")),
                ("place", self.place(body, p)),
            ]),
            Rvalue::Repeat(o, n) => jobj(vec![
                ("k", jstr("repeat")),
                ("op", self.operand(owner, body, o)),
                ("n", jstr(&format!("{}", n))),
            ]),
            other => jobj(vec![("k", jstr("other")), ("dbg", jstr(&format!("{:?}", other)))]),
        }
    }

    /// true when the code at `sp` was produced by an expansion that is not this workspace's own source text: a macro of another crate
    /// (log::debug!, assert!, format_args!, derives) or a compiler desugaring.  Code written inside a `macro_rules!` of the workspace itself is the
    /// workspace's code — a condition moved into a local macro must stay visible to the rules — so such expansions are looked through.
    fn foreign_expansion(&self, sp: rustc_span::Span) -> bool {
        let mut sp = sp;
        let mut fuel = 16;
        while sp.from_expansion() && fuel > 0 {
            fuel -= 1;
            let ed = sp.ctxt().outer_expn_data();
            let local = match (&ed.kind, ed.macro_def_id) {
                (rustc_span::ExpnKind::Macro(rustc_span::MacroKind::Bang, _), Some(d)) => {
                    let cn = self.tcx.crate_name(d.krate);
                    let cn = cn.as_str();
                    cn == "melstf" || cn == "melvm" || cn == "tip911_stakeset"
                }
                _ => false,
            };
            if !local {
                return true;
            }
            sp = ed.call_site;
        }
        sp.from_expansion()
    }

    fn span_info(&self, sp: rustc_span::Span) -> (String, usize, usize, bool) {
        let sm = self.tcx.sess.source_map();
        // use the outermost call site for macro-expanded spans so that the line is in this crate
        let exp = self.foreign_expansion(sp);
        let sp2 = sp.source_callsite();
        let lo = sm.lookup_char_pos(sp2.lo());
        let hi = sm.lookup_char_pos(sp2.hi());
        let file = format!("{}", lo.file.name.prefer_local_unconditionally());
        (file, lo.line, hi.line, exp)
    }

    fn body(
        &mut self,
        owner: DefId,
        name: &str,
        id: &str,
        kind: &str,
        parent: Option<String>,
        promoted: Option<usize>,
        body: &Body<'tcx>,
    ) -> String {
        let tcx = self.tcx;
        let (file, line, end_line, _) = self.span_info(body.span);
        let mut locals = vec![];
        for (_l, d) in body.local_decls.iter_enumerated() {
            self.note_ty(d.ty);
            locals.push(jobj(vec![
                ("ty", jstr(&format!("{}", d.ty))),
                ("mut", jbool(d.mutability == mir::Mutability::Mut)),
            ]));
        }
        let mut debug = vec![];
        for vdi in &body.var_debug_info {
            let v = match &vdi.value {
                mir::VarDebugInfoContents::Place(p) => self.place(body, p),
                mir::VarDebugInfoContents::Const(_) => jnull(),
            };
            debug.push(jobj(vec![
                ("name", jstr(&vdi.name.to_string())),
                ("place", v),
                (
                    "arg",
                    match vdi.argument_index {
                        Some(i) => format!("{}", i),
                        None => jnull(),
                    },
                ),
            ]));
        }
        let mut blocks = vec![];
        for (_bb, data) in body.basic_blocks.iter_enumerated() {
            let mut stmts = vec![];
            for st in &data.statements {
                let (_f, l, _e, exp) = self.span_info(st.source_info.span);
                match &st.kind {
                    StatementKind::Assign(b) => {
                        let (pl, rv) = &**b;
                        stmts.push(jobj(vec![
                            ("k", jstr("assign")),
                            ("place", self.place(body, pl)),
                            ("rv", self.rvalue(owner, body, rv)),
                            ("line", format!("{}", l)),
                            ("exp", jbool(exp)),
                        ]));
                    }
                    StatementKind::SetDiscriminant { place, variant_index } => {
                        stmts.push(jobj(vec![
                            ("k", jstr("setdiscr")),
                            ("place", self.place(body, place)),
                            ("vidx", format!("{}", variant_index.as_usize())),
                            ("line", format!("{}", l)),
                            ("exp", jbool(exp)),
                        ]));
                    }
                    StatementKind::Intrinsic(i) => {
                        stmts.push(jobj(vec![
                            ("k", jstr("intrinsic")),
                            ("dbg", jstr(&format!("{:?}", i))),
                            ("line", format!("{}", l)),
                            ("exp", jbool(exp)),
                        ]));
                    }
                    _ => {}
                }
            }
            let term = match &data.terminator {
                None => jnull(),
                Some(t) => {
                    let (_f, l, _e, exp) = self.span_info(t.source_info.span);
                    let mut out: Vec<(&str, String)> = vec![];
                    match &t.kind {
                        TerminatorKind::Goto { target } => {
                            out.push(("k", jstr("goto")));
                            out.push(("t", format!("{}", target.as_usize())));
                        }
                        TerminatorKind::SwitchInt { discr, targets } => {
                            out.push(("k", jstr("switch")));
                            out.push(("discr", self.operand(owner, body, discr)));
                            let dty = discr.ty(&body.local_decls, tcx);
                            out.push(("discr_ty", jstr(&format!("{}", dty))));
                            let ts: Vec<String> = targets
                                .iter()
                                .map(|(v, b)| format!("[{},{}]", jstr(&format!("{}", v)), b.as_usize()))
                                .collect();
                            out.push(("targets", jarr(ts)));
                            out.push(("otherwise", format!("{}", targets.otherwise().as_usize())));
                        }
                        TerminatorKind::Call { func, args, destination, target, unwind, .. } => {
                            out.push(("k", jstr("call")));
                            if let Some((cdid, gargs)) = func.const_fn_def() {
                                out.push(("fn", self.fn_ref(owner, cdid, gargs)));
                            } else {
                                out.push(("fn", jnull()));
                                out.push(("fnop", self.operand(owner, body, func)));
                            }
                            let a: Vec<String> =
                                args.iter().map(|a| self.operand(owner, body, &a.node)).collect();
                            out.push(("args", jarr(a)));
                            out.push(("dest", self.place(body, destination)));
                            out.push((
                                "target",
                                match target {
                                    Some(b) => format!("{}", b.as_usize()),
                                    None => jnull(),
                                },
                            ));
                            out.push((
                                "unwind",
                                match unwind {
                                    mir::UnwindAction::Cleanup(b) => format!("{}", b.as_usize()),
                                    _ => jnull(),
                                },
                            ));
                        }
                        TerminatorKind::Assert { cond, expected, msg, target, .. } => {
                            out.push(("k", jstr("assert")));
                            out.push(("cond", self.operand(owner, body, cond)));
                            out.push(("expected", jbool(*expected)));
                            let (mk, mops): (String, Vec<String>) = match &**msg {
                                mir::AssertKind::BoundsCheck { len, index } => (
                                    "BoundsCheck".into(),
                                    vec![self.operand(owner, body, len), self.operand(owner, body, index)],
                                ),
                                mir::AssertKind::Overflow(op, a, b) => (
                                    format!("Overflow({:?})", op),
                                    vec![self.operand(owner, body, a), self.operand(owner, body, b)],
                                ),
                                mir::AssertKind::OverflowNeg(a) => {
                                    ("OverflowNeg".into(), vec![self.operand(owner, body, a)])
                                }
                                mir::AssertKind::DivisionByZero(a) => {
                                    ("DivisionByZero".into(), vec![self.operand(owner, body, a)])
                                }
                                mir::AssertKind::RemainderByZero(a) => {
                                    ("RemainderByZero".into(), vec![self.operand(owner, body, a)])
                                }
                                other => (format!("{:?}", std::mem::discriminant(other)), vec![]),
                            };
                            out.push(("msg", jstr(&mk)));
                            out.push(("msg_ops", jarr(mops)));
                            out.push(("target", format!("{}", target.as_usize())));
                        }
                        TerminatorKind::Return => out.push(("k", jstr("return"))),
                        TerminatorKind::Unreachable => out.push(("k", jstr("unreachable"))),
                        TerminatorKind::UnwindResume => out.push(("k", jstr("resume"))),
                        TerminatorKind::UnwindTerminate(_) => out.push(("k", jstr("terminate"))),
                        TerminatorKind::Drop { place, target, unwind, .. } => {
                            out.push(("k", jstr("drop")));
                            out.push(("place", self.place(body, place)));
                            out.push(("target", format!("{}", target.as_usize())));
                            out.push((
                                "unwind",
                                match unwind {
                                    mir::UnwindAction::Cleanup(b) => format!("{}", b.as_usize()),
                                    _ => jnull(),
                                },
                            ));
                        }
                        TerminatorKind::FalseEdge { real_target, .. } => {
                            out.push(("k", jstr("goto")));
                            out.push(("t", format!("{}", real_target.as_usize())));
                        }
                        TerminatorKind::FalseUnwind { real_target, .. } => {
                            out.push(("k", jstr("goto")));
                            out.push(("t", format!("{}", real_target.as_usize())));
                        }
                        other => {
                            out.push(("k", jstr("other")));
                            out.push(("dbg", jstr(&format!("{:?}", std::mem::discriminant(other)))));
                        }
                    }
                    out.push(("line", format!("{}", l)));
                    out.push(("exp", jbool(exp)));
                    jobj(out)
                }
            };
            blocks.push(jobj(vec![
                ("cleanup", jbool(data.is_cleanup)),
                ("stmts", jarr(stmts)),
                ("term", term),
            ]));
        }
        let mut out: Vec<(&str, String)> = vec![
            ("name", jstr(name)),
            ("id", jstr(id)),
            ("kind", jstr(kind)),
            ("file", jstr(&file)),
            ("line", format!("{}", line)),
            ("end_line", format!("{}", end_line)),
            ("arg_count", format!("{}", body.arg_count)),
            ("locals", jarr(locals)),
            ("debug", jarr(debug)),
            ("blocks", jarr(blocks)),
        ];
        if let Some(p) = parent {
            out.push(("parent", jstr(&p)));
        }
        if let Some(p) = promoted {
            out.push(("promoted", format!("{}", p)));
        }
        if matches!(tcx.def_kind(owner), DefKind::Fn | DefKind::AssocFn) && promoted.is_none() {
            out.push(("vis", jstr(&format!("{:?}", tcx.visibility(owner)))));
            let sig = tcx.fn_sig(owner).instantiate_identity().skip_norm_wip().skip_binder();
            let ins: Vec<String> = sig.inputs().iter().map(|t| jstr(&format!("{}", t))).collect();
            out.push(("sig_inputs", jarr(ins)));
            out.push(("sig_output", jstr(&format!("{}", sig.output()))));
        }
        jobj(out)
    }
}

struct Cb;
impl rustc_driver::Callbacks for Cb {
    fn after_analysis<'tcx>(&mut self, _c: &Compiler, tcx: TyCtxt<'tcx>) -> Compilation {
        let out_dir = match std::env::var("MIRFACTS_OUT") {
            Ok(p) => p,
            Err(_) => return Compilation::Continue,
        };
        let krate = tcx.crate_name(LOCAL_CRATE).to_string();
        let mut cx = Ctx { tcx, adts: BTreeMap::new() };
        let mut bodies = vec![];
        for ldid in tcx.hir_body_owners() {
            let did = ldid.to_def_id();
            let kind = tcx.def_kind(did);
            if !matches!(kind, DefKind::Fn | DefKind::AssocFn | DefKind::Closure) {
                continue;
            }
            let name = nice_name(tcx, did);
            let id = canon_id(tcx, did);
            let parent = if matches!(kind, DefKind::Closure) {
                Some(canon_id(tcx, tcx.parent(did)))
            } else {
                None
            };
            let kstr = match kind {
                DefKind::Fn => "Fn",
                DefKind::AssocFn => "AssocFn",
                _ => "Closure",
            };
            let body = tcx.optimized_mir(did);
            bodies.push(cx.body(did, &name, &id, kstr, parent, None, body));
            let promoted = tcx.promoted_mir(did);
            for (i, pb) in promoted.iter_enumerated() {
                let pname = format!("{}::promoted[{}]", name, i.as_usize());
                let pid = format!("{}::promoted[{}]", id, i.as_usize());
                bodies.push(cx.body(
                    did,
                    &pname,
                    &pid,
                    "Promoted",
                    Some(id.clone()),
                    Some(i.as_usize()),
                    pb,
                ));
            }
        }
        // statics and consts of the crate
        let mut statics = vec![];
        for ldid in tcx.hir_crate_items(()).definitions() {
            let did = ldid.to_def_id();
            let kind = tcx.def_kind(did);
            match kind {
                DefKind::Static { .. } => {
                    let ty = tcx.type_of(did).instantiate_identity().skip_norm_wip();
                    statics.push(jobj(vec![
                        ("name", jstr(&nice_name(tcx, did))),
                        ("kind", jstr("static")),
                        ("ty", jstr(&format!("{}", ty))),
                    ]));
                }
                DefKind::Const { .. } => {
                    let ty = tcx.type_of(did).instantiate_identity().skip_norm_wip();
                    let mut f = vec![
                        ("name", jstr(&nice_name(tcx, did))),
                        ("kind", jstr("const")),
                        ("ty", jstr(&format!("{}", ty))),
                    ];
                    if matches!(ty.kind(), ty::Int(_) | ty::Uint(_) | ty::Bool) {
                        if let Ok(v) = tcx.const_eval_poly(did) {
                            if let Some(si) = v.try_to_scalar_int() {
                                let bits = si.to_bits(si.size());
                                f.push(("int", jstr(&format!("{}", bits))));
                            }
                        }
                    }
                    statics.push(jobj(f));
                }
                _ => {}
            }
        }
        let adts: Vec<String> = cx
            .adts
            .iter()
            .filter(|(_, v)| !v.is_empty())
            .map(|(k, v)| format!("{}:{}", jstr(k), v))
            .collect();
        let doc = jobj(vec![
            ("crate", jstr(&krate)),
            ("bodies", jarr(bodies)),
            ("adts", format!("{{{}}}", adts.join(","))),
            ("items", jarr(statics)),
        ]);
        std::fs::create_dir_all(&out_dir).ok();
        let tmp = format!("{}/{}.{}.tmp", out_dir, krate, std::process::id());
        std::fs::write(&tmp, doc).unwrap();
        std::fs::rename(&tmp, format!("{}/{}.json", out_dir, krate)).unwrap();
        Compilation::Continue
    }
}

fn main() {
    let mut args: Vec<String> = std::env::args().collect();
    // RUSTC_WORKSPACE_WRAPPER: argv[1] is the path of the real rustc
    if args.len() > 1 && (args[1].ends_with("rustc") || args[1].contains("/rustc")) {
        args.remove(1);
    }
    rustc_driver::run_compiler(&args, &mut Cb);
}
