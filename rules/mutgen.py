"""Mechanical mutation generator for the checker self-test (bin/mutsweep).

One mutant = one edited source line (or one deleted statement) of the non-test code of the three workspace crates.  The operators are the
classical ones (relational / arithmetic / logical operator replacement, negated condition, constant change, statement deletion, method
sibling swap) plus a table of *domain siblings* of this code base (left/right, lefts/rights, fee_pool/tips, e_start/e_post_end, the
*_hash fields, output 0/1, the tip_9xx predicates, ...).  Nothing here decides a property: the sweep measures which rule instances notice
which edits, finds instances that no seeded variant has confirmed yet (candidates for arming after review) and lines whose edits no
rule notices (candidates for new rules)."""
import os
import re

FILES = [
    "src/state.rs", "src/state/applytx.rs", "src/state/melmint.rs", "src/state/coins.rs", "src/state/txset.rs",
    "src/smtmapping.rs", "src/genesis.rs", "src/tip_heights.rs",
    "lib/melvm/src/lib.rs", "lib/melvm/src/executor.rs", "lib/melvm/src/opcode.rs", "lib/melvm/src/value.rs", "lib/melvm/src/consts.rs",
    "lib/tip911-stakeset/src/lib.rs",
]

REL = {" < ": [" <= ", " > "], " <= ": [" < "], " > ": [" >= ", " < "], " >= ": [" > "], " == ": [" != "], " != ": [" == "]}
ARI = {" + ": [" - "], " - ": [" + "], " * ": [" / "], " / ": [" * "], " += ": [" -= "], " -= ": [" += "], " >> ": [" << "], " << ": [" >> "],
       " % ": [" / "], " | ": [" & "], " & ": [" | "], " ^ ": [" | "]}
LOG = {" && ": [" || "], " || ": [" && "]}
METH = {
    "saturating_add": ["saturating_sub", "wrapping_add"], "saturating_sub": ["saturating_add", "wrapping_sub"], "saturating_mul": ["wrapping_mul"],
    "checked_sub": ["checked_add"], "checked_add": ["checked_sub"], "checked_div": ["checked_rem"], "checked_rem": ["checked_div"],
    "overflowing_add": ["overflowing_sub"], "overflowing_sub": ["overflowing_add"], "overflowing_mul": ["overflowing_add"],
    "wrapping_shl": ["wrapping_shr"], "wrapping_shr": ["wrapping_shl"],
    ".min(": [".max("], ".max(": [".min("], ".floor()": [".ceil()"], "is_some()": ["is_none()"], "is_none()": ["is_some()"],
    "is_empty()": ["is_empty() == false"], "unwrap_or(false)": ["unwrap_or(true)"], "unwrap_or(0)": ["unwrap_or(1)"],
    "to_be_bytes": ["to_le_bytes"], "from_be_bytes": ["from_le_bytes"], "contains_key(": ["contains_key_NOT("], ".first()": [".last()"], ".last()": [".first()"],
    "sort_unstable()": ["reverse()"], ".any(": [".all("], ".all(": [".any("], "then_some(": ["then_some_NOT("],
    "push_back": ["push_front"], "pop_back": ["pop_front"], "true": ["false"], "false": ["true"],
    "insert_coin(": None, "remove_coin(": None,
}
# domain siblings: an identifier and what a maintainer could plausibly confuse it with
SIB = {
    "left": ["right"], "right": ["left"], "lefts": ["rights"], "rights": ["lefts"], "total_lefts": ["total_rights"], "total_rights": ["total_lefts"],
    "left_withdrawn": ["right_withdrawn"], "right_withdrawn": ["left_withdrawn"], "fee_pool": ["tips"], "tips": ["fee_pool"],
    "e_start": ["e_post_end"], "e_post_end": ["e_start"], "coins_hash": ["pools_hash", "history_hash"], "pools_hash": ["coins_hash"],
    "history_hash": ["coins_hash"], "stakes_hash": ["pools_hash"], "transactions_hash": ["coins_hash"],
    "tip_901": ["tip_902"], "tip_902": ["tip_901"], "tip_906": ["tip_908"], "tip_908": ["tip_906"], "tip_909": ["tip_909a"], "tip_909a": ["tip_909"],
    "tip_910": ["tip_909"], "tip_911": ["tip_910"],
    "Mel": ["Sym"], "Sym": ["Mel", "Erg"], "Erg": ["Sym"], "Mainnet": ["Testnet"], "Testnet": ["Mainnet"],
    "Swap": ["LiqDeposit"], "LiqDeposit": ["LiqWithdraw"], "LiqWithdraw": ["LiqDeposit"], "Faucet": ["Normal"], "DoscMint": ["Normal"], "Stake": ["Normal"],
    "height": ["height_NOT"], "min_fee": ["tx.fee"], "present_votes": ["total_votes"], "total_votes": ["present_votes"],
    "HADDR_PARENT_VALUE": ["HADDR_PARENT_INDEX"], "HADDR_SPENDER_INDEX": ["HADDR_PARENT_INDEX"], "HADDR_PARENT_HEIGHT": ["HADDR_PARENT_VALUE"],
    "x": ["y"], "y": ["x"], "begin": ["end"], "end": ["begin"], "iterations": ["op_count"], "op_count": ["iterations"],
    "syms_staked": ["e_start"], "pubkey": ["pubkey_NOT"],
}
SIB = {k: [x for x in v if not x.endswith("_NOT")] for k, v in SIB.items()}


def code_region(path, text):
    """lines [0, n) of non-test code: everything before the first top-level `#[cfg(test)]` that introduces `mod tests`"""
    lines = text.split("\n")
    for i, l in enumerate(lines):
        if l.startswith("#[cfg(test)]"):
            return i
    return len(lines)


def strip_strings(line):
    """blank out string literals and trailing comments so operators inside them are not mutated (same length)"""
    out, i, n, ins = [], 0, len(line), False
    while i < n:
        c = line[i]
        if ins:
            if c == "\\" and i + 1 < n:
                out.append("  "); i += 2; continue
            if c == '"':
                ins = False
            out.append(" " if c != '"' else '"')
        else:
            if c == '"':
                ins = True; out.append(c)
            elif c == "/" and i + 1 < n and line[i + 1] == "/":
                out.append(" " * (n - i)); break
            else:
                out.append(c)
        i += 1
    return "".join(out)


def _occurrences(s, sub):
    i = s.find(sub)
    while i >= 0:
        yield i
        i = s.find(sub, i + 1)


def line_mutants(line):
    """yield (op, new_line) for one source line"""
    st = strip_strings(line)
    code = st.strip()
    if not code or code.startswith(("#[", "use ", "pub use ", "//", "mod ", "pub mod ", "log::", "debug!", "trace!")) or "log::" in code:
        return
    seen = set()

    def emit(op, new):
        if new != line and new not in seen:
            seen.add(new)
            return (op, new)
        return None
    for table, tag in ((REL, "ROR"), (ARI, "AOR"), (LOG, "LCR")):
        for a, bs in table.items():
            for i in _occurrences(st, a):
                for b in bs:
                    r = emit("%s:%s->%s" % (tag, a.strip(), b.strip()), line[:i] + b + line[i + len(a):])
                    if r:
                        yield r
    for a, bs in METH.items():
        if not bs:
            continue
        for i in _occurrences(st, a):
            if a in ("true", "false") and (i > 0 and (st[i - 1].isalnum() or st[i - 1] == "_") or (i + len(a) < len(st) and (st[i + len(a)].isalnum() or st[i + len(a)] == "_"))):
                continue
            for b in bs:
                if b.endswith("_NOT("):
                    continue
                r = emit("MSR:%s->%s" % (a, b), line[:i] + b + line[i + len(a):])
                if r:
                    yield r
    # negated conditions
    m = re.match(r"^(\s*(?:\}\s*else\s+)?if )(?!let )(.*) \{\s*$", st)
    if m and " let " not in st:
        cond = line[len(m.group(1)):line.rindex(" {")]
        new = m.group(1) + ("!(%s)" % cond) + " {"
        r = emit("NEG:if", new)
        if r:
            yield r
    m = re.match(r"^(\s*while )(?!let )(.*) \{\s*$", st)
    if m:
        cond = line[len(m.group(1)):line.rindex(" {")]
        r = emit("NEG:while", m.group(1) + ("!(%s)" % cond) + " {")
        if r:
            yield r
    # integer constants (decimal, not part of an identifier, not tuple fields like `.0`)
    for mm in re.finditer(r"(?<![A-Za-z0-9_\.])(\d[\d_]*)(?![\d_]*[A-Za-z\.])", st):
        v = mm.group(1)
        try:
            n = int(v.replace("_", ""))
        except ValueError:
            continue
        for nv in ({0: [1], 1: [0, 2]}.get(n, [n + 1, n - 1])):
            r = emit("CRP:%d->%d" % (n, nv), line[:mm.start(1)] + str(nv) + line[mm.end(1):])
            if r:
                yield r
    # domain siblings (whole identifiers)
    for mm in re.finditer(r"[A-Za-z_][A-Za-z0-9_]*", st):
        w = mm.group(0)
        for b in SIB.get(w, []):
            r = emit("SIB:%s->%s" % (w, b), line[:mm.start()] + b + line[mm.end():])
            if r:
                yield r
    # argument swap f(a, b) with two simple arguments
    for mm in re.finditer(r"\(([A-Za-z_][\w\.\(\)&\*]*), ([A-Za-z_][\w\.\(\)&\*]*)\)", st):
        a, b = mm.group(1), mm.group(2)
        if a != b and a.count("(") == a.count(")") and b.count("(") == b.count(")"):
            r = emit("ASW", line[:mm.start()] + "(%s, %s)" % (b, a) + line[mm.end():])
            if r:
                yield r
    # `?` dropped from `foo(..)?;` statements is a type error in general; instead: early-return statements and plain call statements are deleted below


def statement_deletions(lines, lo, hi):
    """yield (line_index, op, replacement_lines) for single-line statements that can go: `x.f(..);`, `x = ..;`, `x += ..;`, `return Err(..);`, `continue;`, `break;`"""
    for i in range(lo, hi):
        st = strip_strings(lines[i])
        code = st.strip()
        if not code.endswith(";") or code.startswith(("let ", "use ", "pub ", "//", "type ", "const ", "static ", "#")) or "log::" in code:
            continue
        if code.count("(") != code.count(")") or code.count("{") != code.count("}"):
            continue
        if re.match(r"^(return\b|continue;|break;)", code):
            yield i, "SDL:" + code.split("(")[0][:24], []
        elif re.match(r"^[A-Za-z_][\w\.\[\]\(\)&\*]*\s*(\+=|-=|=)\s", code) or re.match(r"^[A-Za-z_][\w\.:]*(\(|\.)", code):
            yield i, "SDL:stmt", []


def generate(repo):
    out = []
    for rel in FILES:
        p = os.path.join(repo, rel)
        if not os.path.exists(p):
            continue
        text = open(p).read()
        lines = text.split("\n")
        hi = code_region(p, text)
        in_block_comment = False
        for i in range(hi):
            l = lines[i]
            s = l.strip()
            if s.startswith("/*"):
                in_block_comment = True
            if in_block_comment:
                if "*/" in s:
                    in_block_comment = False
                continue
            if s.startswith(("///", "//!", "//")):
                continue
            k = 0
            for op, new in line_mutants(l):
                out.append(dict(id="%s:%d:%s#%d" % (rel, i + 1, op, k), file=rel, line=i + 1, op=op, before=l, after=[new]))
                k += 1
        for i, op, repl in statement_deletions(lines, 0, hi):
            out.append(dict(id="%s:%d:%s" % (rel, i + 1, op), file=rel, line=i + 1, op=op, before=lines[i], after=repl))
    return out


if __name__ == "__main__":
    import sys, collections
    ms = generate(sys.argv[1] if len(sys.argv) > 1 else "/repo")
    print(len(ms), "mutants")
    c = collections.Counter(m["op"].split(":")[0] for m in ms)
    print(dict(c))
    c2 = collections.Counter(m["file"] for m in ms)
    print(dict(c2))
