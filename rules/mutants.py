"""E6(a): seeded variants.  Each entry edits one place of a scratch copy of /repo so that a rule instance
breaks while the crate still compiles; the named check must then report a violation whose key contains
`expect`.  `expect: None` marks a behaviour-preserving edit that must stay quiet."""

A = "src/state/applytx.rs"
S = "src/state.rs"
M = "src/state/melmint.rs"
CO = "src/state/coins.rs"
SM = "src/smtmapping.rs"
EX = "lib/melvm/src/executor.rs"
OP = "lib/melvm/src/opcode.rs"
LV = "lib/melvm/src/lib.rs"
SS = "lib/tip911-stakeset/src/lib.rs"

MUTANTS = [
    # ---------------------------------------------------------------- C05
    dict(id="c05-gate-dropped", prop="C05", file=A,
         find="        if tx.fee < min_fee {\n            return Err(StateError::InsufficientFees(min_fee));\n        } else {",
         repl="        {", expect="R1/gate/missing"),
    dict(id="c05-gate-inverted", prop="C05", file=A, find="if tx.fee < min_fee {", repl="if min_fee < tx.fee {", expect="R1/gate/"),
    dict(id="c05-ballast", prop="C05", file=A, find="tx.base_fee(next_state.fee_multiplier, 0, |c| {", repl="tx.base_fee(next_state.fee_multiplier, 50, |c| {", expect="R1/base_fee/ballast"),
    dict(id="c05-weigher-zero", prop="C05", file=A, find="            covenant_weight_from_bytes(c)\n", repl="            { let _ = covenant_weight_from_bytes(c); 0 }\n", expect="R1/base_fee/weigher"),
    dict(id="c05-swap-accumulators", prop="C05", file=A,
         find="next_state.tips.0 = next_state.tips.0.saturating_add(tips.0);\n            next_state.fee_pool.0 = next_state.fee_pool.0.saturating_add(min_fee.0);",
         repl="next_state.tips.0 = next_state.tips.0.saturating_add(min_fee.0);\n            next_state.fee_pool.0 = next_state.fee_pool.0.saturating_add(tips.0);", expect="R2/split/"),
    dict(id="c05-fee-to-both", prop="C05", file=A, find="next_state.tips.0.saturating_add(tips.0)", repl="next_state.tips.0.saturating_add(tx.fee.0)", expect="R2/split/"),
    dict(id="c05-shift-15", prop="C05", file=S, find="CoinValue(self.fee_pool.0 >> 16)", repl="CoinValue(self.fee_pool.0 >> 15)", expect="R3/"),
    dict(id="c05-no-subtract", prop="C05", file=S, find="        self.fee_pool -= base_fees;\n", repl="", expect="R3/fee_pool"),
    dict(id="c05-tips-not-zeroed", prop="C05", file=S, find="        self.tips = 0.into();\n", repl="", expect="R3/tips"),
    dict(id="c05-reward-const-dest", prop="C05", file=S, find="covhash: action.reward_dest,", repl="covhash: Address::coin_destroy(),", expect="R3/coin/covhash"),
    dict(id="c05-tips-read-after-zero", prop="C05", file=S,
         find="        let tips = self.tips;\n        self.tips = 0.into();\n", repl="        self.tips = 0.into();\n        let tips = self.tips;\n", expect="R3/coin/value"),
    dict(id="c05-weigher-unwrap-or-1", prop="C05", file=LV, find="Covenant::from_bytes(b).map(|b| b.weight()).unwrap_or(0)", repl="Covenant::from_bytes(b).map(|_b| 0).unwrap_or(0)", expect="R1/weigher/def"),
    # ---------------------------------------------------------------- C17 (against the repaired tree)
    dict(id="c17-writer-elsewhere", prop="C17", file=S, find="        self.fee_pool += CoinValue(mel);\n", repl="        self.fee_pool += CoinValue(mel);\n        self.fee_multiplier += 1;\n", expect="R1/writer/"),
    dict(id="c17-shift-6", prop="C17", file=S, find="(self.fee_multiplier >> 7).max(2)", repl="(self.fee_multiplier >> 6).max(2)", expect="R2/formula/flag=1"),
    dict(id="c17-div-64", prop="C17", file=S, find="delta.unsigned_abs() as u128) / 128;", repl="delta.unsigned_abs() as u128) / 64;", expect="R2/formula/"),
    dict(id="c17-floor-before-901", prop="C17", file=S, find="        } else {\n            self.fee_multiplier >> 7\n        };", repl="        } else {\n            (self.fee_multiplier >> 7).max(2)\n        };", expect="R2/formula/flag=0"),
    dict(id="c17-plain-minus", prop="C17", file=S, find="self.fee_multiplier.saturating_sub(scaled_movement);", repl="self.fee_multiplier - scaled_movement;", expect="R3/overflow:Sub"),
    dict(id="c17-plain-mul", prop="C17", file=S, find="max_movement.saturating_mul(delta.unsigned_abs() as u128) / 128", repl="max_movement * (delta.unsigned_abs() as u128) / 128", expect="R3/overflow:Mul"),
    dict(id="c17-flag-const", prop="C17", file=S, find="self.apply_proposer_action(action, self.tip_901());", repl="self.apply_proposer_action(action, true);", expect="R2/flag/seal"),
    dict(id="c17-sign-swapped", prop="C17", file=S, find="        if delta >= 0 {\n            self.fee_multiplier = self.fee_multiplier.saturating_add", repl="        if delta <= 0 {\n            self.fee_multiplier = self.fee_multiplier.saturating_add", expect="R2/sign-guard"),
    dict(id="c17-move-without-action", prop="C17", file=S, find="            self.apply_proposer_action(action, self.tip_901());\n        }", repl="            self.apply_proposer_action(action, self.tip_901());\n        } else {\n            self.move_action_fee_multiplier(false, ProposerAction { fee_multiplier_delta: 1, reward_dest: Address::coin_destroy() });\n        }", expect="R1/"),
    dict(id="c17-q-lt-else", prop="C17", file=S, find="        if delta >= 0 {\n            self.fee_multiplier = self.fee_multiplier.saturating_add(scaled_movement);\n        } else {\n            self.fee_multiplier = self.fee_multiplier.saturating_sub(scaled_movement);\n        }",
         repl="        if delta < 0 {\n            self.fee_multiplier = self.fee_multiplier.saturating_sub(scaled_movement);\n        } else {\n            self.fee_multiplier = self.fee_multiplier.saturating_add(scaled_movement);\n        }", expect=None),
    # quiet ones
    dict(id="c05-q-le", prop="C05", file=A, find="if tx.fee < min_fee {", repl="if !(tx.fee >= min_fee) {", expect=None),
    dict(id="c05-q-div65536", prop="C05", file=S, find="CoinValue(self.fee_pool.0 >> 16)", repl="CoinValue(self.fee_pool.0 / 65536)", expect=None),
    dict(id="c05-q-rename", prop="C05", file=A, find="let tips = tx.fee - min_fee;\n            next_state.tips.0 = next_state.tips.0.saturating_add(tips.0);",
         repl="let extra = tx.fee - min_fee;\n            next_state.tips.0 = next_state.tips.0.saturating_add(extra.0);", expect=None),
]
