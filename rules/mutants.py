"""E6(a): seeded variants.  Each entry edits one place of a scratch copy of /repo so that a rule instance
breaks while the crate still compiles; the named check must then report a violation whose key contains
`expect`.  `expect: None` marks a behaviour-preserving edit that must stay quiet."""

A = "src/state/applytx.rs"
S = "src/state.rs"
M = "src/state/melmint.rs"
CO = "src/state/coins.rs"
SM = "src/smtmapping.rs"
EX = "lib/melvm/src/executor.rs"
OP = "lib/melvm/src/opcode.rs"
LV = "lib/melvm/src/lib.rs"
SS = "lib/tip911-stakeset/src/lib.rs"
VA = "lib/melvm/src/value.rs"

MUTANTS = [
    # ---------------------------------------------------------------- C05
    dict(id="c05-gate-dropped", prop="C05", file=A,
         find="        if tx.fee < min_fee {\n            return Err(StateError::InsufficientFees(min_fee));\n        } else {",
         repl="        {", expect="R1/gate/missing"),
    dict(id="c05-gate-inverted", prop="C05", file=A, find="        if tx.fee < min_fee {\n            return Err(StateError::InsufficientFees(min_fee));\n        } else {", repl="        if min_fee < tx.fee {\n            return Err(StateError::InsufficientFees(min_fee));\n        } else {", also=[dict(file=A, find="        if tx.fee < min_fee {\n            return Err(StateError::InsufficientFees(min_fee));\n        }\n    }", repl="        if min_fee < tx.fee {\n            return Err(StateError::InsufficientFees(min_fee));\n        }\n    }")], expect="R1/gate/"),
    dict(id="c05-ballast", prop="C05", file=A, find="    tx.base_fee(fee_multiplier, 0, |c| {", repl="    tx.base_fee(fee_multiplier, 50, |c| {", expect="R1/base_fee/ballast"),
    dict(id="c05-weigher-zero", prop="C05", file=A, find="        covenant_weight_from_bytes(c).min(weight_cap)\n", repl="        { let _ = covenant_weight_from_bytes(c).min(weight_cap); 0 }\n", expect="R1/base_fee/weigher"),
    dict(id="c05-swap-accumulators", prop="C05", file=A,
         find="next_state.tips.0 = next_state.tips.0.saturating_add(tips.0);\n            next_state.fee_pool.0 = next_state.fee_pool.0.saturating_add(min_fee.0);",
         repl="next_state.tips.0 = next_state.tips.0.saturating_add(min_fee.0);\n            next_state.fee_pool.0 = next_state.fee_pool.0.saturating_add(tips.0);", expect="R2/split/"),
    dict(id="c05-fee-to-both", prop="C05", file=A, find="next_state.tips.0.saturating_add(tips.0)", repl="next_state.tips.0.saturating_add(tx.fee.0)", expect="R2/split/"),
    dict(id="c05-shift-15", prop="C05", file=S, find="CoinValue(self.fee_pool.0 >> 16)", repl="CoinValue(self.fee_pool.0 >> 15)", expect="R3/"),
    dict(id="c05-no-subtract", prop="C05", file=S, find="        self.fee_pool -= base_fees;\n", repl="", expect="R3/fee_pool"),
    dict(id="c05-tips-not-zeroed", prop="C05", file=S, find="        self.tips = 0.into();\n", repl="", expect="R3/tips"),
    dict(id="c05-reward-const-dest", prop="C05", file=S, find="covhash: action.reward_dest,", repl="covhash: Address::coin_destroy(),", expect="R3/coin/covhash"),
    dict(id="c05-tips-read-after-zero", prop="C05", file=S,
         find="        let tips = self.tips;\n        self.tips = 0.into();\n", repl="        self.tips = 0.into();\n        let tips = self.tips;\n", expect="R3/coin/value"),
    dict(id="c05-weigher-unwrap-or-1", prop="C05", file=LV, find="Covenant::from_bytes(b).map(|b| b.weight()).unwrap_or(0)", repl="Covenant::from_bytes(b).map(|_b| 0).unwrap_or(0)", expect="R1/weigher/def"),
    # ---------------------------------------------------------------- C17 (against the repaired tree)
    dict(id="c17-writer-elsewhere", prop="C17", file=S, find="        self.fee_pool = CoinValue(self.fee_pool.0.saturating_add(mel));\n", repl="        self.fee_pool = CoinValue(self.fee_pool.0.saturating_add(mel));\n        self.fee_multiplier += 1;\n", expect="R1/writer/"),
    dict(id="c17-shift-6", prop="C17", file=S, find="(self.fee_multiplier >> 7).max(2)", repl="(self.fee_multiplier >> 6).max(2)", expect="R2/formula/flag=1"),
    dict(id="c17-div-64", prop="C17", file=S, find="delta.unsigned_abs() as u128) / 128;", repl="delta.unsigned_abs() as u128) / 64;", expect="R2/formula/"),
    dict(id="c17-floor-before-901", prop="C17", file=S, find="        } else {\n            self.fee_multiplier >> 7\n        };", repl="        } else {\n            (self.fee_multiplier >> 7).max(2)\n        };", expect="R2/formula/flag=0"),
    dict(id="c17-plain-minus", prop="C17", file=S, find="self.fee_multiplier.saturating_sub(scaled_movement);", repl="self.fee_multiplier - scaled_movement;", expect="R3/overflow:Sub"),
    dict(id="c17-plain-mul", prop="C17", file=S, find="max_movement.saturating_mul(delta.unsigned_abs() as u128) / 128", repl="max_movement * (delta.unsigned_abs() as u128) / 128", expect="R3/overflow:Mul"),
    dict(id="c17-flag-const", prop="C17", file=S, find="self.apply_proposer_action(action, self.tip_901());", repl="self.apply_proposer_action(action, true);", expect="R2/flag/seal"),
    dict(id="c17-sign-swapped", prop="C17", file=S, find="        if delta >= 0 {\n            self.fee_multiplier = self.fee_multiplier.saturating_add", repl="        if delta <= 0 {\n            self.fee_multiplier = self.fee_multiplier.saturating_add", expect="R2/sign-guard"),
    dict(id="c17-move-without-action", prop="C17", file=S, find="            self.apply_proposer_action(action, self.tip_901());\n        }", repl="            self.apply_proposer_action(action, self.tip_901());\n        } else {\n            self.move_action_fee_multiplier(false, ProposerAction { fee_multiplier_delta: 1, reward_dest: Address::coin_destroy() });\n        }", expect="R1/"),
    dict(id="c17-q-lt-else", prop="C17", file=S, find="        if delta >= 0 {\n            self.fee_multiplier = self.fee_multiplier.saturating_add(scaled_movement);\n        } else {\n            self.fee_multiplier = self.fee_multiplier.saturating_sub(scaled_movement);\n        }",
         repl="        if delta < 0 {\n            self.fee_multiplier = self.fee_multiplier.saturating_sub(scaled_movement);\n        } else {\n            self.fee_multiplier = self.fee_multiplier.saturating_add(scaled_movement);\n        }", expect=None),
    # ---------------------------------------------------------------- C06
    dict(id="c06-seal-none", prop="C06", file=S, find="let basis = basis.seal(block.proposer_action);", repl="let basis = basis.seal(None);", expect="R2/seal-arg"),
    dict(id="c06-return-self", prop="C06", file=S, find="        } else {\n            Ok(basis)\n        }", repl="        } else {\n            Ok(self.clone())\n        }", expect="R2/payload"),
    dict(id="c06-take", prop="C06", file=S, find="let transactions = block.transactions.iter().cloned().collect::<Vec<_>>();", repl="let transactions = block.transactions.iter().take(1000).cloned().collect::<Vec<_>>();", expect="R2/batch-arg"),
    dict(id="c06-ignore-batch-error", prop="C06", file=S, find="        basis.apply_tx_batch(&transactions)?;\n        assert!(basis.pools", repl="        let _ = basis.apply_tx_batch(&transactions);\n        assert!(basis.pools", expect="R2/batch-error-propagates"),
    dict(id="c06-inverted", prop="C06", file=S, find="if basis.header() != block.header {", repl="if basis.header() == block.header {", expect="R1/"),
    dict(id="c06-compare-height-only", prop="C06", file=S, find="if basis.header() != block.header {", repl="if basis.header().height != block.header.height {", expect="R1/anchor-missing"),
    dict(id="c06-toblock-no-action", prop="C06", file=S, find="            proposer_action: self.1,\n", repl="            proposer_action: None,\n", expect="R3/field/proposer_action"),
    dict(id="c06-toblock-skip", prop="C06", file=S, find="transactions: self.0.transactions.iter().cloned().collect(),", repl="transactions: self.0.transactions.iter().skip(1).cloned().collect(),", expect="R3/field/transactions"),
    dict(id="c06-q-eq-swapped", prop="C06", file=S, find="        if basis.header() != block.header {", repl="        if !(block.header == basis.header()) {", expect=None),
    # ---------------------------------------------------------------- C07
    dict(id="c07-swap-roots", prop="C07", file=S, find="coins_hash: inner.coins.root_hash(),", repl="coins_hash: inner.pools.root_hash(),", expect="R1/field/coins_hash"),
    dict(id="c07-feepool-zero", prop="C07", file=S, find="            fee_pool: inner.fee_pool,\n            fee_multiplier: inner.fee_multiplier,\n            dosc_speed", repl="            fee_pool: CoinValue(0),\n            fee_multiplier: inner.fee_multiplier,\n            dosc_speed", expect="R1/field/fee_pool"),
    dict(id="c07-previous-same-height", prop="C07", file=S, find=".map(|height| inner.history.get(&BlockHeight(height)).unwrap().hash())", repl=".map(|height| inner.history.get(&BlockHeight(height + 1).min(inner.height)).map(|h| h.hash()).unwrap_or_default())", expect="R1/previous/closure"),
    dict(id="c07-insert-next-height", prop="C07", file=S, find="new.history.insert(self.0.height, self.header());", repl="new.history.insert(self.0.height + BlockHeight(1), self.header());", expect="R2/history-insert/key"),
    dict(id="c07-no-height-bump", prop="C07", file=S, find="        new.height += BlockHeight(1);\n        new.stakes.unlock_old((new.height / STAKE_EPOCH).0);", repl="        new.stakes.unlock_old(((new.height + BlockHeight(1)) / STAKE_EPOCH).0);", expect="R2/height/not-incremented"),
    dict(id="c07-network-rewrite", prop="C07", file=S, find="        new.transactions = Default::default();\n", repl="        new.transactions = Default::default();\n        if new.height.0 == 77_000_000 { new.network = NetID::Testnet; }\n", expect="R3/writer/"),
    dict(id="c07-insert-key-raw", prop="C07", file=SM, find="    pub fn insert(&mut self, key: K, val: V) {\n        let _timer = STAT_SMT_INSERT_SECS.timer_secs(\"smt insert\");\n\n        let key = tmelcrypt::hash_single(&stdcode::serialize(&key).unwrap());",
         repl="    pub fn insert(&mut self, key: K, val: V) {\n        let _timer = STAT_SMT_INSERT_SECS.timer_secs(\"smt insert\");\n\n        let key = tmelcrypt::hash_keyed(b\"k\", &stdcode::serialize(&key).unwrap());", expect="R4/insert/key"),
    dict(id="c07-unsorted-dense", prop="C07", file=S, find="        vv.sort_unstable();\n", repl="", expect="R5/tip908/sorted"),
    dict(id="c07-stake-key", prop="C07", file=SS, find="tree.insert(k.stdcode().hash().0, &v.stdcode());", repl="tree.insert(k.0 .0, &v.stdcode());", expect="R6/key"),
    dict(id="c07-q-inner-rename", prop="C07", file=S, find="        let inner = &self.0;\n        Header {\n            network: inner.network,", repl="        let inner = &self.0;\n        let net = inner.network;\n        Header {\n            network: net,", expect=None),
    # ---------------------------------------------------------------- C08
    dict(id="c08-dosc-const", prop="C08", file=S, find="            dosc_speed: blk.header.dosc_speed,\n            pools,", repl="            dosc_speed: melstructs::MICRO_CONVERTER,\n            pools,", expect="R2/dosc_speed/not-invariant"),
    dict(id="c08-fm-default", prop="C08", file=S, find="            fee_multiplier: blk.header.fee_multiplier,\n            tips", repl="            fee_multiplier: Default::default(),\n            tips", expect="R2/fee_multiplier"),
    dict(id="c08-feepool-from-multiplier", prop="C08", file=S, find="            fee_pool: blk.header.fee_pool,\n            fee_multiplier: blk", repl="            fee_pool: CoinValue(blk.header.fee_multiplier),\n            fee_multiplier: blk", expect="R1/field/fee_pool"),
    dict(id="c08-coins-from-pools-root", prop="C08", file=S, find="CoinMapping::new(db.get_tree(blk.header.coins_hash.0).unwrap());", repl="CoinMapping::new(db.get_tree(blk.header.pools_hash.0).unwrap());", expect="R1/field/coins"),
    dict(id="c08-drop-action", prop="C08", file=S, find="        Self(state, blk.proposer_action)", repl="        Self(state, None)", expect="R1/proposer_action"),
    dict(id="c08-txs-empty", prop="C08", file=S, find="        let transactions = blk.transactions.iter().cloned().collect();\n        let state = UnsealedState {", repl="        let transactions = Default::default();\n        let state = UnsealedState {", expect="R2/transactions"),
    # ---------------------------------------------------------------- C14 (against the repaired tree)
    dict(id="c14-early-some-empty", prop="C14", file=S, find="        // first check all the signatures\n        for (k, sig) in cproof.iter() {", repl="        if cproof.is_empty() { return Some(ConfirmedState { state: self.clone(), cproof }); }\n        for (k, sig) in cproof.iter() {", expect="R1/some-after-loop"),
    dict(id="c14-continue-on-bad-sig", prop="C14", file=S, find="            if !k.verify(&self.header().hash(), sig) {\n                return None;\n            }", repl="            if !k.verify(&self.header().hash(), sig) {\n                continue;\n            }", expect="R1/verify/false"),
    dict(id="c14-le", prop="C14", file=S, find="num::BigInt::from(present_votes) * 3 > num::BigInt::from(total_votes) * 2", repl="num::BigInt::from(present_votes) * 3 < num::BigInt::from(total_votes) * 2", expect="R2/threshold/polarity"),
    dict(id="c14-half", prop="C14", file=S, find="num::BigInt::from(present_votes) * 3 > num::BigInt::from(total_votes) * 2", repl="num::BigInt::from(present_votes) * 2 > num::BigInt::from(total_votes) * 1", expect="R2/threshold/ratio"),
    dict(id="c14-floor-present", prop="C14", file=S, find="num::BigInt::from(present_votes) * 3 > num::BigInt::from(total_votes) * 2", repl="present_votes / 2 * 3 > total_votes", expect="R2/threshold/rounding"),
    dict(id="c14-sign-other-message", prop="C14", file=S, find="if !k.verify(&self.header().hash(), sig) {", repl="if !k.verify(&self.header().previous, sig) {", expect="R1/verify/message"),
    dict(id="c14-wrong-epoch", prop="C14", file=S, find="let my_epoch = self.0.height.epoch();", repl="let my_epoch = self.0.height.epoch() + 1;", expect="R3/"),
    dict(id="c14-no-threshold", prop="C14", file=S, find="if num::BigInt::from(present_votes) * 3 > num::BigInt::from(total_votes) * 2 {", repl="if present_votes > 0 || total_votes == 0 {", expect="R2/"),
    dict(id="c14-q-hash-once", prop="C14", file=S, find="        for (k, sig) in cproof.iter() {\n            if !k.verify(&self.header().hash(), sig) {", repl="        let hh = self.header().hash();\n        for (k, sig) in cproof.iter() {\n            if !k.verify(&hh, sig) {", expect=None),
    dict(id="c14-q-u128-exact", prop="C14", file=S, find="if num::BigInt::from(present_votes) * 3 > num::BigInt::from(total_votes) * 2 {", repl="if num::BigInt::from(total_votes) * 2 < num::BigInt::from(present_votes) * 3 {", expect=None),
    # ---------------------------------------------------------------- C13
    dict(id="c13-start-ge", prop="C13", file=A, find="stake_doc.e_start > curr_epoch", repl="stake_doc.e_start >= curr_epoch", expect="R1/consistent/"),
    dict(id="c13-end-ge", prop="C13", file=A, find="&& stake_doc.e_post_end > stake_doc.e_start", repl="&& stake_doc.e_post_end >= stake_doc.e_start", expect="R1/consistent/"),
    dict(id="c13-drop-value", prop="C13", file=A, find="\n        && stake_doc.syms_staked == coin.value", repl="", expect="R1/consistent/missing"),
    dict(id="c13-drop-sym", prop="C13", file=A, find="            if !coin_is_denom(first_coin, Denom::Sym) {\n                return Err(StateError::MalformedTx);\n            }\n", repl="", expect="R2/sym/"),
    dict(id="c13-sym-continue", prop="C13", file=A, find="            if !coin_is_denom(first_coin, Denom::Sym) {\n                return Err(StateError::MalformedTx);\n            }\n", repl="            if !coin_is_denom(first_coin, Denom::Sym) {\n                continue;\n            }\n", expect="R2/sym/false=>err"),
    dict(id="c13-register-inconsistent", prop="C13", file=A, find="                log::warn!(\"**** REJECTING STAKER {:?} ****\", stake_doc);\n                continue;", repl="                log::warn!(\"**** REJECTING STAKER {:?} ****\", stake_doc);\n                accum.insert(tx.hash_nosigs(), stake_doc);", expect="R2/"),
    dict(id="c13-legacy-wider", prop="C13", file=A, find="&& this.height.0 < 500000", repl="&& this.height.0 < 5000000", expect="R2/legacy/height"),
    dict(id="c13-legacy-all-nets", prop="C13", file=A, find="            if (this.network == NetID::Mainnet || this.network == NetID::Testnet)\n                && this.height.0 < 500000", repl="            if this.height.0 < 500000", expect="R2/legacy/confined"),
    dict(id="c13-epoch-of-coin", prop="C13", file=A, find="let curr_epoch = this.height.epoch();", repl="let curr_epoch = this.height.epoch().saturating_sub(1);", expect="R2/consistent/args"),
    dict(id="c13-unlock-gt", prop="C13", file=SS, find="self.stakes.retain(|_, v| v.e_post_end >= epoch);", repl="self.stakes.retain(|_, v| v.e_post_end > epoch);", expect="R5/unlock_old/filter"),
    dict(id="c13-votes-lt", prop="C13", file=SS, find=".filter(|v| v.e_start <= epoch && v.e_post_end > epoch && v.pubkey == key)", repl=".filter(|v| v.e_start < epoch && v.e_post_end > epoch && v.pubkey == key)", expect="R5/votes/filter"),
    dict(id="c13-total-votes-ge", prop="C13", file=SS, find=".filter(|v| v.e_start <= epoch && v.e_post_end > epoch)\n", repl=".filter(|v| v.e_start <= epoch && v.e_post_end >= epoch)\n", expect="R5/total_votes/filter"),
    dict(id="c13-unlock-old-height", prop="C13", file=S, find="        new.height += BlockHeight(1);\n        new.stakes.unlock_old((new.height / STAKE_EPOCH).0);", repl="        new.stakes.unlock_old((new.height / STAKE_EPOCH).0);\n        new.height += BlockHeight(1);", expect="R4/after-increment"),
    dict(id="c13-no-lock-new-stakes", prop="C13", file=A, find="        if (new_stakes.contains_key(&coin_id.txhash)\n            || this.stakes.get_stake(coin_id.txhash).is_some())", repl="        if (this.stakes.get_stake(coin_id.txhash).is_some())", expect="R3/new-stakes/test"),
    dict(id="c13-lock-legacy-wider", prop="C13", file=A, find="&& this.height.0 < 900000)", repl="&& this.height.0 < 9000000)", expect="R3/legacy/height"),
    dict(id="c13-lock-after-scripts-only-first", prop="C13", file=A, find="        if (new_stakes.contains_key(&coin_id.txhash)\n", repl="        if spend_idx == 0 && (new_stakes.contains_key(&coin_id.txhash)\n", expect="R3/locked/"),
    dict(id="c13-stakes-before-create", prop="C13", file=A, find="    for (k, v) in new_stakes {\n        next_state.stakes.add_stake(k, v);\n    }\n    Ok(next_state)", repl="    for (k, v) in new_stakes.into_iter().take(1) {\n        next_state.stakes.add_stake(k, v);\n    }\n    Ok(next_state)", expect="R6/add/"),
    dict(id="c13-q-fold-sum", prop="C13", file=A, find="    stake_doc.e_start > curr_epoch\n        && stake_doc.e_post_end > stake_doc.e_start", repl="    stake_doc.e_post_end > stake_doc.e_start\n        && curr_epoch < stake_doc.e_start", expect=None),
    # ---------------------------------------------------------------- C19
    dict(id="c19-drop-mainnet", prop="C19", file=A, find="if state.network == NetID::Mainnet && !bug_compatible_with_inflation_exploit {", repl="if false && state.network == NetID::Mainnet && !bug_compatible_with_inflation_exploit {", expect="R2/mainnet=>err"),
    dict(id="c19-testnet-instead", prop="C19", file=A, find="if state.network == NetID::Mainnet && !bug_compatible_with_inflation_exploit {", repl="if state.network == NetID::Testnet && !bug_compatible_with_inflation_exploit {", expect="R2/"),
    dict(id="c19-key-mismatch", prop="C19", file=A, find="        if !bug_compatible_with_inflation_exploit {\n            state.coins.insert_coin(\n                pseudocoin,", repl="        if !bug_compatible_with_inflation_exploit {\n            state.coins.insert_coin(\n                faucet_dedup_pseudocoin(tmelcrypt::hash_single(tx.hash_nosigs().0).into()),", expect="R3/insert/key"),
    dict(id="c19-marker-only-with-outputs", prop="C19", file=A, find="        if !bug_compatible_with_inflation_exploit {\n            state.coins.insert_coin(", repl="        if !bug_compatible_with_inflation_exploit && !tx.outputs.is_empty() {\n            state.coins.insert_coin(", expect="R3/ok=>marked"),
    dict(id="c19-dup-ignored", prop="C19", file=A, find="            return Err(StateError::DuplicateTx);\n", repl="            log::warn!(\"dup\");\n", expect="R3/present=>err"),
    dict(id="c19-faucet-after-effects", prop="C19", file=A, find="        if tx.kind == TxKind::Faucet {\n            handle_faucet_tx(&mut next_state, tx)?;\n        }\n\n        for (i, _) in tx.outputs.iter().enumerate() {", repl="        if tx.kind == TxKind::Faucet && !tx.inputs.is_empty() {\n            handle_faucet_tx(&mut next_state, tx)?;\n        }\n\n        for (i, _) in tx.outputs.iter().enumerate() {", expect="R1/first"),
    dict(id="c19-faucet-error-ignored", prop="C19", file=A, find="            handle_faucet_tx(&mut next_state, tx)?;\n", repl="            let _ = handle_faucet_tx(&mut next_state, tx);\n", expect="R1/error-propagates"),
    dict(id="c19-exception-prefix", prop="C19", file=A, find="tx.hash_nosigs().to_string() == INFLATION_BUG_TX_HASH;", repl="tx.hash_nosigs().to_string().starts_with(&INFLATION_BUG_TX_HASH[..2]);", expect="R2/"),
    dict(id="c19-marker-spendable", prop="C19", file=A, find="                        covhash: HashVal::default().into(),", repl="                        covhash: tx.outputs.get(0).map(|o| o.covhash).unwrap_or(HashVal::default().into()),", expect="R3/marker/covhash"),
    dict(id="c19-q-unconditional-call", prop="C19", file=A, find="        if tx.kind == TxKind::Faucet {\n            handle_faucet_tx(&mut next_state, tx)?;\n        }\n", repl="        handle_faucet_tx(&mut next_state, tx)?;\n", expect=None),
    # ---------------------------------------------------------------- C20
    dict(id="c20-inc-on-overwrite", prop="C20", file=CO, find="        if tip_906 && !preexist {", repl="        if tip_906 {", expect="R1/insert/count/preexisting"),
    dict(id="c20-preexist-after-insert", prop="C20", file=CO, find="        let preexist = !self.inner.get(tmelcrypt::hash_single(&id).0).is_empty();\n        self.inner\n            .insert(tmelcrypt::hash_single(&id).0, &data.stdcode());\n",
         repl="        self.inner\n            .insert(tmelcrypt::hash_single(&id).0, &data.stdcode());\n        let preexist = !self.inner.get(tmelcrypt::hash_single(&id).0).is_empty();\n", expect="R1/insert/read-before-write"),
    dict(id="c20-flag-false", prop="C20", file=S, find="            .insert_coin(pseudocoin_id, pseudocoin_data, self.tip_906());", repl="            .insert_coin(pseudocoin_id, pseudocoin_data, false);", expect="R3/insert_coin/collect_proposer_action_fee"),
    dict(id="c20-flag-true-faucet", prop="C20", file=A, find="                    height: 0.into(),\n                },\n                state.tip_906(),", repl="                    height: 0.into(),\n                },\n                true,", expect="R3/insert_coin/handle_faucet_tx"),
    dict(id="c20-inner-mut", prop="C20", file=CO, find="    /// Root hash.\n", repl="    /// Mutable inner.\n    pub fn inner_mut(&mut self) -> &mut novasmt::Tree<C> {\n        &mut self.inner\n    }\n\n    /// Root hash.\n", expect="R2/"),
    dict(id="c20-activation-inverted", prop="C20", file=S, find="if new.tip_906() && !self.0.tip_906() {", repl="if !new.tip_906() && self.0.tip_906() {", expect="R4/activate/"),
    dict(id="c20-activation-always", prop="C20", file=S, find="if new.tip_906() && !self.0.tip_906() {", repl="if new.tip_906() {", expect="R4/"),
    dict(id="c20-dec-by-two", prop="C20", file=CO, find="self.insert_coin_count(data.coin_data.covhash, count - 1);", repl="self.insert_coin_count(data.coin_data.covhash, count.saturating_sub(2));", expect="R1/remove/count/value"),
    dict(id="c20-zero-stays", prop="C20", file=CO, find="        if count == 0 {\n            self.inner.insert(count_key.0, EMPTY_STR_AS_BYTES);\n        } else {\n            self.inner.insert(count_key.0, &count.stdcode())\n        }", repl="        self.inner.insert(count_key.0, &count.stdcode())", expect="R1/icc/zero-test"),
    dict(id="c20-remove-no-count", prop="C20", file=CO, find="            if !existing.is_empty() {", repl="            if !existing.is_empty() && existing.len() > 100_000 {", expect="R1/remove/count/existing"),
    dict(id="c20-count-key-other", prop="C20", file=CO, find="    pub fn coin_count(&self, covhash: Address) -> u64 {\n        let count_key = tmelcrypt::hash_keyed(COIN_COUNT_STR_AS_BYTES, covhash.0);", repl="    pub fn coin_count(&self, covhash: Address) -> u64 {\n        let count_key = tmelcrypt::hash_keyed(EMPTY_STR_AS_BYTES, covhash.0);", expect="R1/cc/key"),
    dict(id="c20-init-skip", prop="C20", file=S, find="        for (_, v) in old_tree.iter() {", repl="        for (_, v) in old_tree.iter().skip(1) {", expect="R4/init/loop"),
    dict(id="c20-direct-tree-write", prop="C20", file=S, find="        new.transactions = Default::default();\n", repl="        new.transactions = Default::default();\n        if new.height.0 == 99_999_999 { new.coins = CoinMapping::new({ let mut t = new.coins.inner().clone(); t.insert([1u8; 32], b\"x\"); t }); }\n", expect="R2/"),
    # ---------------------------------------------------------------- C18
    dict(id="c18-drop-age", prop="C18", file=A, find="if (this.height - coin_data.height).0 < 100 && this.network == NetID::Mainnet {", repl="if (this.height - coin_data.height).0 < 1 && this.network == NetID::Mainnet {", expect="R1/age/atom"),
    dict(id="c18-age-testnet", prop="C18", file=A, find="if (this.height - coin_data.height).0 < 100 && this.network == NetID::Mainnet {", repl="if (this.height - coin_data.height).0 < 100 && this.network == NetID::Testnet {", expect="R1/age/"),
    dict(id="c18-puzzle-current-header", prop="C18", file=A, find="        this.history\n            .get(&coin_data.height)\n            .ok_or(StateError::InvalidMelPoW)?\n            .hash(),", repl="        this.history\n            .get(&BlockHeight(this.height.0.saturating_sub(1)))\n            .ok_or(StateError::InvalidMelPoW)?\n            .hash(),", expect="R1/"),
    dict(id="c18-accept-unverified", prop="C18", file=A, find="    } else {\n        Err(StateError::InvalidMelPoW)\n    }\n}\n\nfn compute_doscmint_speed", repl="    } else {\n        Ok(false)\n    }\n}\n\nfn compute_doscmint_speed", expect="R1/verify/both-false=>err"),
    dict(id="c18-skip-legacy-verify", prop="C18", file=A, find="    if proof.verify(puzzle, difficulty as _, LegacyMelPowHash) {\n        Ok(false)\n    } else if", repl="    if difficulty == 0 {\n        Ok(false)\n    } else if", expect="R1/verify/args"),
    dict(id="c18-reward-lt", prop="C18", file=A, find="if total_dosc_output > reward_nom {", repl="if total_dosc_output < reward_nom {", expect="R2/"),
    dict(id="c18-min-for-max", prop="C18", file=A, find="                Ok(a.max(new_speed))", repl="                Ok(a.min(new_speed))", expect="R3/reducer/1"),
    dict(id="c18-identity-zero", prop="C18", file=A, find="        .try_reduce(|| this.dosc_speed, |a, b| Ok(a.max(b)))?;", repl="        .try_reduce(|| 0, |a, b| Ok(a.max(b)))?;", expect="R3/identity/0"),
    dict(id="c18-prev-speed-current", prop="C18", file=A, find="        this.history\n            .get(&BlockHeight(this.height.0 - 1))\n            .ok_or(StateError::InvalidMelPoW)?\n            .dosc_speed,", repl="        this.dosc_speed,", expect="R2/reward/prev-speed"),
    dict(id="c18-puzzle-other-input", prop="C18", file=A, find="&stdcode::serialize(tx.inputs.get(0).unwrap()).unwrap(),", repl="&stdcode::serialize(tx.inputs.last().unwrap()).unwrap(),", expect="R1/melpow/args"),
    dict(id="c18-speed-no-tip910-mult", prop="C18", file=A, find="(if is_tip910 { 100 } else { 1 }) * 2u128.pow(difficulty)", repl="(if is_tip910 { 100 } else { 100 }) * 2u128.pow(difficulty)", expect="R5/formula/tip910=0"),
    dict(id="c18-filter-dropped", prop="C18", file=A, find="        .filter(|tx| tx.kind == TxKind::DoscMint)\n        .try_fold(", repl="        .filter(|tx| tx.kind == TxKind::DoscMint && tx.fee.0 > 0)\n        .try_fold(", expect="R4/filter"),
    dict(id="c18-excess-ignored", prop="C18", file=A, find="    check_dosc_total_output(tx, reward_nom)?;\n", repl="    let _ = check_dosc_total_output(tx, reward_nom);\n", expect="R1/reward-bound"),
    dict(id="c18-q-cmp-max", prop="C18", file=A, find="        .try_reduce(|| this.dosc_speed, |a, b| Ok(a.max(b)))?;", repl="        .try_reduce(|| this.dosc_speed, |a, b| Ok(std::cmp::max(a, b)))?;", expect=None),
    dict(id="c18-q-ge-reward", prop="C18", file=A, find="if total_dosc_output > reward_nom {", repl="if reward_nom < total_dosc_output {", expect=None),
    # ---------------------------------------------------------------- C15 (against the repaired tree)
    dict(id="c15-revert-kind-filter", prop="C15", file=M, find="            (tx.kind == TxKind::Swap).then_some(())?; // only swap transactions request swaps\n", repl="", expect="R1/get_swap_transactions/missing:Eq($2.kind,"),
    dict(id="c15-revert-canonical", prop="C15", file=M, find="    (key.left().to_bytes() < key.right().to_bytes()).then_some(key)", repl="    Some(key)", expect="R2/noncanonical@"),
    dict(id="c15-canonical-le", prop="C15", file=M, find="    (key.left().to_bytes() < key.right().to_bytes()).then_some(key)", repl="    (key.left().to_bytes() <= key.right().to_bytes()).then_some(key)", expect="R2/noncanonical@"),
    dict(id="c15-direct-parse", prop="C15", file=M, find="            let pool_key = pool_key_from_data(&tx.data)?; // ensure that data contains a pool key", repl="            let pool_key = PoolKey::from_bytes(&tx.data)?; // ensure that data contains a pool key", expect="R2/noncanonical@get_swap_transactions"),
    dict(id="c15-deposit-kind-dropped", prop="C15", file=M, find="            (tx.kind == TxKind::LiqDeposit\n                && tx.outputs.len() >= 2", repl="            (tx.outputs.len() >= 2", expect="R1/get_deposit_transactions/missing"),
    dict(id="c15-withdraw-any-denom", prop="C15", file=M, find="            (tx.outputs[0].denom == pool_key.liq_token_denom()).then_some(tx)", repl="            (tx.outputs[0].denom != Denom::Mel).then_some(tx)", expect="R1/get_withdrawal_transactions/missing"),
    dict(id="c15-swap-spent-ok", prop="C15", file=M, find="            state.coins.get_coin(tx.output_coinid(0))?; // ensure that first output is unspent\n", repl="", expect="R1/get_swap_transactions/missing:unspent0"),
    dict(id="c15-pay-left-from-left", prop="C15", file=M, find="            swap.outputs[0].value = CoinValue(pro_rata(\n                right_withdrawn,\n                swap.outputs[0].value.0,\n                total_lefts,", repl="            swap.outputs[0].value = CoinValue(pro_rata(\n                left_withdrawn,\n                swap.outputs[0].value.0,\n                total_lefts,", expect="R3/rewrite/left-request/value"),
    dict(id="c15-swap-args-swapped", prop="C15", file=M, find="pool_state.swap_many(total_lefts, total_rights);", repl="pool_state.swap_many(total_rights, total_lefts);", expect="R3/totals/"),
    dict(id="c15-swap-same-denom", prop="C15", file=M, find="            swap.outputs[0].denom = pool.right();\n", repl="            swap.outputs[0].denom = pool.left();\n", expect="R3/rewrite/left-request/denom"),
    dict(id="c15-everyone-gets-total", prop="C15", file=M, find="            pro_rata(total_liqs, my_mtsqrt, total_mtsqrt).into();", repl="            pro_rata(total_liqs, total_mtsqrt, total_mtsqrt).into();", expect="R3d/rewrite/value"),
    dict(id="c15-deposit-keeps-second-coin", prop="C15", file=M, find="        } else {\n            state\n                .coins\n                .remove_coin(original_tx.output_coinid(1), state.tip_906());\n        }", repl="        }", expect="R3d/remove/"),
    dict(id="c15-legacy-deposit-everywhere", prop="C15", file=M, find="                .remove_coin(original_tx.output_coinid(1), state.tip_906());", repl="                .remove_coin(deposit.output_coinid(1), state.tip_906());", expect="R3d/remove/"),
    dict(id="c15-withdraw-right-share-of-left", prop="C15", file=M, find="            value: pro_rata(total_write, my_liqs, total_liqs).into(),", repl="            value: pro_rata(total_left, my_liqs, total_liqs).into(),", expect="R3w/coin1/value"),
    dict(id="c15-withdraw-coin1-denom", prop="C15", file=M, find="        let synth = CoinData {\n            denom: pool.right(),", repl="        let synth = CoinData {\n            denom: pool.left(),", expect="R3w/coin1/denom"),
    dict(id="c15-rewrite-other-output", prop="C15", file=M, find="        let correct_coinid = swap.output_coinid(0);", repl="        let correct_coinid = swap.output_coinid(1);", expect="R3/rewrite/coin"),
    dict(id="c15-pro-rata-ceil", prop="C01", file=M, find="        multiply_frac(x, Ratio::new(mine, total))\n    }", repl="        multiply_frac(x, Ratio::new(mine, total)).saturating_add(1)\n    }", expect="R6/pro_rata"),
    dict(id="c15-builtins-after-swaps", prop="C15", file=M, find="    let state = create_builtins(state);\n    assert!(state.pools.val_iter().count() >= 2);\n    let state = process_swaps(state);", repl="    let state = process_swaps(state);\n    let state = create_builtins(state);\n    assert!(state.pools.val_iter().count() >= 2);", expect="R6/chain"),
    dict(id="c15-pools-unsorted", prop="C15", file=M, find="            v.sort();\n            v.dedup();", repl="            v.dedup();", expect="R6/sorted"),
    dict(id="c15-pool-not-written", prop="C15", file=M, find="    state.pools.insert(*pool, pool_state);\n}\n\n/// Extract the swap requests", repl="    let _ = pool_state;\n}\n\n/// Extract the swap requests", expect="R3/pool-written-back"),
    dict(id="c15-q-for-loop-pools", prop="C15", file=M, find="    pools.iter().for_each(|pool| {\n        let mut relevant_swaps: Vec<Transaction> = transactions_for_pool(&swap_reqs, pool);\n        process_swaps_for_single_pool(pool, &mut state, &mut relevant_swaps);\n    });",
         repl="    pools.iter().for_each(|pool| {\n        let mut relevant_swaps: Vec<Transaction> = transactions_for_pool(&swap_reqs, pool);\n        log::trace!(\"pool\");\n        process_swaps_for_single_pool(pool, &mut state, &mut relevant_swaps);\n    });", expect=None),
    # ---------------------------------------------------------------- C16
    dict(id="c16-builtins-zero", prop="C16", file=M, find="    let _ = def.deposit(MICRO_CONVERTER * 1000, MICRO_CONVERTER * 1000);", repl="    let _ = def.deposit(MICRO_CONVERTER * 0, MICRO_CONVERTER * 1000);", expect="R2/insert/"),
    dict(id="c16-builtins-no-deposit", prop="C16", file=M, find="    let mut def = PoolState::new_empty();\n    let _ = def.deposit(MICRO_CONVERTER * 1000, MICRO_CONVERTER * 1000);", repl="    let def = PoolState::new_empty();", expect="R2/insert/"),
    dict(id="c16-overwrite-existing", prop="C16", file=M, find="    if state\n        .pools\n        .get(&PoolKey::new(Denom::Mel, Denom::Erg))\n        .is_none()\n    {", repl="    {", expect="R2/insert/Mel/Erg/"),
    dict(id="c16-ergsym-ungated", prop="C16", file=M, find="    if state.tip_902()\n        && state", repl="    if state", expect="R2/insert/Erg/Sym/"),
    dict(id="c16-delete-empty-pool", prop="C16", file=M, find="    let (total_left, total_write) = pool_state.withdraw(total_liqs);\n    state.pools.insert(*pool, pool_state);", repl="    let (total_left, total_write) = pool_state.withdraw(total_liqs);\n    if pool_state.liqs == 0 { state.pools.delete(pool); } else { state.pools.insert(*pool, pool_state); }", expect="R3/delete@"),
    dict(id="c16-reset-pool", prop="C16", file=M, find="    state.pools.insert(*pool, pool_state);\n    // divvy up the lefts and rights", repl="    state.pools.insert(*pool, if pool_state.liqs == 0 { PoolState::new_empty() } else { pool_state });\n    // divvy up the lefts and rights", expect="R3/value@"),
    dict(id="c16-seal-tip909-first", prop="C16", file=S, find="        // first apply melmint\n        self = crate::melmint::preseal_melmint(self);\n        assert!(self.pools.val_iter().count() >= 2);\n\n        // then apply tip 909\n        if self.tip_909() {\n            self.apply_tip_909();\n        }\n",
         repl="        if self.tip_909() {\n            self.apply_tip_909();\n        }\n        self = crate::melmint::preseal_melmint(self);\n        assert!(self.pools.val_iter().count() >= 2);\n", expect="R1/seal/first"),
    dict(id="c16-mint-liq-from-lefts", prop="C16", file=M, find="        let liq = pool_state.deposit(total_lefts, total_rights);\n        state.pools.insert(*pool, pool_state);\n        liq\n    } else {", repl="        let _liq = pool_state.deposit(total_lefts, total_rights);\n        state.pools.insert(*pool, pool_state);\n        total_lefts\n    } else {", expect="R3d/rewrite/total_liqs"),
    # ---------------------------------------------------------------- C02
    dict(id="c02-mutate-before-check", prop="C02", file=S, find="        let new_state = apply_tx_batch_impl(self, txx)?;", repl="        self.tips = CoinValue(self.tips.0);\n        let new_state = apply_tx_batch_impl(self, txx)?;", expect="R1/batch/write-after-call"),
    dict(id="c02-commit-on-error", prop="C02", file=S, find="        let new_state = apply_tx_batch_impl(self, txx)?;", repl="        let new_state = match apply_tx_batch_impl(self, txx) { Ok(s) => s, Err(e) => { self.fee_pool = CoinValue(0); return Err(e); } };", expect="R1/batch/no-write-on-error"),
    dict(id="c02-seen-deleted", prop="C02", file=A, find="            if !seen.insert(input) {\n                return Err(StateError::NonexistentCoin(*input));\n            }", repl="            let _ = seen.insert(input);", expect="R3/repeat=>err"),
    dict(id="c02-seen-per-tx", prop="C02", file=A, find="    let mut seen = FxHashSet::default();\n    for tx in txx {\n        for input in tx.inputs.iter() {", repl="    for tx in txx {\n        let mut seen = FxHashSet::default();\n        for input in tx.inputs.iter() {", expect="R3/one-set"),
    dict(id="c02-height-zero", prop="C02", file=A, find="                    CoinDataHeight { coin_data, height },", repl="                    CoinDataHeight { coin_data, height: 0.into() },", expect="R4/height"),
    dict(id="c02-newcustom-kept", prop="C02", file=A, find="            if coin_data.denom == Denom::NewCustom {\n                coin_data.denom = Denom::Custom(tx.hash_nosigs());\n            }", repl="", expect="R4/newcustom"),
    dict(id="c02-destroy-filter-dropped", prop="C02", file=A, find="            if coin_data.covhash != Address::coin_destroy() {", repl="            if true || coin_data.covhash != Address::coin_destroy() {", expect="R4/destroy"),
    dict(id="c02-index-plus-one", prop="C02", file=A, find="                    CoinID::new(tx.hash_nosigs(), i as u8),\n                    CoinDataHeight { coin_data, height },", repl="                    CoinID::new(tx.hash_nosigs(), (i as u8).wrapping_add(1)),\n                    CoinDataHeight { coin_data, height },", expect="R4/id"),
    dict(id="c02-skip-first-tx", prop="C02", file=A, find="    for tx in transactions {\n        let txhash = tx.hash_nosigs();", repl="    for tx in transactions.iter().skip(1) {\n        let txhash = tx.hash_nosigs();", expect="R5/loop/partial"),
    dict(id="c02-inputs-not-removed", prop="C02", file=A, find="        for coinid in tx.inputs.iter() {\n            next_state.coins.remove_coin(*coinid, is_tip_906);\n        }", repl="        for coinid in tx.inputs.iter().take(255) {\n            next_state.coins.remove_coin(*coinid, is_tip_906);\n        }", expect="R5/inputs/"),
    dict(id="c02-break-after-first-output", prop="C02", file=A, find="                    .insert_coin(coinid, coin_data.clone(), is_tip_906);\n            }", repl="                    .insert_coin(coinid, coin_data.clone(), is_tip_906);\n                break;\n            }", expect="R5/"),
    dict(id="c02-malformed-skipped", prop="C02", file=A, find="        if !tx.is_well_formed() {\n            return Err(StateError::MalformedTx);\n        }", repl="        if !tx.is_well_formed() {\n            continue;\n        }", expect="R6/malformed=>err"),
    dict(id="c02-unknown-input-default", prop="C02", file=A, find="                    .ok_or(StateError::NonexistentCoin(*input))?;\n                accum.insert(*input, from_disk);", repl="                    ;\n                if let Some(from_disk) = from_disk { accum.insert(*input, from_disk); }", expect="R2/"),
    dict(id="c02-remove-key-differs", prop="C02", file=CO, find="    pub fn remove_coin(&mut self, id: CoinID, tip_906: bool) {\n        let id = id.stdcode();", repl="    pub fn remove_coin(&mut self, id: CoinID, tip_906: bool) {\n        let id = id.txhash.stdcode();", expect="R7/remove_coin/key"),
    dict(id="c02-q-seq-outputs", prop="C02", file=A, find="    tx.outputs\n        .par_iter()\n        .enumerate()\n        .filter_map(|(i, coin_data)| {", repl="    tx.outputs\n        .iter()\n        .enumerate()\n        .filter_map(|(i, coin_data)| {", expect=None),
    # ---------------------------------------------------------------- C04
    dict(id="c04-skip-nonfirst", prop="C04", file=A, find="                if !good_scripts.contains(&coin_data.coin_data.covhash) {\n                    validate_tx_scripts(", repl="                if spend_idx == 0 && !good_scripts.contains(&coin_data.coin_data.covhash) {\n                    validate_tx_scripts(", expect="R1/bypass/other"),
    dict(id="c04-unwrap-or-true", prop="C04", file=A, find="            .map(|v| v.into_bool())\n            .unwrap_or(false)", repl="            .map(|v| v.into_bool())\n            .unwrap_or(true)", expect="R2/verdict/default-false"),
    dict(id="c04-decode-fail-ok", prop="C04", file=A, find="        .map_err(|_| StateError::MalformedTx)?;\n        if !script", repl="        ;\n        let script = match script { Ok(s) => s, Err(_) => return Ok(()) };\n        if !script", expect="R2/decode/fail=>err"),
    dict(id="c04-script-by-other-hash", prop="C04", file=A, find="            &scripts\n                .get(&coin_data.coin_data.covhash)\n                .ok_or(", repl="            &scripts\n                .values().next()\n                .ok_or(", expect="R2/script/lookup"),
    dict(id="c04-spender-index-zero", prop="C04", file=A, find="                    spender_index: spend_idx as u8,", repl="                    spender_index: 0,", expect="R3/env/spender_index"),
    dict(id="c04-parent-cdh-other", prop="C04", file=A, find="                        coin_data,\n                        last_header,\n                        scripts.clone(),", repl="                        relevant_coins.values().next().unwrap_or(coin_data),\n                        last_header,\n                        scripts.clone(),", expect="R3/env/parent_cdh"),
    dict(id="c04-last-header-current", prop="C04", file=A, find="        .get(&(this.height.0.saturating_sub(1).into()))", repl="        .get(&(this.height.0.saturating_sub(2).into()))", expect="R3/env/last_header"),
    dict(id="c04-swap-haddr", prop="C04", file=EX, find="            hm.insert(HADDR_PARENT_VALUE, (value.0).into());\n            hm.insert(HADDR_PARENT_DENOM, (*denom).into());", repl="            hm.insert(HADDR_PARENT_DENOM, (value.0).into());\n            hm.insert(HADDR_PARENT_VALUE, (*denom).into());", expect="R4/slot/HADDR_PARENT_"),
    dict(id="c04-violation-ignored", prop="C04", file=A, find="            return Err(StateError::ViolatesScript(coin_data.coin_data.covhash));\n", repl="            log::warn!(\"script violated\");\n", expect="R2/verdict/false=>err"),
    dict(id="c04-validity-error-ignored", prop="C04", file=A, find="        .try_for_each(|tx| check_tx_validity(this, tx, &relevant_coins, &new_stakes))?;", repl="        .try_for_each(|tx| check_tx_validity(this, tx, &relevant_coins, &new_stakes)).ok();", expect="R1/batch/propagates"),
    dict(id="c04-q-hoist-map", prop="C04", file=A, find="                        scripts.clone(),\n                        &good_scripts,", repl="                        tx.covenants_as_map(),\n                        &good_scripts,", expect=None),
    # ---------------------------------------------------------------- C01
    dict(id="c01-drop-balance-check", prop="C01", file=A, find="    check_tx_coins_balanced(tx.kind, in_coins, out_coins)?;\n", repl="    let _ = check_tx_coins_balanced(tx.kind, in_coins, out_coins);\n", expect="R1/error-propagates"),
    dict(id="c01-ne-to-lt", prop="C01", file=A, find="            if *value != CoinValue(in_value) {", repl="            if *value > CoinValue(in_value) {", expect="R3/equality"),
    dict(id="c01-missing-denom-ok", prop="C01", file=A, find="            } else {\n                return Err(StateError::UnbalancedInOut);\n            };", repl="            } else {\n                continue;\n            };", expect="R3/missing=>err"),
    dict(id="c01-erg-exempt-for-all", prop="C01", file=A, find="                || (tx_kind == TxKind::DoscMint && *currency == Denom::Erg)", repl="                || (*currency == Denom::Erg)", expect="R2/cell/Normal/Erg"),
    dict(id="c01-swap-exempt", prop="C01", file=A, find="    if tx_kind != TxKind::Faucet {\n        for (currency, value) in out_coins.iter() {", repl="    if tx_kind != TxKind::Faucet && tx_kind != TxKind::Swap {\n        for (currency, value) in out_coins.iter() {", expect="R2/cell/Swap/"),
    dict(id="c01-faucet-test-dropped", prop="C01", file=A, find="    if tx_kind != TxKind::Faucet {\n        for (currency, value) in out_coins.iter() {", repl="    if tx_kind != TxKind::Faucet || true {\n        for (currency, value) in out_coins.iter() {", expect="R2/cell/Faucet/"),
    dict(id="c01-sum-other-coin", prop="C01", file=A, find="                    + coin_data.coin_data.value.0;\n                in_coins.insert(coin_data.coin_data.denom, amount);", repl="                    + coin_data.coin_data.value.0.saturating_mul(2);\n                in_coins.insert(coin_data.coin_data.denom, amount);", expect="R4/sum"),
    dict(id="c01-next-unsealed-mints", prop="C01", file=S, find="        new.transactions = Default::default();\n", repl="        new.transactions = Default::default();\n        if new.height.0 == 123_456_789 { new.fee_pool += CoinValue(1); }\n", expect="R5/fee_pool/"),
    dict(id="c01-tip909-inserts-coin", prop="C01", file=S, find="        self.fee_pool = CoinValue(self.fee_pool.0.saturating_add(mel));\n", repl="        self.fee_pool = CoinValue(self.fee_pool.0.saturating_add(mel));\n        if mel == u128::MAX { self.coins.insert_coin(CoinID::zero_zero(), CoinDataHeight { coin_data: CoinData { covhash: Address::coin_destroy(), value: CoinValue(mel), denom: Denom::Mel, additional_data: Default::default() }, height: self.height }, self.tip_906()); }\n", expect="R5/insert_coin@apply_tip_909"),
    dict(id="c01-ceil", prop="C01", file=M, find="    result.floor().numer().try_into().unwrap_or(u128::MAX)\n}", repl="    result.ceil().numer().try_into().unwrap_or(u128::MAX)\n}", expect="R6/floor"),
    dict(id="c01-subsidy-doubled", prop="C01", file=S, find="            reward - tip909a_erg_subsidy\n        } else {", repl="            reward\n        } else {", expect="R8/subsidy/total/tip909a=1"),
    dict(id="c01-subsidy-no-halving", prop="C01", file=S, find="let reward = (1u128 << 20) >> divider;", repl="let reward = (1u128 << 20) >> divider.min(3);", expect="R8/subsidy/schedule"),
    dict(id="c01-new-caller-of-create", prop="C01", file=S, find="        new.transactions = Default::default();\n", repl="        new.transactions = Default::default();\n        if new.height.0 == 987_654_321 { new = crate::melmint::preseal_melmint(new); }\n", expect="R5/callers/preseal_melmint"),
    dict(id="c01-peg-touches-feepool", prop="C01", file=M, find="        let _ = sm_pool.swap_many(delta, 0);\n", repl="        let (_, s) = sm_pool.swap_many(delta, 0);\n        state.fee_pool += CoinValue(s);\n", expect="R8/process_pegging/no-fee_pool"),
    dict(id="c01-q-helper-below-stage", prop="C01", file=A, find="            next_state.fee_pool.0 = next_state.fee_pool.0.saturating_add(min_fee.0);", repl="            { let fp = &mut next_state.fee_pool; fp.0 = fp.0.saturating_add(min_fee.0); }", expect=None),
    # ---------------------------------------------------------------- C03 (against the repaired tree)
    dict(id="c03-revert-two-phase", prop="C03", file=A, find="        next_state.transactions.insert(tx.clone());\n    }", repl="        next_state.transactions.insert(tx.clone());\n        for coinid in tx.inputs.iter() {\n            next_state.coins.remove_coin(*coinid, is_tip_906);\n        }\n    }", expect="R2/insert-after-remove"),
    dict(id="c03-speed-last-wins", prop="C03", file=A, find="                Ok(a.max(new_speed))", repl="                Ok(if new_speed > 0 { new_speed } else { a })", expect="R1/"),
    dict(id="c03-first-tx-special", prop="C03", file=S, find="        let transactions = block.transactions.iter().cloned().collect::<Vec<_>>();\n        basis.apply_tx_batch(&transactions)?;", repl="        let transactions = block.transactions.iter().cloned().collect::<Vec<_>>();\n        if let Some(first) = block.transactions.iter().next() { log::info!(\"{:?}\", first.kind); basis.tips = first.fee; }\n        basis.apply_tx_batch(&transactions)?;", expect="R1/"),
    dict(id="c03-vec-of-stakes", prop="C03", file=SS, find="        stakes.sort_unstable_by_key(|s| s.0);\n", repl="", expect=None),
    dict(id="c03-vec-of-stakes-unsorted", prop="C03", file=SS, find="        // sort by txhash\n        stakes.sort_unstable_by_key(|s| s.0);\n        // then, sort *stably* by stake size.\n        stakes.sort_by_key(|s| s.1.syms_staked);\n", repl="", expect="R1/StakeSet::post_tip911"),
    dict(id="c03-fee-noncommutative", prop="C03", file=A, find="next_state.fee_pool.0 = next_state.fee_pool.0.saturating_add(min_fee.0);", repl="next_state.fee_pool.0 = (next_state.fee_pool.0 / 2).saturating_add(min_fee.0);", expect="R2/accumulator/fee_pool"),
    dict(id="c03-random-tiebreak", prop="C03", file=M, find="            v.sort();\n            v.dedup();", repl="            v.sort();\n            v.dedup();\n            if fastrand::bool() { v.reverse(); }", expect="R3/ambient"),
    dict(id="c03-clock-decides", prop="C03", file=A, find="    log::trace!(\"{}: processed all inputs {:?}\", txhash, start.elapsed());", repl="    if start.elapsed().as_secs() > 3600 { return Err(StateError::MalformedTx); }", expect="R3/clock@check_tx_validity"),
    dict(id="c03-txset-hashmap", prop="C03", file="src/state/txset.rs", find="    inner: imbl::OrdMap<TxHash, Transaction>,", repl="    inner: imbl::HashMap<TxHash, Transaction>,", expect="R4/ordered-map"),
    dict(id="c03-new-static", prop="C03", file=A, find="const INFLATION_BUG_TX_HASH: &str =", repl="static LAST_BATCH_LEN: std::sync::atomic::AtomicUsize = std::sync::atomic::AtomicUsize::new(0);\nconst INFLATION_BUG_TX_HASH: &str =", expect="R5/static:LAST_BATCH_LEN"),
    dict(id="c03-q-seq-iter", prop="C03", file=A, find="    txx.par_iter()\n        .try_for_each(|tx| check_tx_validity(this, tx, &relevant_coins, &new_stakes))?;", repl="    txx.iter()\n        .try_for_each(|tx| check_tx_validity(this, tx, &relevant_coins, &new_stakes))?;", expect=None),
    # ---------------------------------------------------------------- C12
    dict(id="c12-const-collision", prop="C12", file="lib/melvm/src/consts.rs", find="pub(crate) const OPCODE_SHR: u8 = 0x28;", repl="pub(crate) const OPCODE_SHR: u8 = 0x27;", expect="T1/distinct"),
    dict(id="c12-le-on-encode", prop="C12", file=OP, find="            OpCode::Hash(i) => {\n                output.write_all(&[OPCODE_HASH]).unwrap();\n                output.write_all(&i.to_be_bytes()).unwrap()", repl="            OpCode::Hash(i) => {\n                output.write_all(&[OPCODE_HASH]).unwrap();\n                output.write_all(&i.to_le_bytes()).unwrap()", expect="T3/Hash/layout"),
    dict(id="c12-loop-swapped-encode", prop="C12", file=OP, find="                output.write_all(&iter.to_be_bytes()).unwrap();\n                output.write_all(&count.to_be_bytes()).unwrap()", repl="                output.write_all(&count.to_be_bytes()).unwrap();\n                output.write_all(&iter.to_be_bytes()).unwrap()", expect="T3/Loop/"),
    dict(id="c12-loop-swapped-decode", prop="C12", file=OP, find="                let iterations = u16arg(input)?;\n                let count = u16arg(input)?;", repl="                let count = u16arg(input)?;\n                let iterations = u16arg(input)?;", expect="T3/Loop/read-order"),
    dict(id="c12-drop-long-reject", prop="C12", file=OP, find="                if nonzero_len > 32 {\n                    return Err(DecodeError::InvalidVarint);\n                }\n                let blit = &mut buf[..nonzero_len as usize];", repl="                let blit = &mut buf[..(nonzero_len as usize).min(32)];", expect="T4/PushIC/reject-long"),
    dict(id="c12-drop-canonical-reject", prop="C12", file=OP, find="                if 32 - (integ.leading_zeros() / 8) != nonzero_len as u32 {\n                    return Err(DecodeError::InvalidVarint);\n                }\n", repl="", expect="T4/PushIC/reject-noncanonical"),
    dict(id="c12-wildcard-noop", prop="C12", file=OP, find="            b => Err(DecodeError::InvalidOpcode(b)),", repl="            0x00 => Ok(OpCode::Noop),\n            b => Err(DecodeError::InvalidOpcode(b)),", expect="T2/Noop/byte"),
    dict(id="c12-unknown-to-noop", prop="C12", file=OP, find="            b => Err(DecodeError::InvalidOpcode(b)),", repl="            b => if b == 0 { Ok(OpCode::Noop) } else { Err(DecodeError::InvalidOpcode(b)) },", expect="T5/wildcard"),
    dict(id="c12-exp-u16", prop="C12", file=OP, find="            OPCODE_EXP => Ok(OpCode::Exp(u8arg(input)?)),", repl="            OPCODE_EXP => Ok(OpCode::Exp(u16arg(input)? as u8)),", expect="T3/Exp/"),
    dict(id="c12-pushb-no-guard", prop="C12", file=OP, find="                if bts.len() > 255 {\n                    return Err(EncodeError::TooManyBytes);\n                }\n", repl="", expect="T4/PushB/guard"),
    dict(id="c12-trailing-garbage-ok", prop="C12", file=LV, find="        while !b.is_empty() {\n            opcodes.push(OpCode::decode(&mut b)?);\n        }", repl="        while !b.is_empty() {\n            match OpCode::decode(&mut b) { Ok(o) => opcodes.push(o), Err(_) => break }\n        }", expect="T6/"),
    dict(id="c12-swap-bytes-lt-gt", prop="C12", file=OP, find="            OPCODE_LT => Ok(OpCode::Lt),\n            OPCODE_GT => Ok(OpCode::Gt),", repl="            OPCODE_LT => Ok(OpCode::Gt),\n            OPCODE_GT => Ok(OpCode::Lt),", expect="T2/Lt/byte"),
    dict(id="c12-hash-of-ops-debug", prop="C12", file=LV, find="        tmelcrypt::hash_single(&self.to_bytes()).into()", repl="        tmelcrypt::hash_single(format!(\"{:?}\", self.0).as_bytes()).into()", expect="T6/hash"),
    dict(id="c12-q-reorder-arms", prop="C12", file=OP, find="            OPCODE_LT => Ok(OpCode::Lt),\n            OPCODE_GT => Ok(OpCode::Gt),", repl="            OPCODE_GT => Ok(OpCode::Gt),\n            OPCODE_LT => Ok(OpCode::Lt),", expect=None),
    dict(id="c12-q-u16-fn", prop="C12", file=OP, find="            OPCODE_JMP => Ok(OpCode::Jmp(u16arg(input)?)),", repl="            OPCODE_JMP => { let g = u16arg(input)?; Ok(OpCode::Jmp(g)) }", expect=None),
    # ---------------------------------------------------------------- C11 (against the repaired tree)
    dict(id="c11-zero-weight", prop="C11", file=OP, find="        OpCode::Dup => (4, rest),", repl="        OpCode::Dup => (0, rest),", expect="R1/arm/Dup"),
    dict(id="c11-loop-no-iters", prop="C11", file=OP, find="            (sum.saturating_mul(*iters as u128).saturating_add(1), rest)", repl="            (sum.saturating_add(*iters as u128).saturating_add(1), rest)", expect="R2/shape"),
    dict(id="c11-loop-weight-plus-zero", prop="C11", file=OP, find="            (sum.saturating_mul(*iters as u128).saturating_add(1), rest)", repl="            (sum.saturating_mul(*iters as u128), rest)", expect="R1/arm/Loop"),
    dict(id="c11-pc-backward", prop="C11", file=EX, find="                    self.pc += jgap as usize;\n                    return Some(());\n                }\n                OpCode::Loop", repl="                    self.pc = self.pc.wrapping_sub(jgap as usize);\n                    return Some(());\n                }\n                OpCode::Loop", expect="R3/write@"),
    dict(id="c11-loopback-unguarded", prop="C11", file=EX, find="                if state.iterations_left > 0 && self.pc.saturating_sub(state.end) == 1 {", repl="                if self.pc.saturating_sub(state.end) == 1 {", expect="R3/loopback/"),
    dict(id="c11-loopback-no-decrement", prop="C11", file=EX, find="                    state.iterations_left -= 1;\n", repl="", expect="R3/loopback/decrement"),
    dict(id="c11-nesting-check-removed", prop="C11", file=EX, find="                            if this_end > previous_loop_end {", repl="                            if this_end > previous_loop_end && false {", expect="R4/exceeds=>fail"),
    dict(id="c11-hash-guard-removed", prop="C11", file=EX, find="                    if bytes.len() > n as usize {\n                        return None;\n                    }\n\n                    let byte_vector: Vec<u8> = bytes.into();", repl="                    let byte_vector: Vec<u8> = bytes.into();\n                    if byte_vector.len() > n as usize {\n                        return None;\n                    }", expect="R5/"),
    dict(id="c11-btoi-guard-reverted", prop="C11", file=EX, find="                    if bytes.len() != 32 {\n                        return None;\n                    }\n", repl="", expect="R5/unguarded/c31"),
    dict(id="c11-signed-jump", prop="C11", file=EX, find="                OpCode::Jmp(jgap) => {\n                    log::trace!(\"Jumping ahead to instruction number {}\", &jgap);\n\n                    self.pc += jgap as usize;", repl="                OpCode::Jmp(jgap) => {\n                    log::trace!(\"Jumping ahead to instruction number {}\", &jgap);\n\n                    self.pc = (self.pc as i64 + (jgap as i16) as i64) as usize;", expect="R3/write@"),
    dict(id="c11-q-const-bumped", prop="C11", file=OP, find="        OpCode::Dup => (4, rest),", repl="        OpCode::Dup => (5, rest),", expect=None),
    # ---------------------------------------------------------------- C10
    dict(id="c10-lt-gt-swapped", prop="C10", file=EX, find="                OpCode::Lt => self.do_binop(|x, y| {\n                    let x = x.into_int()?;\n                    let y = y.into_int()?;\n                    if x < y {", repl="                OpCode::Lt => self.do_binop(|x, y| {\n                    let x = x.into_int()?;\n                    let y = y.into_int()?;\n                    if x > y {", expect="R2/Lt/atom"),
    dict(id="c10-sub-operands-swapped", prop="C10", file=EX, find="Some(Value::Int(x.into_int()?.overflowing_sub(y.into_int()?).0))", repl="Some(Value::Int(y.into_int()?.overflowing_sub(x.into_int()?).0))", expect="R2/Sub/op"),
    dict(id="c10-add-saturating", prop="C10", file=EX, find="Some(Value::Int(x.into_int()?.overflowing_add(y.into_int()?).0))", repl="Some(Value::Int(x.into_int()?.saturating_add(y.into_int()?)))", expect="R2/Add/op"),
    dict(id="c10-div-plain", prop="C10", file=EX, find="Some(Value::Int(x.into_int()?.checked_div(y.into_int()?)?))", repl="Some(Value::Int(x.into_int()? / y.into_int()?))", expect="R2/Div/op"),
    dict(id="c10-binop-pop-order", prop="C10", file=EX, find="        let x = stack.pop()?;\n        let y = stack.pop()?;\n        stack.push(op(x, y)?);", repl="        let y = stack.pop()?;\n        let x = stack.pop()?;\n        stack.push(op(x, y)?);", expect="R2/do_binop/pop-order"),
    dict(id="c10-binop-args-swapped", prop="C10", file=EX, find="        stack.push(op(x, y)?);\n        // eprintln!", repl="        stack.push(op(y, x)?);\n        // eprintln!", expect="R2/do_binop/arg-order"),
    dict(id="c10-eql-any-type", prop="C10", file=EX, find="                    _ => None,\n                })?,\n                OpCode::Lt", repl="                    _ => Some(Value::Int(0u32.into())),\n                })?,\n                OpCode::Lt", expect="R2/Eql/ints-only"),
    dict(id="c10-exp-unbounded", prop="C10", file=EX, find="                            k = k.checked_sub(1)?;\n", repl="                            k = k.saturating_sub(1);\n", expect="R7/budget"),
    dict(id="c10-run-ignores-failure", prop="C10", file=EX, find="            self.step()?;\n", repl="            let _ = self.step();\n", expect="R5/failure-propagates"),
    dict(id="c10-tx-layout-swapped", prop="C10", file=VA, find="                tx.inputs.into(),\n                tx.outputs.into(),", repl="                tx.outputs.into(),\n                tx.inputs.into(),", expect="R6/Transaction/pos"),
    dict(id="c10-header-layout-swapped", prop="C10", file=VA, find="                cd.coins_hash.into(),\n                cd.transactions_hash.into(),", repl="                cd.transactions_hash.into(),\n                cd.coins_hash.into(),", expect="R6/Header/pos"),
    dict(id="c10-vref-unwrap", prop="C10", file=EX, find="                    Some(vec.into_vector()?.get(idx)?.clone())", repl="                    Some(vec.into_vector()?.get(idx).unwrap().clone())", expect="R3/site/"),
    dict(id="c10-slice-guard-dropped", prop="C10", file=EX, find="                            if end > vec.len() || end < beginning {\n                                log::trace!", repl="                            if end < beginning {\n                                log::trace!", expect="R3/site/"),
    dict(id="c10-heap-iterated", prop="C10", file=EX, find="                OpCode::Noop => {\n                    log::trace!(\"NoOp\");\n                }", repl="                OpCode::Noop => {\n                    if let Some((_, v)) = self.heap.iter().next() { self.stack.push(v.clone()); }\n                }", expect="R4/"),
    dict(id="c10-shl-by-first", prop="C10", file=EX, find="                    Some(Value::Int(x.wrapping_shl(offset.as_u32())))", repl="                    Some(Value::Int(offset.wrapping_shl(x.as_u32())))", expect="R2/Shl/op"),
    dict(id="c10-q-let-bind", prop="C10", file=EX, find="                OpCode::And => {\n                    self.do_binop(|x, y| {\n                        Some(Value::Int(x.into_int()? & y.into_int()?))", repl="                OpCode::And => {\n                    self.do_binop(|x, y| {\n                        let a = x.into_int()?;\n                        let b = y.into_int()?;\n                        Some(Value::Int(a & b))", expect=None),
    dict(id="c09-pushic-guard-removed", prop="C09", file=OP, find="                if nonzero_len > 32 {\n                    return Err(DecodeError::InvalidVarint);\n                }\n", repl="", expect="R1/site/opcode::OpCode::decode|index|index_mut"),
    dict(id="c09-pushic-guard-33", prop="C09", file=OP, find="                if nonzero_len > 32 {", repl="                if nonzero_len > 33 {", expect="R1/site/opcode::OpCode::decode|index|index_mut"),
    dict(id="c09-q-pushic-guard-ge33", prop="C09", file=OP, find="                if nonzero_len > 32 {", repl="                if nonzero_len >= 33 {", expect=None),
    dict(id="c17-i8-abs", prop="C17", file=S, find="        let delta = action.fee_multiplier_delta as i64;\n        let scaled_movement = max_movement.saturating_mul(delta.unsigned_abs() as u128) / 128;", repl="        let delta = action.fee_multiplier_delta;\n        let scaled_movement = max_movement.saturating_mul(delta.abs() as u128) / 128;", expect="R3/std-overflow/abs"),
    dict(id="c17-q-i64-abs", prop="C17", file=S, find="delta.unsigned_abs() as u128", repl="delta.abs() as u128", expect=None),
    dict(id="c09-i8-abs", prop="C09", file=S, find="        let delta = action.fee_multiplier_delta as i64;\n        let scaled_movement = max_movement.saturating_mul(delta.unsigned_abs() as u128) / 128;", repl="        let delta = action.fee_multiplier_delta;\n        let scaled_movement = max_movement.saturating_mul(delta.abs() as u128) / 128;", expect="R1/site/UnsealedState::move_action_fee_multiplier|extern|abs"),
    dict(id="c20-remove-direct-count", prop="C20", file=CO, find="                self.insert_coin_count(data.coin_data.covhash, count - 1);", repl="                let ck = tmelcrypt::hash_keyed(COIN_COUNT_STR_AS_BYTES, data.coin_data.covhash.0);\n                self.inner.insert(ck.0, &(count - 1).stdcode());", expect="R1/remove/count-write"),
    dict(id="c07-remove-direct-count", prop="C07", file=CO, find="                self.insert_coin_count(data.coin_data.covhash, count - 1);", repl="                let ck = tmelcrypt::hash_keyed(COIN_COUNT_STR_AS_BYTES, data.coin_data.covhash.0);\n                self.inner.insert(ck.0, &(count - 1).stdcode());", expect="X20.R1/remove/count-write"),
    dict(id="c05-exact-fee-vanishes", prop="C05", file=A, find="        } else {\n            let tips = tx.fee - min_fee;", repl="        } else if tx.fee > min_fee {\n            let tips = tx.fee - min_fee;", expect="R2/split/fee_pool/every-kept-tx"),
    dict(id="c05-q-skip-zero-tips", prop="C05", file=A, find="            next_state.tips.0 = next_state.tips.0.saturating_add(tips.0);", repl="            if tips.0 > 0 {\n                next_state.tips.0 = next_state.tips.0.saturating_add(tips.0);\n            }", expect=None),
    dict(id="c06-zero-reward-skips-coin", prop="C06", file=S, find="        let pseudocoin_id = CoinID::proposer_reward(self.height);", repl="        if base_fees + tips == CoinValue(0) {\n            return;\n        }\n        let pseudocoin_id = CoinID::proposer_reward(self.height);", expect="R4/collect/every-path"),
    dict(id="c16-denominator-sqrt-of-sums", prop="C16", file=M, find="    let total_mtsqrt: u128 = deposits\n        .iter()\n        .map(|tx| {\n            tx.outputs[0]\n                .value\n                .0\n                .sqrt()\n                .saturating_mul(tx.outputs[1].value.0.sqrt())\n        })\n        .fold(0u128, |a, b| a.saturating_add(b));", repl="    let total_mtsqrt = total_lefts.sqrt().saturating_mul(total_rights.sqrt());", expect="R3d/rewrite/denominator"),
    dict(id="c15-denominator-sqrt-of-sums", prop="C15", file=M, find="    let total_mtsqrt: u128 = deposits\n        .iter()\n        .map(|tx| {\n            tx.outputs[0]\n                .value\n                .0\n                .sqrt()\n                .saturating_mul(tx.outputs[1].value.0.sqrt())\n        })\n        .fold(0u128, |a, b| a.saturating_add(b));", repl="    let total_mtsqrt = total_lefts.sqrt().saturating_mul(total_rights.sqrt());", expect="R3d/rewrite/denominator"),
    dict(id="c01-totals-gate-removed", prop="C01", file=A, find="        if !output_totals_fit(tx) {\n            return Err(StateError::MalformedTx);\n        }\n", repl="", expect="R9/totals/gate"),
    dict(id="c09-totals-gate-removed", prop="C09", file=A, find="        if !output_totals_fit(tx) {\n            return Err(StateError::MalformedTx);\n        }\n", repl="", expect="total_outputs"),
    dict(id="c01-totals-gate-wrapping", prop="C01", file=A, find="        match total.checked_add(output.value.0) {\n            Some(sum) => *total = sum,\n            None => return false,\n        }", repl="        *total = total.wrapping_add(output.value.0);", expect="R9/totals/gate/checked"),
    dict(id="c01-q-totals-gate-merged", prop="C01", file=A, find="        if !tx.is_well_formed() {\n            return Err(StateError::MalformedTx);\n        }\n        if !output_totals_fit(tx) {\n            return Err(StateError::MalformedTx);\n        }", repl="        if !tx.is_well_formed() || !output_totals_fit(tx) {\n            return Err(StateError::MalformedTx);\n        }", expect=None),
    dict(id="c05-weights-uncapped", prop="C05", file=A, find="        covenant_weight_from_bytes(c).min(weight_cap)", repl="        { let _ = weight_cap; covenant_weight_from_bytes(c) }", expect="R1/base_fee/weights-cannot-wrap"),
    dict(id="c05-weights-cap-too-big", prop="C05", file=A, find="    let weight_cap = u128::MAX / (tx.covenants.len() as u128 + 1);", repl="    let weight_cap = u128::MAX / 2;", expect="R1/base_fee/weights-cannot-wrap"),
    dict(id="c05-q-weights-cap-inline", prop="C05", file=A, find="        covenant_weight_from_bytes(c).min(weight_cap)", repl="        weight_cap.min(covenant_weight_from_bytes(c))", expect=None),
    dict(id="c09-weights-uncapped", prop="C09", file=A, find="        covenant_weight_from_bytes(c).min(weight_cap)", repl="        { let _ = weight_cap; covenant_weight_from_bytes(c) }", expect="base_fee"),
    dict(id="c10-u16-low-only", prop="C10", file=VA, find="        if num > U256::from(65535u32) {\n            None\n        } else {\n            Some(*num.low() as u16)\n        }", repl="        u16::try_from(*num.low()).ok()", expect="R8/narrow/value::Value::into_u16/low"),
    dict(id="c10-u16-bound-too-big", prop="C10", file=VA, find="if num > U256::from(65535u32) {", repl="if num > U256::from(65536u32) {", expect="R8/narrow/value::Value::into_u16/low"),
    dict(id="c10-q-u16-ge", prop="C10", file=VA, find="if num > U256::from(65535u32) {", repl="if num >= U256::from(65536u32) {", expect=None),
    dict(id="c10-q-u16-tryfrom-full", prop="C10", file=VA, find="        if num > U256::from(65535u32) {\n            None\n        } else {\n            Some(*num.low() as u16)\n        }", repl="        u16::try_from(num).ok()", expect=None),
    dict(id="c10-q-wrapping-add", prop="C10", file=EX, find="Some(Value::Int(x.into_int()?.overflowing_add(y.into_int()?).0))", repl="Some(Value::Int(x.into_int()?.wrapping_add(y.into_int()?)))", expect=None),
    # ---------------------------------------------------------------- C09
    dict(id="c09-saturating-to-plus", prop="C09", file=A, find="next_state.tips.0 = next_state.tips.0.saturating_add(tips.0);", repl="next_state.tips.0 = next_state.tips.0 + tips.0;", expect="R1/site/applytx::create_next_state|assert|Overflow(Add)"),
    dict(id="c09-okor-to-unwrap", prop="C09", file=A, find="        .get(&coin_id)\n        .ok_or(StateError::NonexistentCoin(coin_id))?;", repl="        .get(&coin_id)\n        .unwrap();", expect="R1/site/applytx::validate_and_get_doscmint_speed|unwrap|unwrap|HashMap::get"),
    dict(id="c09-get0-to-index", prop="C09", file=A, find="            let first_coin = tx.outputs.get(0).ok_or(StateError::MalformedTx)?;", repl="            let first_coin = &tx.outputs[0];", expect="R1/site/applytx::load_stake_info|index"),
    dict(id="c09-new-division", prop="C09", file=M, find="        .fold(0u128, |a, b| a.saturating_add(b));\n    // main logic here", repl="        .fold(0u128, |a, b| a.saturating_add(b)) / (deposits.len() as u128 - 1).max(0).min(1).max(deposits.len() as u128 - 1);\n    // main logic here", expect="R1/site/melmint::process_deposits_for_single_pool|assert"),
    dict(id="c09-swap-guard-removed", prop="C09", file=M, find="    if pool_state.lefts.saturating_add(total_lefts) == 0\n        || pool_state.rights.saturating_add(total_rights) == 0\n    {\n        return;\n    }\n", repl="", expect="R1/site/melmint::process_swaps_for_single_pool|extern|swap_many"),
    dict(id="c09-prorata-guard-removed", prop="C09", file=M, find="    if total == 0 {\n        0\n    } else {\n        multiply_frac(x, Ratio::new(mine, total))\n    }", repl="    multiply_frac(x, Ratio::new(mine, total))", expect="R1/site/melmint::pro_rata|extern|new"),
    dict(id="c09-selection-len-dropped", prop="C09", file=M, find="            (tx.kind == TxKind::LiqDeposit\n                && tx.outputs.len() >= 2", repl="            (tx.kind == TxKind::LiqDeposit\n                && tx.outputs.len() >= 1", expect="R1/site/melmint::"),
    dict(id="c09-fee-sub-unguarded", prop="C09", file=A, find="        if tx.fee < min_fee {\n            return Err(StateError::InsufficientFees(min_fee));\n        } else {\n            let tips = tx.fee - min_fee;", repl="        {\n            let tips = tx.fee - min_fee;", expect="R1/site/applytx::create_next_state|extern|<melstructs::CoinValue as std::ops::Sub>::sub"),
    dict(id="c09-new-recursion", prop="C09", file=A, find="fn coin_is_denom(coin_data: &CoinData, denom: Denom) -> bool {\n    coin_data.denom == denom\n}", repl="fn coin_is_denom(coin_data: &CoinData, denom: Denom) -> bool {\n    if coin_data.value.0 == u128::MAX { return coin_is_denom(coin_data, Denom::Mel); }\n    coin_data.denom == denom\n}", expect="R2/cycles"),
    dict(id="c09-q-const-arith", prop="C09", file=M, find="    let throttler = if state.tip_902() { 200 } else { 1000 };", repl="    let throttler = if state.tip_902() { 100 + 100 } else { 1000 };", expect=None),
    dict(id="c09-q-serialize-unwrap", prop="C09", file=A, find="    let txhash = tx.hash_nosigs();\n    let start = Instant::now();", repl="    let txhash = tx.hash_nosigs();\n    let _sz = stdcode::serialize(tx).unwrap().len();\n    let start = Instant::now();", expect=None),
    # quiet ones
    dict(id="c05-q-le", prop="C05", file=A, find="if tx.fee < min_fee {", repl="if !(tx.fee >= min_fee) {", count=2, expect=None),
    dict(id="c05-q-div65536", prop="C05", file=S, find="CoinValue(self.fee_pool.0 >> 16)", repl="CoinValue(self.fee_pool.0 / 65536)", expect=None),
    dict(id="c05-q-rename", prop="C05", file=A, find="let tips = tx.fee - min_fee;\n            next_state.tips.0 = next_state.tips.0.saturating_add(tips.0);",
         repl="let extra = tx.fee - min_fee;\n            next_state.tips.0 = next_state.tips.0.saturating_add(extra.0);", expect=None),
]


# ---------------------------------------------------------------- patch-based variants
# seeded/<name>/patch.diff : breaking changes written by independent sub-agents (must be reported by the check of their property)
# benign/<name>.diff       : behaviour-preserving refactorings written by independent sub-agents (every check must stay quiet)
# D19 (repair c8d5575): the ERG/SYM reserve tests in front of the pegging step and of the TIP-909 ERG subsidy
MUTANTS += [
    dict(id="c09-peg-guard-removed", prop="C09", file=M, find="        if es_pool.lefts == 0 || es_pool.rights == 0 {\n            return state;\n        }\n", repl="", expect="process_pegging|extern|implied_price"),
    dict(id="c09-peg-guard-and", prop="C09", file=M, find="        if es_pool.lefts == 0 || es_pool.rights == 0 {", repl="        if es_pool.lefts == 0 && es_pool.rights == 0 {", expect="process_pegging|extern|"),
    dict(id="c09-peg-guard-wrong-pool", prop="C09", file=M, find="            .get(&PoolKey::new(Denom::Sym, Denom::Erg))\n            .unwrap();\n        if es_pool.lefts == 0", repl="            .get(&PoolKey::new(Denom::Mel, Denom::Erg))\n            .unwrap();\n        if es_pool.lefts == 0", expect="process_pegging|extern|"),
    dict(id="c09-subsidy-guard-removed", prop="C09", file=S, find="        if espool.lefts > 0 && espool.rights > 0 {", repl="        if espool.lefts > 0 || true {", expect="apply_tip_909|extern|swap_many"),
    dict(id="c09-subsidy-guard-one-side", prop="C09", file=S, find="        if espool.lefts > 0 && espool.rights > 0 {", repl="        if espool.lefts > 0 {", expect="apply_tip_909|extern|swap_many"),
    dict(id="c09-peg-guard-benign-neq", prop="C09", file=M, find="        if es_pool.lefts == 0 || es_pool.rights == 0 {\n            return state;\n        }\n", repl="        if !(es_pool.lefts != 0 && es_pool.rights > 0) {\n            return state;\n        }\n", expect=None),
]


# rules added after the third round of independent changes
MUTANTS += [
    dict(id="c10-sigeok-length-u16", prop="C10", file="lib/melvm/src/executor.rs", find="                    if message_bytes.len() > n as usize {", repl="                    if message_bytes.len() as u16 > n {", expect="R9/narrowed-bound"),
    dict(id="c11-sigeok-length-u16", prop="C11", file="lib/melvm/src/executor.rs", find="                    if message_bytes.len() > n as usize {", repl="                    if message_bytes.len() as u16 > n {", expect="/reduced"),
    dict(id="c10-hash-length-widened-benign", prop="C10", file="lib/melvm/src/executor.rs", find="                    if bytes.len() > n as usize {", repl="                    if (bytes.len() as u64) > u64::from(n) {", expect=None),
    dict(id="c03-validity-reads-tips", prop="C03", file=A, find="    let mut good_scripts: FxHashSet<Address> = FxHashSet::default();\n", repl="    let mut good_scripts: FxHashSet<Address> = FxHashSet::default();\n    if this.tips.0 > (1u128 << 100) && tx.fee.0 == 0 {\n        return Err(StateError::InsufficientFees(CoinValue(1)));\n    }\n", expect="R7/reads/tips"),
    dict(id="c03-validity-reads-feemult-benign", prop="C03", file=A, find="    let mut good_scripts: FxHashSet<Address> = FxHashSet::default();\n", repl="    let mut good_scripts: FxHashSet<Address> = FxHashSet::default();\n    log::trace!(\"fee multiplier {}\", this.fee_multiplier);\n", expect=None),
    dict(id="c05-collect-skips-small-tips", prop="C05", file=S, find="        let base_fees = CoinValue(self.fee_pool.0 >> 16);\n", repl="        let base_fees = CoinValue(self.fee_pool.0 >> 16);\n        if self.tips.0 == 0 && base_fees.0 == 0 {\n            return;\n        }\n", expect="R3/every-path"),
]


# D20 (repair 43faab7): sums over faucet-inflatable amounts
T911 = "lib/tip911-stakeset/src/lib.rs"
MUTANTS += [
    dict(id="c09-reward-plain-add", prop="C09", file=S, find="                value: CoinValue(base_fees.0.saturating_add(tips.0)),", repl="                value: base_fees + tips,", expect="collect_proposer_action_fee|extern"),
    dict(id="c09-tip909-plain-addassign", prop="C09", file=S, find="        self.fee_pool = CoinValue(self.fee_pool.0.saturating_add(mel));", repl="        self.fee_pool += CoinValue(mel);", expect="apply_tip_909|extern|<melstructs::CoinValue as std::ops::AddAssign"),
    dict(id="c09-votes-plain-sum", prop="C09", file=T911, find="            .fold(0u128, |total, votes| total.saturating_add(votes))", repl="            .sum()", count=2, expect="StakeSet::"),
    dict(id="c09-confirm-plain-sum", prop="C09", file=S, find="            .fold(0u128, |present, votes| present.saturating_add(votes));", repl="            .sum();", expect="SealedState::confirm|extern|sum"),
    dict(id="c14-saturated-total-confirms", prop="C14", file=S, find="        if total_votes == u128::MAX {\n            return None;\n        }\n", repl="", expect="R2/threshold/saturated-guard"),
    dict(id="c14-saturated-guard-inverted", prop="C14", file=S, find="        if total_votes == u128::MAX {\n            return None;\n        }\n", repl="        if total_votes != u128::MAX {\n            return None;\n        }\n", expect="R2/threshold/saturated-total"),
]


# D21 (repair): forged liquidity tokens on faucet-enabled networks — over-withdrawal and emptied MEL pools
MUTANTS += [
    dict(id="c09-overwithdraw-guard-removed", prop="C09", file=M, find="    if total_liqs > pool_state.liqs {\n        return;\n    }\n", repl="", expect="process_withdrawals_for_single_pool|extern|withdraw"),
    dict(id="c09-overwithdraw-guard-wrong-field", prop="C09", file=M, find="    if total_liqs > pool_state.liqs {", repl="    if total_liqs > pool_state.lefts {", expect="process_withdrawals_for_single_pool|extern|withdraw"),
    dict(id="c09-peg-ms-guard-removed", prop="C09", file=M, find="    if ms_pool.lefts == 0 || ms_pool.rights == 0 {\n        return state;\n    }\n", repl="", expect="process_pegging|extern|"),
    dict(id="c09-peg-me-guard-removed", prop="C09", file=M, find="        if me_pool.lefts == 0 || me_pool.rights == 0 {\n            return state;\n        }\n", repl="", expect="process_pegging|extern|"),
    dict(id="c09-tip909-ms-guard-removed", prop="C09", file=S, find="        if smpool.lefts > 0 && smpool.rights > 0 {", repl="        if smpool.lefts > 0 || true {", expect="apply_tip_909|extern|swap_many|smpool"),
    dict(id="c09-overwithdraw-guard-benign-le", prop="C09", file=M, find="    if total_liqs > pool_state.liqs {\n        return;\n    }\n", repl="    if !(total_liqs <= pool_state.liqs) {\n        return;\n    }\n", expect=None),
]


# activation table (C06.R5) and the other rules added after round 4
MUTANTS += [
    dict(id="c06-tip906-tests-908-height", prop="C06", file=S, find="        self.tip_condition(TIP_906_HEIGHT)\n", repl="        self.tip_condition(TIP_908_HEIGHT)\n", expect="R5/const/tip_906"),
    dict(id="c20-tip906-tests-908-height", prop="C20", file=S, find="        self.tip_condition(TIP_906_HEIGHT)\n", repl="        self.tip_condition(TIP_908_HEIGHT)\n", expect="X06.R5/const/tip_906"),
    dict(id="c16-builtins-ask-tip901", prop="C16", file=M, find="    if state.tip_902()\n", repl="    if state.tip_901()\n", expect="X06.R5/uses/create_builtins"),
    dict(id="c07-root-asks-tip906", prop="C07", file=S, find="        if self.tip_908() {", repl="        if self.tip_906() {", expect="X06.R5/uses/transactions_root_hash"),
    dict(id="c06-hoisted-flag-benign", prop="C06", file=S, find="            self.apply_proposer_action(action, self.tip_901());", repl="            let after_901 = self.tip_901();\n            self.apply_proposer_action(action, after_901);", expect=None),
    dict(id="c03-inflator-returns-carried", prop="C03", file=M, find="        tab[height.0 as usize]\n", repl="        *tab.last().unwrap()\n", expect="R5/inflator/result"),
    dict(id="c14-skip-verify-empty-sig", prop="C14", file=S, find="        for (k, sig) in cproof.iter() {\n", repl="        for (k, sig) in cproof.iter() {\n            if sig.is_empty() {\n                continue;\n            }\n", expect="R1/verify/every-entry"),
    dict(id="c17-wrapping-add-up", prop="C17", file=S, find="            self.fee_multiplier = self.fee_multiplier.saturating_add(scaled_movement);", repl="            self.fee_multiplier = self.fee_multiplier.wrapping_add(scaled_movement);", expect="R3/wrapping/wrapping_add"),
]


# rules added after round 5
MUTANTS += [
    dict(id="c17-vote-skipped-for-small-pool", prop="C17", file=S, find="        // first let's move the fee multiplier\n", repl="        if self.fee_pool.0 < 65536 {\n            return;\n        }\n        // first let's move the fee multiplier\n", expect="R1/apply/every-path"),
    dict(id="c17-zero-vote-skips-move-benign", prop="C17", file=S, find="        self.move_action_fee_multiplier(after_tip_901, action);\n", repl="        if action.fee_multiplier_delta != 0 {\n            self.move_action_fee_multiplier(after_tip_901, action);\n        }\n", expect=None),
    dict(id="c12-pushic-count-saturating-sub", prop="C12", file="lib/melvm/src/opcode.rs", find="let leading_zeros = bytes_repr.iter().take_while(|i| **i == 0).count();", repl="let leading_zeros = bytes_repr.iter().take_while(|i| **i == 0).count().saturating_sub(1);", expect="T4/PushIC/encode"),
    dict(id="c11-unwind-stops-after-finished-loop", prop="C11", file="lib/melvm/src/executor.rs", find="                    self.loop_state.push(state);\n                    break;\n                }\n            } else {", repl="                    self.loop_state.push(state);\n                    break;\n                }\n                if state.iterations_left == 0 {\n                    break;\n                }\n            } else {", expect="R3/loopback/no-drop-exit"),
]


# rules added after round 6
MUTANTS += [
    dict(id="c10-sigeok-key-ge-32", prop="C10", file=EX, find="                    if public_key_bytes.len() > 32 {", repl="                    if public_key_bytes.len() >= 32 {", expect="R10/sigeok/key/bound"),
    dict(id="c10-sigeok-sig-bound-32", prop="C10", file=EX, find="                    if signature_bytes.len() > 64 {", repl="                    if signature_bytes.len() > 32 {", expect="R10/sigeok/signature/bound"),
    dict(id="c10-sigeok-long-message-is-false", prop="C10", file=EX, find="                    if message_bytes.len() > n as usize {\n                        return None;", repl="                    if message_bytes.len() > n as usize {\n                        return Some(Value::from_bool(false));", expect="R10/sigeok/message/outcome"),
    dict(id="c10-sigeok-bad-key-is-false", prop="C10", file=EX, find="let public_key: tmelcrypt::Ed25519PK = tmelcrypt::Ed25519PK::from_bytes(&public_key_byte_vector)?;", repl="let public_key: tmelcrypt::Ed25519PK = match tmelcrypt::Ed25519PK::from_bytes(&public_key_byte_vector) { Some(k) => k, None => return Some(Value::from_bool(false)) };", expect="R10/sigeok/within-bounds=>verify-or-fail"),
    dict(id="c10-sigeok-ge-33-benign", prop="C10", file=EX, find="                    if public_key_bytes.len() > 32 {", repl="                    if public_key_bytes.len() >= 33 {", expect=None),
    dict(id="c10-opcode-name-table-benign", prop="C10", file=OP, find="#[derive(Error, Debug, Clone)]\npub enum ParseOpCodeError {", repl="pub static FIRST_OPCODE_NAMES: [&str; 2] = [\"noop\", \"add\"];\n\n#[derive(Error, Debug, Clone)]\npub enum ParseOpCodeError {", expect=None),
    dict(id="c10-exec-counter-static", prop="C10", file=EX, find="impl Executor {", repl="static STEPS_RUN: std::sync::atomic::AtomicU64 = std::sync::atomic::AtomicU64::new(0);\n\nimpl Executor {", expect="R4/static:STEPS_RUN"),
    dict(id="c11-bez-skips-weighing", prop="C11", file=OP, find="        OpCode::Bez(_) => (1, rest),", repl="        OpCode::Bez(n) => (1, &rest[(*n as usize).min(rest.len())..]),", expect="R1/rest/Bez"),
    dict(id="c12-weight-of-prefix", prop="C12", file=LV, find="        opcodes_weight(&self.0)\n", repl="        opcodes_weight(&self.0[..self.0.len().min(65535)])\n", expect="T8/weight/whole"),
    dict(id="c14-threshold-plain-mul", prop="C14", file=S, find="num::BigInt::from(present_votes) * 3 > num::BigInt::from(total_votes) * 2", repl="present_votes * 3 > total_votes * 2", expect="R2/threshold/clipped"),
    dict(id="c18-reward-ceil", prop="C18", file=M, find="    result\n        .floor()\n", repl="    result\n        .ceil()\n", expect="R6/dosc_to_erg/rounding"),
    dict(id="c18-inflator-of-next-height", prop="C18", file=M, find="    let ratio = dosc_inflator(height);\n    let result = ratio * BigRational", repl="    let ratio = dosc_inflator(BlockHeight(height.0 + 1));\n    let result = ratio * BigRational", expect="R6/dosc_to_erg/inflator-height"),
]


# rules added after round 7 (and members of instance families that no independent change had hit)
MUTANTS += [
    dict(id="c11-validated-covenant-never-recorded", prop="C11", file=A, find="                    good_scripts.insert(coin_data.coin_data.covhash);\n", repl="", expect="R7/once/validated=>recorded"),
    dict(id="c07-stake-leaf-skipped-for-expired", prop="C07", file=SS, find="        for (k, v) in self.stakes.iter() {\n            tree.insert(k.stdcode().hash().0, &v.stdcode());", repl="        for (k, v) in self.stakes.iter() {\n            if v.e_post_end == 0 {\n                continue;\n            }\n            tree.insert(k.stdcode().hash().0, &v.stdcode());", expect="R6/every"),
    dict(id="c13-stake-leaf-skipped-for-expired", prop="C13", file=SS, find="        for (k, v) in self.stakes.iter() {\n            tree.insert(k.stdcode().hash().0, &v.stdcode());", repl="        for (k, v) in self.stakes.iter() {\n            if v.e_post_end == 0 {\n                continue;\n            }\n            tree.insert(k.stdcode().hash().0, &v.stdcode());", expect="X07.R6/every"),
    dict(id="c18-zero-difficulty-returns-early", prop="C18", file=A, find="    let my_speed = compute_doscmint_speed(is_tip910, difficulty, this.height, coin_data.height);\n", repl="    let my_speed = compute_doscmint_speed(is_tip910, difficulty, this.height, coin_data.height);\n    if difficulty == 0 {\n        return Ok(my_speed);\n    }\n", expect="R1/reward-bound/every-path"),
    dict(id="c20-remove-counted-only-for-index-0", prop="C20", file=A, find="            next_state.coins.remove_coin(*coinid, is_tip_906);", repl="            next_state.coins.remove_coin(*coinid, is_tip_906 && coinid.index == 0);", expect="R3/remove_coin/create_next_state@"),
    dict(id="c08-rebuilt-network-constant", prop="C08", file=S, find="            network: blk.header.network,", repl="            network: NetID::Mainnet,", expect="R2/network/not-invariant"),
    dict(id="c08-rebuilt-fee-pool-from-multiplier", prop="C08", file=S, find="            fee_pool: blk.header.fee_pool,", repl="            fee_pool: CoinValue(blk.header.fee_multiplier),", expect="R1/field/fee_pool"),
    dict(id="c04-self-hash-slot-gets-parent-txhash", prop="C04", file=EX, find="            hm.insert(HADDR_SELF_HASH, covhash.0.into());", repl="            hm.insert(HADDR_SELF_HASH, txhash.0.into());", expect="R4/slot/HADDR_SELF_HASH"),
    dict(id="c10-xor-computes-or", prop="C10", file=EX, find="                        Some(Value::Int(x.into_int()? ^ y.into_int()?))", repl="                        Some(Value::Int(x.into_int()? | y.into_int()?))", expect="R2/Xor/op"),
]


# rules added in round 8 (sub-agent changes, unchanged-tree findings D22–D29, and the mechanical mutation sweep bin/mutsweep)
MUTANTS += [
    dict(id="c06-tip-condition-strict", prop="C06", file=S, find="            self.height >= activation\n", repl="            self.height > activation\n", expect="R5/condition/at-activation"),
    dict(id="c17-tip-condition-inverted", prop="C17", file=S, find="            self.height >= activation\n", repl="            self.height <= activation\n", expect="X06.R5/condition/at-activation"),
    dict(id="c06-tip-condition-flipped-benign", prop="C06", file=S, find="            self.height >= activation\n", repl="            activation <= self.height\n", expect=None),
    dict(id="c09-new-assert-in-seal", prop="C09", file=S, find="        // create the finalized state\n        SealedState(self, action)", repl="        assert!(self.fee_pool.0 >= self.tips.0);\n        // create the finalized state\n        SealedState(self, action)", expect="R1/site/UnsealedState::seal|panic|"),
    dict(id="c06-batch-never-applied", prop="C06", file=S, find="        basis.apply_tx_batch(&transactions)?;\n", repl="", expect="R2/batch-call"),
    dict(id="c07-next-block-keeps-transactions", prop="C07", file=S, find="        new.transactions = Default::default();\n", repl="", expect="R2/transactions/reset"),
    dict(id="c14-threshold-ge", prop="C14", file=S, find="num::BigInt::from(present_votes) * 3 > num::BigInt::from(total_votes) * 2", repl="num::BigInt::from(present_votes) * 3 >= num::BigInt::from(total_votes) * 2", expect="R2/threshold/not-strict"),
    dict(id="c01-totals-gate-true-on-overflow", prop="C01", file=A, find="            None => return false,", repl="            None => return true,", expect="R9/totals/gate/overflow=>reject"),
    dict(id="c01-fee-added-to-sym-total", prop="C01", file=A, find="        .get(&Denom::Mel)\n        .copied()\n        .unwrap_or(0)\n        .checked_add(tx.fee.0)", repl="        .get(&Denom::Sym)\n        .copied()\n        .unwrap_or(0)\n        .checked_add(tx.fee.0)", expect="R9/totals/gate/fee-on-mel"),
    dict(id="c01-fee-pool-wrapping-add", prop="C01", file=A, find="next_state.fee_pool.0 = next_state.fee_pool.0.saturating_add(min_fee.0);", repl="next_state.fee_pool.0 = next_state.fee_pool.0.wrapping_add(min_fee.0);", expect="R10/wrap@"),
    dict(id="c05-tips-wrapping-add", prop="C05", file=A, find="next_state.tips.0 = next_state.tips.0.saturating_add(tips.0);", repl="next_state.tips.0 = next_state.tips.0.wrapping_add(tips.0);", expect="X01.R10/wrap@"),
    dict(id="c14-present-votes-wrapping", prop="C14", file=S, find=".fold(0u128, |present, votes| present.saturating_add(votes));", repl=".fold(0u128, |present, votes| present.wrapping_add(votes));", expect="X01.R10/wrap@"),
    dict(id="c13-total-votes-wrapping", prop="C13", file=SS, find=".fold(0u128, |total, votes| total.saturating_add(votes))", repl=".fold(0u128, |total, votes| total.wrapping_add(votes))", count=2, expect="X01.R10/wrap@"),
    dict(id="c15-swap-totals-wrapping", prop="C15", file=M, find="        .fold(0u128, |a, b| a.saturating_add(b.0));", repl="        .fold(0u128, |a, b| a.wrapping_add(b.0));", count=2, expect="X01.R10/wrap@"),
    dict(id="c15-left-share-over-right-total", prop="C15", file=M, find="                right_withdrawn,\n                swap.outputs[0].value.0,\n                total_lefts,", repl="                right_withdrawn,\n                swap.outputs[0].value.0,\n                total_rights,", expect="R3/rewrite/left-request/value"),
    dict(id="c12-pushic-counts-nonzero-bytes", prop="C12", file=OP, find="let leading_zeros = bytes_repr.iter().take_while(|i| **i == 0).count();", repl="let leading_zeros = bytes_repr.iter().take_while(|i| **i != 0).count();", expect="T4/PushIC/encode-zero-test"),
    dict(id="c12-pushic-bytes-never-read", prop="C12", file=OP, find="                let blit = &mut buf[..nonzero_len as usize];\n                input.read_exact(blit)?;", repl="                let blit = &mut buf[..nonzero_len as usize];", expect="T4/PushIC/decode-read"),
    dict(id="c11-weight-loop-negated", prop="C11", file=OP, find="    while !rest.is_empty() {\n        let (delta_sum, new_rest) = opcodes_car_weight(rest);", repl="    while rest.is_empty() {\n        let (delta_sum, new_rest) = opcodes_car_weight(rest);", expect="R8/loop/until-empty"),
    dict(id="c11-weight-sum-wrapping", prop="C11", file=OP, find="        sum = sum.saturating_add(delta_sum);", repl="        sum = sum.wrapping_add(delta_sum);", expect="R8/wrap@"),
    dict(id="c11-weight-part-not-added", prop="C11", file=OP, find="        sum = sum.saturating_add(delta_sum);\n", repl="        let _ = delta_sum;\n", expect="R8/sum/every-part"),
    dict(id="c11-loop-weight-wrapping-mul", prop="C11", file=OP, find="(sum.saturating_mul(*iters as u128).saturating_add(1), rest)", repl="(sum.wrapping_mul(*iters as u128).saturating_add(1), rest)", expect="R8/wrap@"),
    dict(id="c11-fee-gate-after-validation", prop="C11", file=A, find="    for tx in txx {\n        let min_fee = minimum_fee(this.fee_multiplier, tx);\n        if tx.fee < min_fee {\n            return Err(StateError::InsufficientFees(min_fee));\n        }\n    }\n", repl="", expect="R9/paid-before-run/missing"),
    dict(id="c11-fee-gate-skips-faucets", prop="C11", file=A, find="    for tx in txx {\n        let min_fee = minimum_fee(this.fee_multiplier, tx);\n        if tx.fee < min_fee {", repl="    for tx in txx {\n        if tx.kind == TxKind::Faucet {\n            continue;\n        }\n        let min_fee = minimum_fee(this.fee_multiplier, tx);\n        if tx.fee < min_fee {", expect="R9/paid-before-run/every-tx"),
    dict(id="c15-newcustom-side-accepted", prop="C15", file=M, find="    if key.left() == Denom::NewCustom || key.right() == Denom::NewCustom {\n        return None;\n    }\n", repl="", expect="R2/newcustom-side@"),
    dict(id="c02-newcustom-test-inverted", prop="C02", file=A, find="            if coin_data.denom == Denom::NewCustom {", repl="            if coin_data.denom != Denom::NewCustom {", expect="R4/newcustom/rewrite"),
    dict(id="c02-outputs-added-only-when-empty", prop="C02", file=A, find="        if !coins_to_add.is_empty() {\n            accum.extend(coins_to_add);", repl="        if coins_to_add.is_empty() {\n            accum.extend(coins_to_add);", expect="R4/accumulated/non-empty"),
    dict(id="c13-unstaked-coins-locked", prop="C13", file=A, find="            || this.stakes.get_stake(coin_id.txhash).is_some())\n            && !((this.network", repl="            || this.stakes.get_stake(coin_id.txhash).is_some())\n            || !((this.network", expect="R3/unstaked/passes"),
    dict(id="c20-coin-count-branches-swapped", prop="C20", file=CO, find="        if v.is_empty() {\n            0\n        } else {", repl="        if !v.is_empty() {\n            0\n        } else {", expect="R1/cc/"),
    dict(id="c07-get-none-for-one-byte", prop="C07", file=SM, find="        match v_bytes.len() {\n            0 => None,", repl="        match v_bytes.len() {\n            1 => None,", expect="R4b/get/"),
    dict(id="c11-fee-gate-helper-inlined-benign", prop="C11", file=A, find="        let min_fee = minimum_fee(this.fee_multiplier, tx);\n        if tx.fee < min_fee {\n            return Err(StateError::InsufficientFees(min_fee));\n        }\n    }\n\n    // apply the stake", repl="        let floor = minimum_fee(this.fee_multiplier, tx);\n        if !(tx.fee >= floor) {\n            return Err(StateError::InsufficientFees(floor));\n        }\n    }\n\n    // apply the stake", expect=None),
    dict(id="c15-newcustom-test-as-matches-benign", prop="C15", file=M, find="    if key.left() == Denom::NewCustom || key.right() == Denom::NewCustom {\n        return None;\n    }\n", repl="    if matches!(key.left(), Denom::NewCustom) || matches!(key.right(), Denom::NewCustom) {\n        return None;\n    }\n", expect=None),
]


def _patch_variants():
    import glob, json, os
    here = os.path.dirname(os.path.dirname(os.path.abspath(__file__)))
    out = []
    for d in sorted(glob.glob(os.path.join(here, "seeded", "*", "patch.diff"))):
        name = os.path.basename(os.path.dirname(d))
        prop = name.split("-")[0]
        out.append(dict(id="seeded:" + name, prop=prop, patch=d, expect=""))
    for d in sorted(glob.glob(os.path.join(here, "benign", "*.diff"))):
        name = os.path.basename(d)[:-5]
        meta = os.path.join(here, "benign", name + ".props")
        props = open(meta).read().split() if os.path.exists(meta) else ["C%02d" % i for i in range(1, 21)]
        for pr in props:
            out.append(dict(id="benign:%s:%s" % (name, pr), prop=pr, patch=d, expect=None))
    return out


def _mech_variants():
    """mechanical one-line mutants (rules/mutgen.py) selected from a bin/mutsweep run by bin/mkmech and reviewed: each is a genuine change of behaviour that the named
    rule instance states; they confirm (arm) instances that no hand-written or sub-agent-written variant happened to hit"""
    import json, os
    here = os.path.dirname(os.path.abspath(__file__))
    pth = os.path.join(here, "mech_variants.json")
    if not os.path.exists(pth):
        return []
    out = []
    for v in json.load(open(pth))["variants"]:
        out.append(dict(id="mech:" + v["id"], prop=v["prop"], file=v["file"], line=v["line"], before=v["before"], after=v["after"], expect=v["expect"]))
    return out


MUTANTS += _mech_variants()
MUTANTS += _patch_variants()
