"""E6(a): seeded variants.  Each entry edits one place of a scratch copy of /repo so that a rule instance
breaks while the crate still compiles; the named check must then report a violation whose key contains
`expect`.  `expect: None` marks a behaviour-preserving edit that must stay quiet."""

A = "src/state/applytx.rs"
S = "src/state.rs"
M = "src/state/melmint.rs"
CO = "src/state/coins.rs"
SM = "src/smtmapping.rs"
EX = "lib/melvm/src/executor.rs"
OP = "lib/melvm/src/opcode.rs"
LV = "lib/melvm/src/lib.rs"
SS = "lib/tip911-stakeset/src/lib.rs"

MUTANTS = [
    # ---------------------------------------------------------------- C05
    dict(id="c05-gate-dropped", prop="C05", file=A,
         find="        if tx.fee < min_fee {\n            return Err(StateError::InsufficientFees(min_fee));\n        } else {",
         repl="        {", expect="R1/gate/missing"),
    dict(id="c05-gate-inverted", prop="C05", file=A, find="if tx.fee < min_fee {", repl="if min_fee < tx.fee {", expect="R1/gate/"),
    dict(id="c05-ballast", prop="C05", file=A, find="tx.base_fee(next_state.fee_multiplier, 0, |c| {", repl="tx.base_fee(next_state.fee_multiplier, 50, |c| {", expect="R1/base_fee/ballast"),
    dict(id="c05-weigher-zero", prop="C05", file=A, find="            covenant_weight_from_bytes(c)\n", repl="            { let _ = covenant_weight_from_bytes(c); 0 }\n", expect="R1/base_fee/weigher"),
    dict(id="c05-swap-accumulators", prop="C05", file=A,
         find="next_state.tips.0 = next_state.tips.0.saturating_add(tips.0);\n            next_state.fee_pool.0 = next_state.fee_pool.0.saturating_add(min_fee.0);",
         repl="next_state.tips.0 = next_state.tips.0.saturating_add(min_fee.0);\n            next_state.fee_pool.0 = next_state.fee_pool.0.saturating_add(tips.0);", expect="R2/split/"),
    dict(id="c05-fee-to-both", prop="C05", file=A, find="next_state.tips.0.saturating_add(tips.0)", repl="next_state.tips.0.saturating_add(tx.fee.0)", expect="R2/split/"),
    dict(id="c05-shift-15", prop="C05", file=S, find="CoinValue(self.fee_pool.0 >> 16)", repl="CoinValue(self.fee_pool.0 >> 15)", expect="R3/"),
    dict(id="c05-no-subtract", prop="C05", file=S, find="        self.fee_pool -= base_fees;\n", repl="", expect="R3/fee_pool"),
    dict(id="c05-tips-not-zeroed", prop="C05", file=S, find="        self.tips = 0.into();\n", repl="", expect="R3/tips"),
    dict(id="c05-reward-const-dest", prop="C05", file=S, find="covhash: action.reward_dest,", repl="covhash: Address::coin_destroy(),", expect="R3/coin/covhash"),
    dict(id="c05-tips-read-after-zero", prop="C05", file=S,
         find="        let tips = self.tips;\n        self.tips = 0.into();\n", repl="        self.tips = 0.into();\n        let tips = self.tips;\n", expect="R3/coin/value"),
    dict(id="c05-weigher-unwrap-or-1", prop="C05", file=LV, find="Covenant::from_bytes(b).map(|b| b.weight()).unwrap_or(0)", repl="Covenant::from_bytes(b).map(|_b| 0).unwrap_or(0)", expect="R1/weigher/def"),
    # ---------------------------------------------------------------- C17 (against the repaired tree)
    dict(id="c17-writer-elsewhere", prop="C17", file=S, find="        self.fee_pool += CoinValue(mel);\n", repl="        self.fee_pool += CoinValue(mel);\n        self.fee_multiplier += 1;\n", expect="R1/writer/"),
    dict(id="c17-shift-6", prop="C17", file=S, find="(self.fee_multiplier >> 7).max(2)", repl="(self.fee_multiplier >> 6).max(2)", expect="R2/formula/flag=1"),
    dict(id="c17-div-64", prop="C17", file=S, find="delta.unsigned_abs() as u128) / 128;", repl="delta.unsigned_abs() as u128) / 64;", expect="R2/formula/"),
    dict(id="c17-floor-before-901", prop="C17", file=S, find="        } else {\n            self.fee_multiplier >> 7\n        };", repl="        } else {\n            (self.fee_multiplier >> 7).max(2)\n        };", expect="R2/formula/flag=0"),
    dict(id="c17-plain-minus", prop="C17", file=S, find="self.fee_multiplier.saturating_sub(scaled_movement);", repl="self.fee_multiplier - scaled_movement;", expect="R3/overflow:Sub"),
    dict(id="c17-plain-mul", prop="C17", file=S, find="max_movement.saturating_mul(delta.unsigned_abs() as u128) / 128", repl="max_movement * (delta.unsigned_abs() as u128) / 128", expect="R3/overflow:Mul"),
    dict(id="c17-flag-const", prop="C17", file=S, find="self.apply_proposer_action(action, self.tip_901());", repl="self.apply_proposer_action(action, true);", expect="R2/flag/seal"),
    dict(id="c17-sign-swapped", prop="C17", file=S, find="        if delta >= 0 {\n            self.fee_multiplier = self.fee_multiplier.saturating_add", repl="        if delta <= 0 {\n            self.fee_multiplier = self.fee_multiplier.saturating_add", expect="R2/sign-guard"),
    dict(id="c17-move-without-action", prop="C17", file=S, find="            self.apply_proposer_action(action, self.tip_901());\n        }", repl="            self.apply_proposer_action(action, self.tip_901());\n        } else {\n            self.move_action_fee_multiplier(false, ProposerAction { fee_multiplier_delta: 1, reward_dest: Address::coin_destroy() });\n        }", expect="R1/"),
    dict(id="c17-q-lt-else", prop="C17", file=S, find="        if delta >= 0 {\n            self.fee_multiplier = self.fee_multiplier.saturating_add(scaled_movement);\n        } else {\n            self.fee_multiplier = self.fee_multiplier.saturating_sub(scaled_movement);\n        }",
         repl="        if delta < 0 {\n            self.fee_multiplier = self.fee_multiplier.saturating_sub(scaled_movement);\n        } else {\n            self.fee_multiplier = self.fee_multiplier.saturating_add(scaled_movement);\n        }", expect=None),
    # ---------------------------------------------------------------- C06
    dict(id="c06-seal-none", prop="C06", file=S, find="let basis = basis.seal(block.proposer_action);", repl="let basis = basis.seal(None);", expect="R2/seal-arg"),
    dict(id="c06-return-self", prop="C06", file=S, find="        } else {\n            Ok(basis)\n        }", repl="        } else {\n            Ok(self.clone())\n        }", expect="R2/payload"),
    dict(id="c06-take", prop="C06", file=S, find="let transactions = block.transactions.iter().cloned().collect::<Vec<_>>();", repl="let transactions = block.transactions.iter().take(1000).cloned().collect::<Vec<_>>();", expect="R2/batch-arg"),
    dict(id="c06-ignore-batch-error", prop="C06", file=S, find="        basis.apply_tx_batch(&transactions)?;\n        assert!(basis.pools", repl="        let _ = basis.apply_tx_batch(&transactions);\n        assert!(basis.pools", expect="R2/batch-error-propagates"),
    dict(id="c06-inverted", prop="C06", file=S, find="if basis.header() != block.header {", repl="if basis.header() == block.header {", expect="R1/"),
    dict(id="c06-compare-height-only", prop="C06", file=S, find="if basis.header() != block.header {", repl="if basis.header().height != block.header.height {", expect="R1/anchor-missing"),
    dict(id="c06-toblock-no-action", prop="C06", file=S, find="            proposer_action: self.1,\n", repl="            proposer_action: None,\n", expect="R3/field/proposer_action"),
    dict(id="c06-toblock-skip", prop="C06", file=S, find="transactions: self.0.transactions.iter().cloned().collect(),", repl="transactions: self.0.transactions.iter().skip(1).cloned().collect(),", expect="R3/field/transactions"),
    dict(id="c06-q-eq-swapped", prop="C06", file=S, find="        if basis.header() != block.header {", repl="        if !(block.header == basis.header()) {", expect=None),
    # ---------------------------------------------------------------- C07
    dict(id="c07-swap-roots", prop="C07", file=S, find="coins_hash: inner.coins.root_hash(),", repl="coins_hash: inner.pools.root_hash(),", expect="R1/field/coins_hash"),
    dict(id="c07-feepool-zero", prop="C07", file=S, find="            fee_pool: inner.fee_pool,\n            fee_multiplier: inner.fee_multiplier,\n            dosc_speed", repl="            fee_pool: CoinValue(0),\n            fee_multiplier: inner.fee_multiplier,\n            dosc_speed", expect="R1/field/fee_pool"),
    dict(id="c07-previous-same-height", prop="C07", file=S, find=".map(|height| inner.history.get(&BlockHeight(height)).unwrap().hash())", repl=".map(|height| inner.history.get(&BlockHeight(height + 1).min(inner.height)).map(|h| h.hash()).unwrap_or_default())", expect="R1/previous/closure"),
    dict(id="c07-insert-next-height", prop="C07", file=S, find="new.history.insert(self.0.height, self.header());", repl="new.history.insert(self.0.height + BlockHeight(1), self.header());", expect="R2/history-insert/key"),
    dict(id="c07-no-height-bump", prop="C07", file=S, find="        new.height += BlockHeight(1);\n        new.stakes.unlock_old((new.height / STAKE_EPOCH).0);", repl="        new.stakes.unlock_old(((new.height + BlockHeight(1)) / STAKE_EPOCH).0);", expect="R2/height/not-incremented"),
    dict(id="c07-network-rewrite", prop="C07", file=S, find="        new.transactions = Default::default();\n", repl="        new.transactions = Default::default();\n        if new.height.0 == 77_000_000 { new.network = NetID::Testnet; }\n", expect="R3/writer/"),
    dict(id="c07-insert-key-raw", prop="C07", file=SM, find="    pub fn insert(&mut self, key: K, val: V) {\n        let _timer = STAT_SMT_INSERT_SECS.timer_secs(\"smt insert\");\n\n        let key = tmelcrypt::hash_single(&stdcode::serialize(&key).unwrap());",
         repl="    pub fn insert(&mut self, key: K, val: V) {\n        let _timer = STAT_SMT_INSERT_SECS.timer_secs(\"smt insert\");\n\n        let key = tmelcrypt::hash_keyed(b\"k\", &stdcode::serialize(&key).unwrap());", expect="R4/insert/key"),
    dict(id="c07-unsorted-dense", prop="C07", file=S, find="        vv.sort_unstable();\n", repl="", expect="R5/tip908/sorted"),
    dict(id="c07-stake-key", prop="C07", file=SS, find="tree.insert(k.stdcode().hash().0, &v.stdcode());", repl="tree.insert(k.0 .0, &v.stdcode());", expect="R6/key"),
    dict(id="c07-q-inner-rename", prop="C07", file=S, find="        let inner = &self.0;\n        Header {\n            network: inner.network,", repl="        let inner = &self.0;\n        let net = inner.network;\n        Header {\n            network: net,", expect=None),
    # ---------------------------------------------------------------- C08
    dict(id="c08-dosc-const", prop="C08", file=S, find="            dosc_speed: blk.header.dosc_speed,\n            pools,", repl="            dosc_speed: melstructs::MICRO_CONVERTER,\n            pools,", expect="R2/dosc_speed/not-invariant"),
    dict(id="c08-fm-default", prop="C08", file=S, find="            fee_multiplier: blk.header.fee_multiplier,\n            tips", repl="            fee_multiplier: Default::default(),\n            tips", expect="R2/fee_multiplier"),
    dict(id="c08-feepool-from-multiplier", prop="C08", file=S, find="            fee_pool: blk.header.fee_pool,\n            fee_multiplier: blk", repl="            fee_pool: CoinValue(blk.header.fee_multiplier),\n            fee_multiplier: blk", expect="R1/field/fee_pool"),
    dict(id="c08-coins-from-pools-root", prop="C08", file=S, find="CoinMapping::new(db.get_tree(blk.header.coins_hash.0).unwrap());", repl="CoinMapping::new(db.get_tree(blk.header.pools_hash.0).unwrap());", expect="R1/field/coins"),
    dict(id="c08-drop-action", prop="C08", file=S, find="        Self(state, blk.proposer_action)", repl="        Self(state, None)", expect="R1/proposer_action"),
    dict(id="c08-txs-empty", prop="C08", file=S, find="        let transactions = blk.transactions.iter().cloned().collect();\n        let state = UnsealedState {", repl="        let transactions = Default::default();\n        let state = UnsealedState {", expect="R2/transactions"),
    # ---------------------------------------------------------------- C14 (against the repaired tree)
    dict(id="c14-early-some-empty", prop="C14", file=S, find="        // first check all the signatures\n        for (k, sig) in cproof.iter() {", repl="        if cproof.is_empty() { return Some(ConfirmedState { state: self.clone(), cproof }); }\n        for (k, sig) in cproof.iter() {", expect="R1/some-after-loop"),
    dict(id="c14-continue-on-bad-sig", prop="C14", file=S, find="            if !k.verify(&self.header().hash(), sig) {\n                return None;\n            }", repl="            if !k.verify(&self.header().hash(), sig) {\n                continue;\n            }", expect="R1/verify/false"),
    dict(id="c14-le", prop="C14", file=S, find="num::BigInt::from(present_votes) * 3 > num::BigInt::from(total_votes) * 2", repl="num::BigInt::from(present_votes) * 3 < num::BigInt::from(total_votes) * 2", expect="R2/threshold/polarity"),
    dict(id="c14-half", prop="C14", file=S, find="num::BigInt::from(present_votes) * 3 > num::BigInt::from(total_votes) * 2", repl="num::BigInt::from(present_votes) * 2 > num::BigInt::from(total_votes) * 1", expect="R2/threshold/ratio"),
    dict(id="c14-floor-present", prop="C14", file=S, find="num::BigInt::from(present_votes) * 3 > num::BigInt::from(total_votes) * 2", repl="present_votes / 2 * 3 > total_votes", expect="R2/threshold/rounding"),
    dict(id="c14-sign-other-message", prop="C14", file=S, find="if !k.verify(&self.header().hash(), sig) {", repl="if !k.verify(&self.header().previous, sig) {", expect="R1/verify/message"),
    dict(id="c14-wrong-epoch", prop="C14", file=S, find="let my_epoch = self.0.height.epoch();", repl="let my_epoch = self.0.height.epoch() + 1;", expect="R3/"),
    dict(id="c14-no-threshold", prop="C14", file=S, find="if num::BigInt::from(present_votes) * 3 > num::BigInt::from(total_votes) * 2 {", repl="if present_votes > 0 || total_votes == 0 {", expect="R2/"),
    dict(id="c14-q-hash-once", prop="C14", file=S, find="        for (k, sig) in cproof.iter() {\n            if !k.verify(&self.header().hash(), sig) {", repl="        let hh = self.header().hash();\n        for (k, sig) in cproof.iter() {\n            if !k.verify(&hh, sig) {", expect=None),
    dict(id="c14-q-u128-exact", prop="C14", file=S, find="if num::BigInt::from(present_votes) * 3 > num::BigInt::from(total_votes) * 2 {", repl="if num::BigInt::from(total_votes) * 2 < num::BigInt::from(present_votes) * 3 {", expect=None),
    # ---------------------------------------------------------------- C13
    dict(id="c13-start-ge", prop="C13", file=A, find="stake_doc.e_start > curr_epoch", repl="stake_doc.e_start >= curr_epoch", expect="R1/consistent/"),
    dict(id="c13-end-ge", prop="C13", file=A, find="&& stake_doc.e_post_end > stake_doc.e_start", repl="&& stake_doc.e_post_end >= stake_doc.e_start", expect="R1/consistent/"),
    dict(id="c13-drop-value", prop="C13", file=A, find="\n        && stake_doc.syms_staked == coin.value", repl="", expect="R1/consistent/missing"),
    dict(id="c13-drop-sym", prop="C13", file=A, find="            if !coin_is_denom(first_coin, Denom::Sym) {\n                return Err(StateError::MalformedTx);\n            }\n", repl="", expect="R2/sym/"),
    dict(id="c13-sym-continue", prop="C13", file=A, find="            if !coin_is_denom(first_coin, Denom::Sym) {\n                return Err(StateError::MalformedTx);\n            }\n", repl="            if !coin_is_denom(first_coin, Denom::Sym) {\n                continue;\n            }\n", expect="R2/sym/false=>err"),
    dict(id="c13-register-inconsistent", prop="C13", file=A, find="                log::warn!(\"**** REJECTING STAKER {:?} ****\", stake_doc);\n                continue;", repl="                log::warn!(\"**** REJECTING STAKER {:?} ****\", stake_doc);\n                accum.insert(tx.hash_nosigs(), stake_doc);", expect="R2/"),
    dict(id="c13-legacy-wider", prop="C13", file=A, find="&& this.height.0 < 500000", repl="&& this.height.0 < 5000000", expect="R2/legacy/height"),
    dict(id="c13-legacy-all-nets", prop="C13", file=A, find="            if (this.network == NetID::Mainnet || this.network == NetID::Testnet)\n                && this.height.0 < 500000", repl="            if this.height.0 < 500000", expect="R2/legacy/confined"),
    dict(id="c13-epoch-of-coin", prop="C13", file=A, find="let curr_epoch = this.height.epoch();", repl="let curr_epoch = this.height.epoch().saturating_sub(1);", expect="R2/consistent/args"),
    dict(id="c13-unlock-gt", prop="C13", file=SS, find="self.stakes.retain(|_, v| v.e_post_end >= epoch);", repl="self.stakes.retain(|_, v| v.e_post_end > epoch);", expect="R5/unlock_old/filter"),
    dict(id="c13-votes-lt", prop="C13", file=SS, find=".filter(|v| v.e_start <= epoch && v.e_post_end > epoch && v.pubkey == key)", repl=".filter(|v| v.e_start < epoch && v.e_post_end > epoch && v.pubkey == key)", expect="R5/votes/filter"),
    dict(id="c13-total-votes-ge", prop="C13", file=SS, find=".filter(|v| v.e_start <= epoch && v.e_post_end > epoch)\n", repl=".filter(|v| v.e_start <= epoch && v.e_post_end >= epoch)\n", expect="R5/total_votes/filter"),
    dict(id="c13-unlock-old-height", prop="C13", file=S, find="        new.height += BlockHeight(1);\n        new.stakes.unlock_old((new.height / STAKE_EPOCH).0);", repl="        new.stakes.unlock_old((new.height / STAKE_EPOCH).0);\n        new.height += BlockHeight(1);", expect="R4/after-increment"),
    dict(id="c13-no-lock-new-stakes", prop="C13", file=A, find="        if (new_stakes.contains_key(&coin_id.txhash)\n            || this.stakes.get_stake(coin_id.txhash).is_some())", repl="        if (this.stakes.get_stake(coin_id.txhash).is_some())", expect="R3/new-stakes/test"),
    dict(id="c13-lock-legacy-wider", prop="C13", file=A, find="&& this.height.0 < 900000)", repl="&& this.height.0 < 9000000)", expect="R3/legacy/height"),
    dict(id="c13-lock-after-scripts-only-first", prop="C13", file=A, find="        if (new_stakes.contains_key(&coin_id.txhash)\n", repl="        if spend_idx == 0 && (new_stakes.contains_key(&coin_id.txhash)\n", expect="R3/locked/"),
    dict(id="c13-stakes-before-create", prop="C13", file=A, find="    for (k, v) in new_stakes {\n        next_state.stakes.add_stake(k, v);\n    }\n    Ok(next_state)", repl="    for (k, v) in new_stakes.into_iter().take(1) {\n        next_state.stakes.add_stake(k, v);\n    }\n    Ok(next_state)", expect="R6/add/"),
    dict(id="c13-q-fold-sum", prop="C13", file=A, find="    stake_doc.e_start > curr_epoch\n        && stake_doc.e_post_end > stake_doc.e_start", repl="    stake_doc.e_post_end > stake_doc.e_start\n        && curr_epoch < stake_doc.e_start", expect=None),
    # ---------------------------------------------------------------- C19
    dict(id="c19-drop-mainnet", prop="C19", file=A, find="if state.network == NetID::Mainnet && !bug_compatible_with_inflation_exploit {", repl="if false && state.network == NetID::Mainnet && !bug_compatible_with_inflation_exploit {", expect="R2/mainnet=>err"),
    dict(id="c19-testnet-instead", prop="C19", file=A, find="if state.network == NetID::Mainnet && !bug_compatible_with_inflation_exploit {", repl="if state.network == NetID::Testnet && !bug_compatible_with_inflation_exploit {", expect="R2/"),
    dict(id="c19-key-mismatch", prop="C19", file=A, find="        if !bug_compatible_with_inflation_exploit {\n            state.coins.insert_coin(\n                pseudocoin,", repl="        if !bug_compatible_with_inflation_exploit {\n            state.coins.insert_coin(\n                faucet_dedup_pseudocoin(tmelcrypt::hash_single(tx.hash_nosigs().0).into()),", expect="R3/insert/key"),
    dict(id="c19-marker-only-with-outputs", prop="C19", file=A, find="        if !bug_compatible_with_inflation_exploit {\n            state.coins.insert_coin(", repl="        if !bug_compatible_with_inflation_exploit && !tx.outputs.is_empty() {\n            state.coins.insert_coin(", expect="R3/ok=>marked"),
    dict(id="c19-dup-ignored", prop="C19", file=A, find="            return Err(StateError::DuplicateTx);\n", repl="            log::warn!(\"dup\");\n", expect="R3/present=>err"),
    dict(id="c19-faucet-after-effects", prop="C19", file=A, find="        if tx.kind == TxKind::Faucet {\n            handle_faucet_tx(&mut next_state, tx)?;\n        }\n\n        for (i, _) in tx.outputs.iter().enumerate() {", repl="        if tx.kind == TxKind::Faucet && !tx.inputs.is_empty() {\n            handle_faucet_tx(&mut next_state, tx)?;\n        }\n\n        for (i, _) in tx.outputs.iter().enumerate() {", expect="R1/first"),
    dict(id="c19-faucet-error-ignored", prop="C19", file=A, find="            handle_faucet_tx(&mut next_state, tx)?;\n", repl="            let _ = handle_faucet_tx(&mut next_state, tx);\n", expect="R1/error-propagates"),
    dict(id="c19-exception-prefix", prop="C19", file=A, find="tx.hash_nosigs().to_string() == INFLATION_BUG_TX_HASH;", repl="tx.hash_nosigs().to_string().starts_with(&INFLATION_BUG_TX_HASH[..2]);", expect="R2/"),
    dict(id="c19-marker-spendable", prop="C19", file=A, find="                        covhash: HashVal::default().into(),", repl="                        covhash: tx.outputs.get(0).map(|o| o.covhash).unwrap_or(HashVal::default().into()),", expect="R3/marker/covhash"),
    dict(id="c19-q-unconditional-call", prop="C19", file=A, find="        if tx.kind == TxKind::Faucet {\n            handle_faucet_tx(&mut next_state, tx)?;\n        }\n", repl="        handle_faucet_tx(&mut next_state, tx)?;\n", expect=None),
    # quiet ones
    dict(id="c05-q-le", prop="C05", file=A, find="if tx.fee < min_fee {", repl="if !(tx.fee >= min_fee) {", expect=None),
    dict(id="c05-q-div65536", prop="C05", file=S, find="CoinValue(self.fee_pool.0 >> 16)", repl="CoinValue(self.fee_pool.0 / 65536)", expect=None),
    dict(id="c05-q-rename", prop="C05", file=A, find="let tips = tx.fee - min_fee;\n            next_state.tips.0 = next_state.tips.0.saturating_add(tips.0);",
         repl="let extra = tx.fee - min_fee;\n            next_state.tips.0 = next_state.tips.0.saturating_add(extra.0);", expect=None),
]
