"""C17 — the fee multiplier moves only by the bounded, specified step per block."""
from rules.engine import mir, q
from rules.engine.mir import show
from rules.engine.q import B, K, arith_nf
from rules.engine.sccp import Forcing, C

EXPLANATION = (
    "R1 write confinement: UnsealedState.fee_multiplier is assigned only in move_action_fee_multiplier (plus the constructor "
    "aggregates of realize/from_block/Clone), which is reachable only through apply_proposer_action from the Some(action) arm of "
    "seal (call graph + forced constant propagation with action := None). R2 formula: arithmetic normal form of the value "
    "written, per sign branch, equals fm ± |max(fm>>7, 2 if TIP-901)·delta/128|, with the TIP-901 flag's provenance tip_901(self). "
    "R3 no wrap-around: no lossy narrowing cast and no undischarged overflow assertion on the path from reading to writing the multiplier."
    " R3 also reports wrapping_* / overflowing_* arithmetic on a multiplier-derived value. Imports the activation table C06.R5 (the floor of 2 applies from TIP-901)."
    " R3 `abort/<fn>`: no panic condition over the multiplier in seal / apply_proposer_action / move_action_fee_multiplier."
)
NOT_DECIDED = ["numeric range claims beyond the absence of wrapping operations (saturation points are read, not proved optimal)"]
ASSUMPTIONS = ["ProposerAction.fee_multiplier_delta is an i8 (melstructs 0.3.3), hence |delta| ≤ 128"]

FN = "melstf::state::UnsealedState::move_action_fee_multiplier"


def r1_confinement(ctx):
    r = ctx.rule("R1", "fee_multiplier is written only by move_action_fee_multiplier (+constructors), reached only via apply_proposer_action under Some(action) in seal")
    prog = ctx.prog
    mv = ctx.body(FN, r)
    apa = ctx.body("melstf::state::UnsealedState::apply_proposer_action", r)
    seal = ctx.body("melstf::state::UnsealedState::seal", r)
    ws = q.field_writers(prog, "melstf::state::UnsealedState", "fee_multiplier")
    r.floor("writer-bodies", len(ws), 3)
    allowed_agg = ("GenesisConfig::realize", "SealedState::from_block", "as std::clone::Clone>::clone")
    for b, recs in sorted(ws.items(), key=lambda kv: kv[0].nname):
        ctx.analysed(b)
        kinds = sorted({x[0] for x in recs})
        where = "%s:%s" % (b.file, b.line)
        for k in kinds:
            if k == "agg":
                ok = any(b.nname.endswith(a) for a in allowed_agg)
                r.check(ok, "writer/agg/" + b.nname.split("::")[-1] + ("/" + b.nname.split("::")[-2] if not ok else ""),
                        "%s constructs an UnsealedState (constructor)" % b.nname,
                        "%s constructs an UnsealedState with its own fee_multiplier: a new way to set the multiplier" % b.nname, where)
            else:
                ok = b.id == mv.id
                r.check(ok, "writer/%s/%s" % (k, b.nname.split("::")[-1]), "%s writes fee_multiplier" % b.nname,
                        "%s writes fee_multiplier outside move_action_fee_multiplier" % b.nname, b.where(recs[0][1], recs[0][2]))
    c1 = prog.callers_of(mv.id)
    r.check(c1 == [apa.id], "callers/move", "move_action_fee_multiplier is called only from apply_proposer_action",
            "move_action_fee_multiplier is called from %s" % c1)
    c2 = prog.callers_of(apa.id)
    r.check(c2 == [seal.id], "callers/apply", "apply_proposer_action is called only from seal", "apply_proposer_action is called from %s" % c2)

    def none_atom(x):
        if x[0] == "discr" and x[1][0] == "param" and x[1][2] == "action":
            return 0
        return None
    f = Forcing(seal, none_atom)
    sites = q.calls_to(seal, "apply_proposer_action")
    r.anchor(sites, "seal calls apply_proposer_action")
    for bi, t in sites:
        r.check(bi not in f.reach, "no-action-unchanged", "with action = None the call is unreachable (multiplier unchanged)",
                "with action = None apply_proposer_action is still reachable", seal.where(bi))
    # with Some(action) the step is taken on every path: seal applies the action on every path, and apply_proposer_action reaches
    # move_action_fee_multiplier on every path (a special case on another field of the action — the reward address, say — must not skip the vote)
    def some_atom(x):
        if x[0] == "discr" and x[1][0] == "param" and x[1][2] == "action":
            return 1
        return None
    fs = Forcing(seal, some_atom)
    for bi, t in sites:
        wo = fs.reach_from(0, avoid=[bi])
        r.check(not any(x in wo for x in seal.return_blocks()), "action=>applied", "with Some(action) seal applies it on every path", "a path through seal skips the proposer action although it is Some", seal.where(bi))
    mvs = q.calls_to(apa, "move_action_fee_multiplier")
    r.check(len(mvs) >= 1, "apply/moves", "apply_proposer_action moves the multiplier", "apply_proposer_action does not call move_action_fee_multiplier")
    if mvs:
        # a vote of exactly 0 moves nothing: skipping the call for it is the same behaviour, so the paths are followed under `delta != 0`
        import re as _re
        isz = lambda c: bool(_re.fullmatch(r"Eq\((0, \S*\.fee_multiplier_delta|\S*\.fee_multiplier_delta, 0)\)", c))
        zero = [e for e, c, bi in q.pick_atoms(apa, isz) if isz(c)]
        fz = q.force(apa, {z_: 0 for z_ in zero})
        mvb = [bi for bi, t in mvs]
        wo = set() if 0 in mvb else fz.reach_from(0, avoid=mvb)
        r.check(not any(x in wo for x in apa.return_blocks()), "apply/every-path", "the multiplier step is taken on every path of apply_proposer_action",
                "a path through apply_proposer_action returns without moving the fee multiplier: the vote of that block is ignored", apa.where(mvs[0][0]))
    # nothing else reachable from seal under None writes the multiplier: every writer body other than mv/constructors is a violation already


def r2_formula(ctx):
    r = ctx.rule("R2", "fm' = fm + trunc(M·d/128) with M = max(fm>>7, 2) if TIP-901 else fm>>7; sign branches agree; TIP-901 flag = tip_901(self)")
    prog = ctx.prog
    mv = ctx.body(FN, r)
    seal = ctx.body("melstf::state::UnsealedState::seal", r)
    apa = ctx.body("melstf::state::UnsealedState::apply_proposer_action", r)
    # flag provenance
    for bi, t in q.calls_to(seal, "apply_proposer_action"):
        e = seal.rec_call(t, bi)
        flag = e[2][2]
        r.check(q.is_call(flag, "UnsealedState::tip_901"), "flag/seal", "seal passes tip_901(self)", "seal passes %s as the TIP-901 flag" % show(flag), seal.where(bi))
    for bi, t in q.calls_to(apa, "move_action_fee_multiplier"):
        e = apa.rec_call(t, bi)
        r.check(e[2][1][0] == "param" and e[2][1][2] == "after_tip_901", "flag/apply", "apply_proposer_action forwards the flag",
                "apply_proposer_action passes %s as the flag" % show(e[2][1]), apa.where(bi))
        r.check(e[2][2][0] == "param" and e[2][2][2] == "action", "action/apply", "apply_proposer_action forwards the action", "passes %s" % show(e[2][2]), apa.where(bi))
    # the value written, under each (flag, sign) combination
    flag_local = q.local_by_name(mv, "after_tip_901")
    r.anchor(flag_local, "parameter after_tip_901")
    fm = ("field", ("var", "self"), "fee_multiplier")
    d = ("field", ("param", 3, "action"), "fee_multiplier_delta")
    ws = [w for w in q.stmt_writes(mv, "fee_multiplier") if w[0] == "assign"]
    r.floor("writes", len(ws), 1)
    for flag in (1, 0):
        f = Forcing(mv, None, param_vals={flag_local: C(flag)})
        M0 = B("Shr", fm, K(7))
        M = (("max",) + tuple(sorted([K(2), M0], key=repr))) if flag else M0
        live = [w for w in ws if w[1] in f.reach]
        if not live:
            r.violation("formula/flag=%d/no-write" % flag, "no write of fee_multiplier is reachable with after_tip_901=%d" % flag)
            continue
        mag = B("Div", B("Mul", M, d), K(128))
        mag_abs_in = B("Div", B("Mul", M, ("abs", d)), K(128))
        pos_ok = {B("Add", fm, mag), B("Add", fm, mag_abs_in)}
        neg_ok = {B("Sub", fm, ("abs", mag)), B("Sub", fm, mag_abs_in)}
        cand = []
        for w in live:
            # resolve the phi of max_movement for this flag: re-recover with only reachable definitions
            val = _resolve_phi(mv, w[4], f)
            if val[0] == "phi":
                # one assignment of `if delta < 0 { fm − m } else { fm + m }`: look at each direction under its own sign hypothesis
                for hyp in ("gt0", "lt0"):
                    table = {a[0]: SIGN_TRUTH[hyp][a[1]] for atoms in _sign_groups(mv, d).values() for a in atoms}
                    fh = Forcing(mv, lambda x, table=table: table.get(x), param_vals={flag_local: C(flag)})
                    if w[1] in fh.reach:
                        cand.append((w, q.resolve_phis(mv, w[4], fh.reach)))
            else:
                cand.append((w, val))
        for w, val in cand:
            nf = arith_nf(val)
            nf = _canon(nf)
            where = mv.where(w[1], w[2])
            if nf in pos_ok or nf in neg_ok:
                sign = "+" if nf in pos_ok else "-"
                # the sign test guarding this write
                r.ok("formula/flag=%d/%s" % (flag, sign), "fm' = %s" % show(nf, 200), where)
            elif q.has_unknown(val):
                r.undecided("formula/flag=%d" % flag, "written value not understood: %s" % show(val, 200), where)
            else:
                r.violation("formula/flag=%d/shape" % flag, "fee_multiplier := %s, expected fm ± trunc(%s·d/128)" % (show(nf, 300), show(M)), where)
        signs = set()
        for w, val in cand:
            nf = _canon(arith_nf(val))
            if nf in pos_ok:
                signs.add("+")
            if nf in neg_ok:
                signs.add("-")
        r.check(signs == {"+", "-"}, "formula/flag=%d/both-signs" % flag, "both directions are implemented", "only directions %s are implemented" % sorted(signs))
    # sign guards: the '+' write must be reachable only when (scaled or delta) >= 0, the '-' write only when < 0
    _sign_guards(r, mv, ws, fm, d)


def _canon(e):
    """drop variable versions, normalise the parameter node for `action`"""
    if not isinstance(e, tuple):
        return e
    if e[0] == "var":
        return ("var", e[1])
    if e[0] == "param":
        if e[2] == "self":
            return ("var", "self")          # `self` reads the same whether K3 renders the receiver as a parameter (with a version) or as a variable
        return ("param", 3, e[2]) if e[2] == "action" else e
    return tuple(_canon(x) if isinstance(x, tuple) else x for x in e)


def _resolve_phi(body, e, forcing):
    return q.resolve_phis(body, e, forcing.reach)


def _sign_groups(mv, d):
    """comparisons of a delta-derived subject with zero, grouped by subject: {subject nf: [(expr, op, bb)]}"""
    groups = {}
    for bi, si, s in mv.iter_stmts():
        if s["k"] != "assign" or s["rv"]["k"] != "bin":
            continue
        e = mv.rec_rvalue(s["rv"], bi, si)
        cm = q.as_cmp(e)
        if not cm:
            continue
        op, L, R = cm
        if q.const_val(R) == 0:
            subj = L
        elif q.const_val(L) == 0:
            subj, op = R, q.SWAP[op]
        else:
            continue
        nf = _canon(arith_nf(subj))
        if not q.contains(nf, lambda x: x == d):
            continue
        groups.setdefault(nf, []).append((e, op, bi))
    return groups


SIGN_TRUTH = {"gt0": {"Ge": 1, "Gt": 1, "Lt": 0, "Le": 0, "Eq": 0, "Ne": 1},
              "lt0": {"Ge": 0, "Gt": 0, "Lt": 1, "Le": 1, "Eq": 0, "Ne": 1}}


def _sign_guards(r, mv, ws, fm, d):
    """all comparisons of a delta-derived subject with zero are forced consistently to 'subject > 0' and to
    'subject < 0'; a strictly positive movement must not reach the subtracting write and vice versa"""
    groups = _sign_groups(mv, d)
    if not groups:
        r.undecided("sign-guard", "no comparison of the movement with zero found")
        return
    truth = SIGN_TRUTH
    for subj, atoms in groups.items():
        for hyp in ("gt0", "lt0"):
            table = {a[0]: truth[hyp][a[1]] for a in atoms}
            f = Forcing(mv, lambda x, table=table: table.get(x))
            for w in ws:
                if w[1] not in f.reach:
                    continue
                wnf = _canon(arith_nf(q.resolve_phis(mv, w[4], f.reach)))
                is_add = wnf[0] == "bin" and wnf[1] == "Add"
                is_sub = wnf[0] == "bin" and wnf[1] == "Sub"
                where = mv.where(w[1], w[2])
                if hyp == "gt0" and is_sub:
                    r.violation("sign-guard/sub-on-positive", "the subtracting write is reachable when %s > 0" % show(subj, 80), where)
                elif hyp == "lt0" and is_add:
                    r.violation("sign-guard/add-on-negative", "the adding write is reachable when %s < 0" % show(subj, 80), where)
                else:
                    r.ok("sign-guard/%s/%s" % (hyp, "add" if is_add else "sub"), "consistent with the sign tests on %s" % show(subj, 80), where)


def _dominated_by_nonneg(body, bb, subj):
    for bi, t in body.iter_terms("switch"):
        e = body.rec_operand(t["discr"], bi, "T")
        cm = q.as_cmp(e)
        if not cm:
            continue
        op, L, R = cm
        if op == "Ge" and L == subj and q.const_val(R) == 0:
            true_t = t["otherwise"]
            if body.dominates(true_t, bb) and true_t not in [x[1] for x in t["targets"]]:
                return True
    return False


def r3_no_wrap(ctx):
    r = ctx.rule("R3", "between reading and writing fee_multiplier: no lossy narrowing cast of a multiplier-derived value, no undischarged overflow assertion")
    mv = ctx.body(FN, r)
    fm_pred = lambda x: x[0] == "field" and x[2] == "fee_multiplier"
    n = 0
    # lossy casts
    seen = set()
    for bi, si, s in mv.iter_stmts():
        if s["exp"] or s["k"] != "assign" or s["rv"]["k"] != "cast":
            continue
        e = mv.rec_rvalue(s["rv"], bi, si)
        if e[0] == "cast" and q.is_lossy_cast(e) and q.contains(e[1], fm_pred):
            if e[2].startswith("i") and e[3].startswith("u") and q.INT_BITS[e[3]] > q.INT_BITS[e[2]] and _dominated_by_nonneg(mv, bi, e[1]):
                r.ok("cast-guarded:%s->%s" % (e[2], e[3]), "signed→unsigned cast of %s is dominated by its `>= 0` test" % show(e[1], 80), mv.where(bi, si))
                continue
            key = "lossy-cast:%s->%s" % (e[2], e[3])
            n += 1
            if key in seen:
                continue
            seen.add(key)
            r.violation(key, "multiplier-derived value %s is narrowed %s→%s (truncates from 2^%d)" % (show(e[1], 120), e[2], e[3], q.INT_BITS[e[3]]),
                        mv.where(bi, si))
    for bi, t in mv.iter_terms("assert"):
        if t["exp"]:
            continue
        msg = t["msg"]
        if not msg.startswith("Overflow"):
            continue
        ops = [mv.rec_operand(o, bi, "T") for o in t["msg_ops"]]
        if msg in ("Overflow(Shr)", "Overflow(Shl)") and q.const_val(ops[1]) is not None:
            r.ok("shift-by-const@%s" % msg, "shift amount is the constant %s" % q.const_val(ops[1]), mv.where(bi))
            continue
        if msg == "Overflow(Div)" and q.const_val(ops[1]) not in (None, -1):
            r.ok("div-by-const@%s" % msg, "divisor is the constant %s (MIN/-1 impossible)" % q.const_val(ops[1]), mv.where(bi))
            continue
        if any(q.contains(o, fm_pred) for o in ops):
            n += 1
            key = "overflow:" + msg[9:-1]
            if key in seen:
                continue
            seen.add(key)
            r.violation(key, "%s on multiplier-derived operands (%s) can overflow: panics with overflow checks, wraps without" %
                        (msg, ", ".join(show(o, 100) for o in ops)), mv.where(bi))
        else:
            r.ok("overflow-unrelated@%s" % msg, "assertion not on a multiplier-derived value", mv.where(bi))
    # std calls that overflow on their own: abs/neg/pow of a signed value (|MIN| is not representable)
    from rules.engine import panics
    for st in panics.inventory(ctx.prog, [mv]):
        if st.kind == "extern" and st.what in ("abs", "pow") and not st.exp:
            d = panics.auto_discharge(ctx.prog, st)
            if d:
                r.ok("std-overflow/%s" % st.what, "%s: %s" % d, st.where())
            else:
                n += 1
                r.violation("std-overflow/%s" % st.what, "%s(%s) overflows for the most negative value: panics with overflow checks, yields a negative 'magnitude' without — "
                            "a delta of MIN makes sealing fail or the multiplier jump" % (st.expr[1], ", ".join(show(o, 60) for o in st.operands)), st.where())
    # wrap-around arithmetic spelled out: wrapping_* / overflowing_* on a multiplier-derived value ("never wraps" is the clause)
    for bi, e in q.all_call_exprs(mv):
        nm = e[1].split("::")[-1] if e[0] == "call" else ""
        if (nm.startswith("wrapping_") or nm.startswith("overflowing_")) and any(q.contains(a, fm_pred) for a in e[2]):
            n += 1
            r.violation("wrapping/%s" % nm, "%s on a multiplier-derived value: the multiplier wraps around instead of stopping at the end of its range (%s)" % (nm, show(e, 160)), mv.where(bi))
    # an assertion about the multiplier on the sealing path turns a vote the rule permits (or forbids) into an abort of `seal`: the step is specified
    # as a saturating, clamped movement — there is no input for which sealing may fail because of it
    hosts = [b for b in (ctx.prog.body("melstf::state::UnsealedState::seal"), ctx.prog.body("melstf::state::UnsealedState::apply_proposer_action"), mv) if b is not None]
    for st in panics.inventory(ctx.prog, [x for h_ in hosts for x in ctx.prog.all_nested(h_)]):
        if st.kind == "panic" and any(q.contains(o, fm_pred) for o in st.operands):
            n += 1
            r.violation("abort/%s" % st.body.nname.split("::")[-1], "sealing panics unless %s: the multiplier step is specified for every vote and every multiplier (with the floor of 2 after TIP-901 a step may exceed fm>>7), "
                        "so this assertion makes some permitted votes abort the block" % ", ".join(show(o, 140) for o in st.operands), st.where())
    if n == 0:
        r.ok("no-wrap", "no lossy cast, no overflow assertion and no panic condition on the multiplier path")


def shared(ctx):
    """the floor of 2 on the step applies from TIP-901: seal must hand tip_901() to the step, and tip_901 must test TIP_901_HEIGHT (C06.R5)"""
    from rules.engine import core
    from rules.props import c06
    core.import_rules(ctx, [c06.r5_activation_table], "X06")


RULES = [r1_confinement, r2_formula, r3_no_wrap, shared]
