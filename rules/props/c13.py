"""C13 — staked SYM is locked for the life of the stake; voting power follows the stakes."""
from rules.engine import mir, q
from rules.engine.mir import show
from rules.engine.q import sig, force
from rules.engine.sccp import V

EXPLANATION = (
    "R1 stake_is_consistent is exactly the conjunction e_start > current epoch ∧ e_post_end > e_start ∧ syms_staked == first output's value "
    "(each atom necessary, together sufficient, no other atom necessary: forced constant propagation on the predicate body). "
    "R2 registration gates in load_stake_info: undecodable data, a missing first output, a non-SYM first output force Err(MalformedTx); the insert into the new-stake map "
    "is unreachable when the consistency predicate is false; predicate arguments are the decoded doc, this.height.epoch() and outputs[0]; the legacy exemption is confined to "
    "Mainnet/Testnet below height 500000. R3 lock gate in check_tx_validity: an input whose creating transaction is a registered or newly registered stake forces "
    "Err(CoinLocked) before script validation (legacy exemption confined to Mainnet/Testnet below 900000). R4 expiry: next_unsealed calls "
    "stakes.unlock_old(new_height / STAKE_EPOCH) after the height increment on every path. R5 epoch filters: unlock_old retains e_post_end >= epoch; votes / total_votes "
    "filter e_start <= epoch < e_post_end (∧ pubkey == key) and sum syms_staked. R6 new stakes are added, all of them, only after create_next_state succeeded."
    " R1/R2 read the roles (doc, epoch, coin) of stake_is_consistent off its call site (parameter order is a spelling); R5 accepts `.sum()` or a fold with an addition step; R6 accepts the per-stake step as a `for` loop or as a for_each closure."
    " Shared: C07.R6 (every registered stake gets its leaf in the committed tree, none skipped) and C07.R1 (stakes_hash is that tree's root)."
    " R3 `unstaked/passes`: an input that belongs to no stake is never refused as locked. R3f: the batch's new stakes (load_stake_info) reach check_tx_validity, read off the call site. Shared: C01.R10."
)
NOT_DECIDED = ["that a genuinely expired stake's coin is spendable again over a whole history (follows from R3+R4+R5, not separately shown)",
               "the legacy-window exemptions contradict the property for historical heights by design; the rules confine them, they do not remove them"]
ASSUMPTIONS = ["BlockHeight::epoch(h) = h / STAKE_EPOCH (melstructs 0.3.3)"]

LSI = "melstf::state::applytx::load_stake_info"
CTV = "melstf::state::applytx::check_tx_validity"


def r1_consistency(ctx):
    r = ctx.rule("R1", "stake_is_consistent(doc, epoch, coin) ⇔ doc.e_start > epoch ∧ doc.e_post_end > doc.e_start ∧ doc.syms_staked == coin.value")
    b = ctx.body("melstf::state::applytx::stake_is_consistent", r)
    D, E, C = _consistent_roles(ctx)
    q.check_conjunction(r, "consistent", b, ["Lt($%d, $%d.e_start)" % (E, D), "Lt($%d.e_start, $%d.e_post_end)" % (D, D), "Eq(%s, %s)" % tuple(sorted(["$%d.syms_staked" % D, "$%d.value" % C]))])
    b2 = ctx.body("melstf::state::applytx::coin_is_denom", r)
    q.check_conjunction(r, "coin_is_denom", b2, ["Eq($1.denom, $2)"])


_EL = "elem($2)"
_DOC = "try(stdcode::deserialize(%s.data))" % _EL
_COIN = "try(core::slice::<impl [T]>::get(%s.outputs, 0))" % _EL
_EPOCH = "BlockHeight::epoch($1.height)"


def _consistent_roles(ctx):
    """parameter positions of (doc, epoch, coin) in stake_is_consistent, read off its one call site in load_stake_info (the three
    have distinct types, so the order of the parameters is a spelling).  Default (1, 2, 3) when the call site does not pass exactly these three."""
    try:
        body = ctx.prog.body(LSI)
    except Exception:
        body = None
    if body is not None:
        els = ["elem(%s)" % sig(l[3]) for l in q.loop_with_source(body, lambda s_: True) if sig(l[3]) == "$2" or _filter_of(l[3], "$2")] or [_EL]
        doc, coin = _DOC.replace(_EL, els[0]), _COIN.replace(_EL, els[0])
        for bi, e in q.call_exprs(body, "stake_is_consistent"):
            got = [sig(a) for a in e[2]]
            if sorted(got) == sorted([doc, _EPOCH, coin]):
                return got.index(doc) + 1, got.index(_EPOCH) + 1, got.index(coin) + 1
    return 1, 2, 3


def _filter_of(src, srcsig):
    """the closure of `src.filter(|x| ..)` when the loop source is a filtered view of srcsig"""
    s0 = mir.strip(src)
    if q.is_call(s0, "Iterator::filter") and len(s0[2]) == 2 and sig(mir.strip(s0[2][0])) == srcsig and s0[2][1][0] == "closure":
        return s0[2][1][1]
    return None


def _loop(ctx, r, body, srcsig):
    loops = [l for l in q.loop_with_source(body, lambda s: True) if sig(l[3]) == srcsig or _filter_of(l[3], srcsig)]
    r.anchor(loops, "loop over %s in %s" % (srcsig, body.nname.split("::")[-1]))
    return loops[0]


def _legacy_atoms(body, limit):
    """atoms of the legacy exemption: network == Mainnet / Testnet, height < limit"""
    out = {}
    M = ("Eq($1.network, NetID::Mainnet{})", "Eq(NetID::Mainnet{}, $1.network)")
    T = ("Eq($1.network, NetID::Testnet{})", "Eq(NetID::Testnet{}, $1.network)")
    want = lambda c: c in M or c in T or c.startswith("Lt($1.height.0, ")
    for e, c, bi in q.pick_atoms(body, want):           # either polarity of each test (`net != Mainnet`, `height >= limit`, matches!)
        if c in ("Eq($1.network, NetID::Mainnet{})", "Eq(NetID::Mainnet{}, $1.network)"):
            out.setdefault("mainnet", []).append(e)
        elif c in ("Eq($1.network, NetID::Testnet{})", "Eq(NetID::Testnet{}, $1.network)"):
            out.setdefault("testnet", []).append(e)
        elif c.startswith("Lt($1.height.0, ") or c.startswith("Le($1.height.0, "):
            out.setdefault("height", []).append((e, c))
        elif "network" in c or "height" in c:
            out.setdefault("other", []).append((e, c))
    return out


def r2_registration(ctx):
    r = ctx.rule("R2", "load_stake_info: a Stake tx is registered only if data decodes, outputs[0] exists and is SYM, and stake_is_consistent(doc, this.height.epoch(), outputs[0]); legacy exemption ⊆ {Mainnet,Testnet} ∧ height < 500000")
    body = ctx.body(LSI, r)
    h, blocks, latches, src = _loop(ctx, r, body, "$2")
    EL = "elem(%s)" % sig(src)
    fclosure = _filter_of(src, "$2")
    regs = [(bi, e) for bi, e in q.call_exprs(body, "HashMap::insert") if bi in blocks]
    r.check(len(regs) == 1, "register/one", "one registration site", "%d registration sites" % len(regs))
    if not regs:
        return
    rb, re_ = regs[0]
    # every member of the batch is looked at: the loop is left towards Ok only when the batch is exhausted (the header's own exit).  A `break` on some transaction
    # leaves the staking transactions after it unregistered — what is registered then depends on the order of the batch
    oks_ = [bb for bb, e_ in q.result_blocks(body)["Ok"]]
    early = []
    for x in sorted(blocks):
        if x == h or x in body.succs(h):
            continue            # the iterator's own end: `next()` in the header, the switch on its result right behind it
        for s_ in body.succs(x):
            if s_ not in blocks and any(o in body.reachable(s_) for o in oks_):
                early.append(x)
    r.check(not early, "every-tx/no-early-exit", "the scan ends only when the batch is exhausted (or with an error)", "the scan over the batch can be left early towards Ok (from bb%s): staking transactions after that point are not registered" % early,
            body.where(early[0]) if early else None)
    DOC = "try(stdcode::deserialize(%s.data))" % EL
    COIN = "try(core::slice::<impl [T]>::get(%s.outputs, 0))" % EL
    r.check(sig(re_[2][1]) == "Transaction::hash_nosigs(%s)" % EL, "register/key", "key = tx.hash_nosigs()", "key = %s" % sig(re_[2][1]), body.where(rb))
    r.check(sig(re_[2][2]) == DOC, "register/value", "value = the decoded StakeDoc", "value = %s" % sig(re_[2][2]), body.where(rb))
    # kind atom
    KS = ("Eq(%s.kind, TxKind::Stake{})" % EL, "Eq(TxKind::Stake{}, %s.kind)" % EL)
    kinds = [e for e, c, bi in q.pick_atoms(body, lambda c: c in KS) if c in KS]        # `kind == Stake {..}` or `kind != Stake {continue}` or matches!
    if fclosure and not kinds:
        # `for tx in txx.iter().filter(|tx| tx.kind == Stake)`: the kind test is the filter's predicate
        fc = ctx.prog.body(fclosure)
        okf = fc is not None and q.check_conjunction(r, "kind/filter", fc, ["Eq($2.kind, TxKind::Stake{})"], body.where(h))
        if okf:
            r.ok("kind", "only Stake transactions are considered (filter predicate)", body.where(h))
        else:
            r.undecided("kind", "the loop ranges over a filtered batch whose predicate is not exactly kind == Stake", body.where(h))
    else:
        r.check(bool(kinds), "kind", "only Stake transactions are considered", "no kind == Stake test")
    if kinds:
        f = force(body, {kinds[0]: 0})
        r.check(rb not in f.reach, "kind/necessary", "non-Stake transactions are never registered", "a non-Stake transaction can be registered", body.where(rb))
    # consistency predicate
    cons = q.call_exprs(body, "stake_is_consistent")
    r.check(len(cons) == 1, "consistent/call", "stake_is_consistent is evaluated", "%d calls of stake_is_consistent" % len(cons))
    for bi, e in cons:
        want = [DOC, "BlockHeight::epoch($1.height)", COIN]
        got = [sig(a) for a in e[2]]
        # the three arguments have distinct types: their order follows the callee's parameter order, which R1 reads off this call
        r.check(sorted(got) == sorted(want), "consistent/args", "stake_is_consistent(doc, this.height.epoch(), outputs[0])", "stake_is_consistent(%s)" % ", ".join(got), body.where(bi))
        f = force(body, {e: 0})
        r.check(rb not in f.reach, "consistent/false=>unregistered", "an inconsistent stake is not registered", "an inconsistent stake reaches the registration", body.where(bi))
    # SYM check
    den = q.call_exprs(body, "coin_is_denom")
    if not den:
        # the helper written out at its only use: `first_coin.denom == Denom::Sym` (either polarity)
        WANT_ = ("Eq(%s.denom, Denom::Sym{})" % COIN, "Eq(Denom::Sym{}, %s.denom)" % COIN)
        ats_ = [a_ for a_ in q.pick_atoms(body, lambda c_: c_ in WANT_) if a_[1] in WANT_]
        if ats_:
            r.ok("sym/call", "the first output's denomination is compared with SYM in place")
            f = force(body, {ats_[0][0]: 0})
            after = f.reach_from(ats_[0][2])
            r.check(rb not in after and not any(l in after for l in latches), "sym/false=>err", "a non-SYM first output cannot be registered nor skipped (Err)",
                    "with a non-SYM first output the loop continues or registers", body.where(ats_[0][2]))
        else:
            r.violation("sym/call", "the first output's denomination is not tested")
    else:
        r.ok("sym/call", "the first output's denomination is tested")
    for bi, e in den:
        got = [sig(a) for a in e[2]]
        r.check(got == [COIN, "Denom::Sym{}"], "sym/args", "coin_is_denom(outputs[0], Sym)", "coin_is_denom(%s)" % ", ".join(got), body.where(bi))
        f = force(body, {e: 0})
        after = f.reach_from(bi)
        r.check(rb not in after and not any(l in after for l in latches), "sym/false=>err", "a non-SYM first output cannot be registered nor skipped (Err)",
                "with a non-SYM first output the loop continues or registers", body.where(bi))
    # decode failure / missing output
    for nm, pred in (("decode", lambda e: q.is_call(e, "stdcode::deserialize")), ("first-output", lambda e: q.is_call(e, "get") and sig(e).endswith(".outputs, 0)"))):
        sites = [(bi, e) for bi, e in q.all_call_exprs(body) if pred(e) and bi in blocks]
        r.check(len(sites) >= 1, nm + "/present", "%s is attempted" % nm, "%s is never attempted" % nm)
        for bi, e in sites:
            f = force(body, {e: (V(1) if nm == "decode" else V(0))})
            after = f.reach_from(bi)
            r.check(rb not in after and not any(l in after for l in latches), nm + "/fail=>err", "a failed %s leaves the loop with an error" % nm,
                    "after a failed %s the loop continues or registers" % nm, body.where(bi))
    # legacy exemption
    la = _legacy_atoms(body, 500000)
    hs = la.get("height", [])
    r.check([c for e, c in hs] == ["Lt($1.height.0, 500000)"], "legacy/height", "legacy window: height < 500000", "legacy height atoms: %s" % [c for e, c in hs])
    r.check(not la.get("other"), "legacy/no-other", "no other network/height condition", "unexpected conditions %s" % [c for e, c in la.get("other", [])])
    dec_blocks = [bi for bi, e in q.all_call_exprs(body) if q.is_call(e, "stdcode::deserialize")]
    stake_true = None
    for cases, label in (({"mainnet": 0, "testnet": 0}, "other-networks"), ({"height": 0}, "height>=500000")):
        tbl = {}
        if kinds:
            tbl[kinds[0]] = 1
        for k, v in cases.items():
            for a in la.get(k, []):
                tbl[a[0] if isinstance(a, tuple) and k == "height" else a] = v
        f = force(body, tbl)
        # every latch reached must have passed the decode (or the registration site)
        reach_wo = f.reach_from(h, avoid=dec_blocks)
        # the header itself is a latch target; look at latches reachable from the loop body entry without decoding
        bad = [l for l in latches if l in reach_wo and _passes_kind_true(body, f, kinds, l, dec_blocks, h)]
        r.check(not bad, "legacy/confined/" + label, "on %s every Stake tx goes through the checks" % label,
                "on %s a Stake transaction can skip the checks (latch bb%s reachable without decoding)" % (label, bad), body.where(h))


def _passes_kind_true(body, f, kinds, latch, dec_blocks, header):
    """is the latch reachable from the kind==Stake true edge without decoding"""
    if not kinds:
        return True
    # find the switch on the kind atom
    for bi, t in body.iter_terms("switch"):
        if body.rec_operand(t["discr"], bi, "T") == kinds[0]:
            true_succ = t["otherwise"]
            sub = f.reach_from(true_succ, avoid=dec_blocks)
            return latch in sub
    return True


def r3_lock_gate(ctx):
    r = ctx.rule("R3", "check_tx_validity: input of a (newly) registered stake ⇒ Err(CoinLocked), before script validation; legacy exemption ⊆ {Mainnet,Testnet} ∧ height < 900000")
    body = ctx.body(CTV, r)
    h, blocks, latches, src = _loop(ctx, r, body, "Iterator::enumerate($2.inputs)")
    COIN = "elem(Iterator::enumerate($2.inputs)).1"
    a_new = [(bi, e) for bi, e in q.call_exprs(body, "HashMap::contains_key") if sig(e) == "HashMap::contains_key($4, %s.txhash)" % COIN]
    a_old = [(bi, e) for bi, e in q.call_exprs(body, "Option::is_some") if sig(e) == "Option::is_some(StakeSet::get_stake($1.stakes, %s.txhash))" % COIN]
    r.check(bool(a_new), "new-stakes/test", "inputs are tested against the batch's new stakes", "no test of the input against new_stakes (a stake made in this batch is spendable in it)")
    r.check(bool(a_old), "stakes/test", "inputs are tested against the registered stakes", "no test of the input against the registered stakes")
    la = _legacy_atoms(body, 900000)
    hs = la.get("height", [])
    r.check([c for e, c in hs] == ["Lt($1.height.0, 900000)"], "legacy/height", "legacy window: height < 900000", "legacy height atoms: %s" % [c for e, c in hs])
    r.check(not la.get("other"), "legacy/no-other", "no other network/height condition", "unexpected conditions %s" % [c for e, c in la.get("other", [])])
    val = [bi for bi, e in q.call_exprs(body, "validate_tx_scripts")]
    for label, lock_tbl, start in (("new", {e: 1 for bi, e in a_new}, a_new), ("old", dict([(e, 0) for bi, e in a_new] + [(e, 1) for bi, e in a_old]), a_old)):
        if not start:
            continue
        for cases, clabel in (({"mainnet": 0, "testnet": 0}, "other-networks"), ({"height": 0}, "height>=900000")):
            tbl = dict(lock_tbl)
            for k, v in cases.items():
                for a in la.get(k, []):
                    tbl[a[0] if k == "height" else a] = v
            f = force(body, tbl)
            after = f.reach_from(q.loop_entry(body, h, blocks))
            bad = [x for x in latches + val if x in after]
            r.check(not bad, "locked/%s/%s" % (label, clabel), "a %s-stake input on %s cannot pass (Err(CoinLocked))" % (label, clabel),
                    "a %s-stake input on %s still reaches bb%s (validation/next input)" % (label, clabel, bad), body.where(start[0][0]))
    # the other direction ("unlocked again once the stake has expired", and never locked without a stake): a coin that belongs to no stake is not refused
    if a_new and a_old:
        errs_ = q.err_blocks(body, "CoinLocked")
        f = force(body, dict([(e, 0) for bi, e in a_new] + [(e, 0) for bi, e in a_old]))
        after = f.reach_from(q.loop_entry(body, h, blocks))
        bad = [x for x in errs_ if x in after]
        r.check(not bad, "unstaked/passes", "an input that belongs to no stake is never refused as locked", "an input that belongs to neither a registered nor a new stake can still be refused with CoinLocked", body.where(a_new[0][0]))
    # gate before script validation
    for v in val:
        ok = all(body.dominates(bi, v) for bi, e in a_new)
        r.check(ok, "before-scripts", "the lock test dominates script validation", "script validation is not dominated by the lock test", body.where(v))
    errs = q.err_blocks(body, "CoinLocked")
    r.check(bool(errs), "err-variant", "Err(CoinLocked) exists", "no Err(CoinLocked) result")
    # get_stake is a lookup by txhash
    gs = ctx.body("tip911_stakeset::StakeSet::get_stake", r)
    rr = q.ret_assignments(gs)
    r.check(rr and sig(rr[0][2]) == "HashMap::get($1.stakes, $2)", "get_stake", "get_stake = stakes.get(txhash)", "get_stake returns %s" % (sig(rr[0][2]) if rr else "?"))


def r3_new_stakes_flow(ctx):
    """the stakes registered by the batch itself reach the lock gate: read off the call site, whatever the parameter list of check_tx_validity is"""
    r = ctx.rule("R3f", "apply_tx_batch_impl hands the stakes made in this batch (load_stake_info(this, txx)?) to check_tx_validity: a coin staked in the batch cannot be spent in it", positional=False)
    impl = ctx.body("melstf::state::applytx::apply_tx_batch_impl", r)
    sites = []
    for b in [impl] + [n for c in ctx.prog.closures_of(impl) for n in ctx.prog.all_nested(c)]:
        caps = q.closure_captures(impl, b.nname) if b is not impl else {}
        for bi, e in q.call_exprs(b, "check_tx_validity"):
            args = [sig(q.subst(a, {}, caps)) if caps else sig(a) for a in e[2]]
            sites.append((b, bi, args))
    if not sites:
        r.undecided("new-stakes/flow", "no direct call of check_tx_validity from apply_tx_batch_impl or its closures")
        return
    for b, bi, args in sites:
        if any("load_stake_info(" in a for a in args):
            r.ok("new-stakes/flow", "validation receives load_stake_info(this, txx)?")
        elif any("add_stake" in a or "StakeSet" in a or "stakes" in a.replace("$1.stakes", "") for a in args) or q.calls_to(ctx.prog.body(CTV), "load_stake_info"):
            r.undecided("new-stakes/flow", "the batch's stakes may reach validation another way: arguments %s" % args, b.where(bi))
        else:
            r.violation("new-stakes/flow", "check_tx_validity is called with %s: nothing derived from load_stake_info — a coin staked by one transaction of the batch can be spent by another (the stake is registered, its SYM is gone)" % args, b.where(bi))


def r4_expiry(ctx):
    r = ctx.rule("R4", "next_unsealed: stakes.unlock_old((new.height / STAKE_EPOCH).0) after height += 1, on every path")
    body = ctx.body("melstf::state::SealedState::next_unsealed", r)
    sites = q.call_exprs(body, "StakeSet::unlock_old")
    r.check(len(sites) == 1, "call", "unlock_old is called once", "unlock_old is called %d times" % len(sites))
    incs = [bi for bi, e in q.call_exprs(body, "add_assign") if sig(e[2][0]).endswith(".height")]
    for bi, e in sites:
        reach = body.reachable(0, removed=[bi])
        r.check(not any(b in reach for b in body.return_blocks()), "every-path", "on every path", "a path skips unlock_old", body.where(bi))
        arg = q.novers(e[2][1])
        s = sig(arg)
        r.check(s in ("<melstructs::BlockHeight as std::ops::Div<__RhsT>>::div(new.height, STAKE_EPOCH).0", "BlockHeight::epoch(new.height)", "Div(new.height.0, STAKE_EPOCH)"),
                "arg", "epoch argument = new.height / STAKE_EPOCH", "epoch argument = %s" % s, body.where(bi))
        r.check(sig(q.novers(e[2][0])) == "new.stakes", "receiver", "on new.stakes", "on %s" % sig(e[2][0]), body.where(bi))
        r.check(bool(incs) and all(body.dominates(i, bi) and i != bi for i in incs), "after-increment", "evaluated after height += 1",
                "unlock_old is not dominated by the height increment (uses the old height)", body.where(bi))


def r5_epoch_filters(ctx):
    r = ctx.rule("R5", "unlock_old retains e_post_end >= epoch; total_votes sums syms_staked over e_start <= epoch < e_post_end; votes additionally pubkey == key")
    prog = ctx.prog
    spec = {
        "unlock_old": (["Le(^epoch, $3.e_post_end)"], "HashMap::retain($1.stakes, closure[epoch=$2])", None),
        "total_votes": (["Le($2.e_start, ^epoch)", "Lt(^epoch, $2.e_post_end)"], None, "$2.syms_staked.0"),
        "votes": (["Le($2.e_start, ^epoch)", "Lt(^epoch, $2.e_post_end)", "Eq($2.pubkey, ^key)"], None, "$2.syms_staked.0"),
    }
    import re as _re

    def generic(c):
        """atom with the stake document / epoch / key named by role rather than by position: `$2.e_start`, `elem(values(..)).e_start` → @.e_start"""
        c = _re.sub(r"(\$\d|elem\([^()]*(\([^()]*\))*[^()]*\)(\.1)?)\.(e_start|e_post_end|pubkey|syms_staked)", r"@.\4", c)
        c = _re.sub(r"\^epoch|\^key", lambda m: m.group(0)[1:].upper(), c)
        return c

    def eqsort(c):
        m = _re.match(r"(Eq|Ne)\((.*), (.*)\)$", c)
        if m and m.group(3) < m.group(2):
            return "%s(%s, %s)" % (m.group(1), m.group(3), m.group(2))
        return c
    for fn, (atoms, whole, term) in spec.items():
        b = ctx.body("tip911_stakeset::StakeSet::" + fn, r)
        cl = prog.closures_of(b)
        nested = prog.all_nested(b)
        # role names of the parameters in the function itself ($2 = epoch, $3 = key) for the loop spelling
        def roles(c, body):
            c = generic(c)
            if body is b:
                c = c.replace("$2", "EPOCH").replace("$3", "KEY")
            return eqsort(c)
        want = [eqsort(generic(x)) for x in atoms]
        found = {}          # generic expected atom -> (body, expr)
        seen_pairs = {}     # frozenset of operands -> [generic canon as spelled]
        for body in nested:
            for e, c, bi in q.pick_atoms(body, lambda c, body=body: roles(c, body) in want):
                g = roles(c, body)
                if g in want:
                    found.setdefault(g, (body, e))
                m = _re.match(r"(\w+)\((.*), (.*)\)$", g)
                if m:
                    seen_pairs.setdefault(frozenset((m.group(2), m.group(3))), []).append(g)
        missing = [w for w in want if w not in found]
        for w in missing:
            m = _re.match(r"(\w+)\((.*), (.*)\)$", w)
            other = seen_pairs.get(frozenset((m.group(2), m.group(3))), []) if m else []
            orig = atoms[want.index(w)]
            if other:
                r.violation(fn + "/filter/missing:" + orig, "%s compares these operands as %s where the rule is %s: the boundary epoch is treated differently" % (fn, sorted(set(other)), w))
                r.violation(fn + "/filter/extra:" + sorted(set(other))[0].replace("@", "$2" if fn != "unlock_old" else "$3").replace("EPOCH", "^epoch").replace("KEY", "^key"),
                            "an additional / different condition %s is applied (expected exactly %s)" % (sorted(set(other)), atoms))
            else:
                # one of the two operands IS compared with something this rule cannot resolve to the other (a value passed through an enum payload,
                # a struct field, a helper's parameter): the condition may well be there in another spelling — not decided
                ops_ = [m.group(2), m.group(3)] if m else []
                partial = [c_ for body in nested for e_, c_, bi_ in q.cmp_atoms(body) if any(o_ in generic(c_) for o_ in ops_ if o_.startswith("@."))]
                if partial:
                    r.undecided(fn + "/filter/missing:" + orig, "%s does not evaluate %s in a recognised form, but compares %s: not decided" % (fn, orig, sorted(set(partial))[:2]))
                else:
                    r.violation(fn + "/filter/missing:" + orig, "the condition %s is not evaluated anywhere in %s" % (orig, fn))
        if missing:
            continue
        bool_cl = [c for c in cl if c.locals[0]["ty"] == "bool" and all(any(roles(cc, c) == w for e_, cc, b_ in q.pick_atoms(c, lambda c_, c=c: roles(c_, c) in want)) for w in want)]
        if not bool_cl:
            r.undecided(fn + "/filter/shape", "the atoms %s are all evaluated in %s, but not as one bool-returning filter closure (loop / filter_map spelling): exact conjunction not decided" % (atoms, fn),
                        "%s:%s" % (b.file, b.line))
            continue
        r.ok(fn + "/closure", "filter closure present")
        q.check_conjunction(r, fn + "/filter", bool_cl[0], atoms)
        rr = q.ret_assignments(b)
        if fn == "unlock_old":
            calls = q.call_exprs(b, "retain")
            r.check(len(calls) == 1 and sig(calls[0][1]) == whole, fn + "/retain", "stakes.retain(filter)", "unlock_old does %s" % [sig(c[1]) for c in calls])
            # the filter is applied whenever unlock_old is called: a shortcut that returns without it (a cached "nothing can expire yet") keeps an expired stake — its
            # coin stays locked, it stays in stakes_hash — for as long as the shortcut's bookkeeping is off by one
            if calls:
                wo = b.reachable(0, removed=[c_[0] for c_ in calls])
                r.check(not any(x in wo for x in b.return_blocks()), fn + "/every-call", "every call of unlock_old applies the expiry filter",
                        "unlock_old can return without applying the expiry filter (an early return / cached bound): an expired stake is then kept", b.where(calls[0][0]))
        else:
            s_ = sig(rr[0][2]) if rr else "?"
            caps = "epoch=$2" if fn == "total_votes" else "epoch=$2, key=$3"
            want_s = "Iterator::sum(Iterator::map(Iterator::filter(HashMap::values($1.stakes), closure[%s]), closure[]))" % caps
            # `.sum()` or a fold from 0 with an addition step (`|a, b| a.saturating_add(b)`): the same summation
            batch = "Iterator::filter(HashMap::values($1.stakes), closure[%s])" % caps
            term_s = q.sum_over(ctx.prog, b, rr[0][2], batch) if rr else None
            if s_ == want_s or term_s is not None:
                r.ok(fn + "/shape", "sum(map(filter(all stakes)))")
                e0 = mir.strip(rr[0][2])
                mapc = mir.strip(mir.strip(e0[2][0])[2][1]) if e0[0] == "call" and e0[2] and q.is_call(mir.strip(e0[2][0]), "Iterator::map") else None
                others = [c for c in cl if mapc is not None and mapc[0] == "closure" and c.nname == mapc[1]] or [c for c in cl if c is not bool_cl[0]]
                if others:
                    r2 = q.ret_assignments(others[0])
                    s2 = sig(r2[0][2]) if r2 else "?"
                    r.check(s2 in (term, term[:-2]), fn + "/term", "each term = syms_staked", "each term = %s" % s2)
            else:
                r.undecided(fn + "/shape", "%s returns %s: not the sum(map(filter(..))) spelling, summation not decided" % (fn, s_[:160]))


def r6_stakes_after_success(ctx):
    r = ctx.rule("R6", "apply_tx_batch_impl adds every new stake to the next state, only after create_next_state(..)? succeeded; add_stake inserts by txhash")
    body = ctx.body("melstf::state::applytx::apply_tx_batch_impl", r)
    adds = q.call_exprs(body, "StakeSet::add_stake")
    cns = q.call_exprs(body, "create_next_state")
    r.anchor(cns, "call of create_next_state")
    if not adds:
        # `new_stakes.into_iter().for_each(|(k, v)| next_state.stakes.add_stake(k, v))`: the per-stake step is a closure
        SRC0 = "try(applytx::load_stake_info($1, $2))"
        fe = [(bi, e) for bi, e in q.call_exprs(body, "for_each") if len(e[2]) == 2 and sig(e[2][0]) == SRC0 and e[2][1][0] == "closure"]
        if len(fe) == 1:
            bi, e = fe[0]
            c = ctx.prog.body(e[2][1][1])
            caps = q.closure_captures(body, e[2][1][1])
            cadds = q.call_exprs(c, "StakeSet::add_stake")
            r.check(len(cadds) == 1, "add/one", "one add_stake site (in the per-stake closure)", "%d add_stake sites in the closure" % len(cadds))
            for cb, ce in cadds:
                got = [sig(q.novers(q.subst(a_, {}, caps))) for a_ in ce[2]]
                r.check(got == ["next_state.stakes", "$2.0", "$2.1"], "add/args", "add_stake(next_state.stakes, k, v) for every new stake", "add_stake(%s)" % ", ".join(got), c.where(cb))
                wo = c.reachable(0, removed=[cb])
                r.check(not any(x in wo for x in c.return_blocks()), "add/every-stake", "every new stake is added", "a new stake can be skipped", c.where(cb))
            f = force(body, {cns[0][1]: V(1)})
            r.check(bi not in f.reach, "add/after-success", "unreachable when create_next_state fails", "stakes are added although create_next_state failed", body.where(bi))
            r.check(body.dominates(cns[0][0], bi), "add/order", "create_next_state dominates the stake loop", "the stakes are added before create_next_state", body.where(bi))
            oks_ = [b_ for b_, e_ in q.result_blocks(body)["Ok"]]
            r.check(all(body.dominates(bi, o_) for o_ in oks_), "add/all-before-ok", "Ok only after the for_each", "Ok reachable without the stake for_each", body.where(bi))
            r.ok("add/loop", "for_each over the whole new-stake map")
            ad = ctx.body("tip911_stakeset::StakeSet::add_stake", r)
            ins = q.call_exprs(ad, "HashMap::insert")
            r.check(len(ins) == 1 and sig(ins[0][1]) == "HashMap::insert($1.stakes, $2, $3)", "add_stake/def", "add_stake = stakes.insert(txhash, doc)", "add_stake does %s" % [sig(i[1]) for i in ins])
            return
    r.check(len(adds) == 1, "add/one", "one add_stake site", "%d add_stake sites" % len(adds))
    for bi, e in adds:
        SRC = "try(applytx::load_stake_info($1, $2))"
        got = [sig(q.novers(a)) for a in e[2]]
        r.check(got == ["next_state.stakes", "elem(%s).0" % SRC, "elem(%s).1" % SRC], "add/args", "add_stake(next_state.stakes, k, v) over all new stakes",
                "add_stake(%s)" % ", ".join(got), body.where(bi))
        f = force(body, {cns[0][1]: V(1)})
        r.check(bi not in f.reach, "add/after-success", "unreachable when create_next_state fails", "stakes are added although create_next_state failed", body.where(bi))
        r.check(body.dominates(cns[0][0], bi), "add/order", "create_next_state dominates add_stake", "add_stake is not dominated by create_next_state", body.where(bi))
    loops = [l for l in q.loop_with_source(body, lambda s: True) if sig(l[3]) == "try(applytx::load_stake_info($1, $2))"]
    r.check(len(loops) == 1, "add/loop", "loop over the whole new-stake map", "no loop over the whole new-stake map")
    ok_blocks = [b for b, e in q.result_blocks(body)["Ok"]]
    for l in loops:
        exits = [(x, s) for x in l[1] for s in body.succs(x) if s not in l[1]]
        exhaust = [(x, s) for (x, s) in exits if x in body.succs(l[0]) or x == l[0]]
        reach = body.reachable(0, removed_edges=exhaust)
        r.check(not any(b in reach for b in ok_blocks), "add/all-before-ok", "Ok only after the loop is exhausted", "Ok reachable without finishing the stake loop", body.where(l[0]))
    ad = ctx.body("tip911_stakeset::StakeSet::add_stake", r)
    ins = q.call_exprs(ad, "HashMap::insert")
    r.check(len(ins) == 1 and sig(ins[0][1]) == "HashMap::insert($1.stakes, $2, $3)", "add_stake/def", "add_stake = stakes.insert(txhash, doc)", "add_stake does %s" % [sig(i[1]) for i in ins])


def shared(ctx):
    """'the stake commitment in the header reflects exactly the registered, unexpired stakes': the header's stakes_hash is the root of the tree pre_tip911 builds —
    one leaf per registered stake, none skipped (C07.R6) — and is the header field C07.R1 says it is"""
    from rules.engine import core
    from rules.props import c07
    core.import_rules(ctx, [c07.r6_stake_commitment, c07.r1_header_map], "X07")
    from rules.props import c01
    core.import_rules(ctx, [c01.r10_no_wraparound], "X01")     # voting power is a sum of stakes, not a sum modulo 2^128


RULES = [r1_consistency, r2_registration, r3_lock_gate, r3_new_stakes_flow, r4_expiry, r5_epoch_filters, r6_stakes_after_success, shared]
