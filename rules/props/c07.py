"""C07 — headers commit to the whole state and chain together; contents are provable."""
from rules.engine import mir, q
from rules.engine.mir import show
from rules.engine.q import sig, force

EXPLANATION = (
    "R1 header field map: each of the 11 initialisers of the Header aggregate built by SealedState::header has exactly its source "
    "(expression provenance over MIR: network/height/fee_pool/fee_multiplier/dosc_speed from the same-named state field, the four roots "
    "from root_hash() of the matching tree, transactions_hash from transactions_root_hash, previous from hash(history[height-1]) or default). "
    "R2 chain step in next_unsealed: history.insert(self.height, self.header()) and height += 1 on every path, on a clone of the sealed state. "
    "R3 network is never written after construction (field-write inventory). R4 typed-SMT key agreement: get/get_with_proof/insert/delete "
    "derive the tree key identically and get deserialises what insert serialised. R5 both transaction commitments range over the whole ordered set "
    "(and the dense tree is built from a sorted vector). R6 the stake commitment ranges over all stakes with key hash(stdcode(txhash)), value stdcode(doc)."
    " R2 also requires next_unsealed to empty the transaction set on every path. R4b: an empty stored value reads as None and only an empty one does. Imports C03.R1 (nothing that reaches a tree takes its order from a hash map)."
    ' Imports C20.R3 (the count flag of every insertion / removal is tip_906 of the owning state).'
)
NOT_DECIDED = ["that Merkle proofs verify and that equal contents give equal roots (novasmt / hash properties, trusted base)",
               "collision resistance of blake3/tmelcrypt hashing"]
ASSUMPTIONS = ["novasmt::Tree root is a function of its key/value contents"]


def r1_header_map(ctx):
    r = ctx.rule("R1", "Header{..} built by SealedState::header: every field has its designated source")
    body = ctx.body("melstf::state::SealedState::header", r)
    rets = q.ret_assignments(body)
    r.anchor(rets, "return of header()")
    aggs = [x for x in rets if mir.strip(x[2])[0] == "agg" and mir.strip(x[2])[1] == "melstructs::Header"]
    r.floor("Header aggregates", len(aggs), 1)
    fields = ctx.prog.adt_fields("melstructs::Header")
    r.floor("Header fields", len(fields or []), 11)
    for (bi, si, e) in aggs:
        e = mir.strip(e)
        actual = dict(e[3])
        where = body.where(bi, si)
        # `previous` = hash of the header stored at height − 1, or the default hash at height 0 — spelled with combinators or with a match
        PREV_MATCH = "phi([0; 32] | Header::hash(Option::unwrap(SmtMapping::get($1.0.history, try(core::num::<impl u64>::checked_sub($1.0.height.0, 1))))))"
        PREV_JOIN = "Option::unwrap_or(core::num::<impl u64>::checked_sub($1.0.height.0, 1), [0; 32])"
        PREV_MATCH2 = "phi(Header::hash(Option::unwrap(SmtMapping::get($1.0.history, try(core::num::<impl u64>::checked_sub($1.0.height.0, 1))))) | [0; 32])"
        prev_ok = {"Option::unwrap_or(Option::map(core::num::<impl u64>::checked_sub($1.0.height.0, 1), closure[inner=$1.0]), [0; 32])",
                   "Option::unwrap_or_default(Option::map(core::num::<impl u64>::checked_sub($1.0.height.0, 1), closure[inner=$1.0]))", PREV_MATCH, PREV_MATCH2}
        prev_inline = sig(q.novers(dict(mir.strip(e)[3]).get("previous", ("unknown", "")))) in (PREV_MATCH, PREV_MATCH2)
        table = {
            "network": "$1.0.network", "height": "$1.0.height",
            "fee_pool": "$1.0.fee_pool", "fee_multiplier": "$1.0.fee_multiplier", "dosc_speed": "$1.0.dosc_speed",
            "history_hash": "SmtMapping::root_hash($1.0.history)",
            "coins_hash": {"CoinMapping::root_hash($1.0.coins)", "Tree::root_hash(CoinMapping::inner($1.0.coins))"},
            "transactions_hash": "UnsealedState::transactions_root_hash($1.0)",
            "pools_hash": "SmtMapping::root_hash($1.0.pools)",
            "stakes_hash": "Tree::root_hash(StakeSet::pre_tip911($1.0.stakes))",
            "previous": prev_ok,
        }
        # every field of the ADT must be in the table (a new header field is automatically an obligation)
        for f in fields:
            if f not in table:
                r.violation("field/%s/unmapped" % f, "Header has a field `%s` with no designated source in the rule table" % f, where)
        q.check_table(r, "field", actual, table, where, prog=ctx.prog)
    # the closure computing `previous`
    cl = ctx.prog.closures_of(body)
    if not (aggs and prev_inline):
        r.floor("previous-closure", len(cl), 1)
    for c in cl:
        ctx.analysed(c)
        rr = q.ret_assignments(c)
        s = sig(rr[0][2]) if rr else "?"
        r.check(s == "Header::hash(Option::unwrap(SmtMapping::get(^inner.history, $2)))", "previous/closure",
                "previous = hash(history[height-1])", "previous closure returns %s" % s, "%s:%s" % (c.file, c.line))
    # CoinMapping::root_hash / SmtMapping::root_hash are the tree's root
    for nm, exp in (("melstf::state::coins::CoinMapping::root_hash", "Tree::root_hash($1.inner)"),
                    ("melstf::smtmapping::SmtMapping::root_hash", "Tree::root_hash($1.mapping)")):
        b = ctx.body(nm, r)
        rr = q.ret_assignments(b)
        s = sig(rr[0][2]) if rr else "?"
        r.check(s == exp, "root/" + nm.split("::")[-2], "%s = %s" % (nm.split("::")[-2] + "::root_hash", s), "%s returns %s, expected %s" % (nm, s, exp), "%s:%s" % (b.file, b.line))


def r2_chain_step(ctx):
    r = ctx.rule("R2", "next_unsealed: new = clone of the sealed state; history.insert(self.height, self.header()) and height += 1 on every path")
    body = ctx.body("melstf::state::SealedState::next_unsealed", r)
    rets = q.ret_assignments(body)
    r.anchor(rets, "return of next_unsealed")
    rv = mir.strip(rets[0][2])
    r.check(rv[0] == "var", "returns-var", "returns the variable %s" % sig(rv), "returns %s" % sig(rv))
    if rv[0] != "var":
        return
    name = rv[1]
    defs = q.var_def_exprs(body, name)
    r.check(len(defs) == 1 and sig(defs[0][1]) == "$1.0", "clone", "%s = self.0.clone()" % name, "%s is defined as %s" % (name, [sig(d[1]) for d in defs]))
    retb = body.return_blocks()

    def on_every_path(pred):
        blocks = [bi for bi, t in body.calls() if pred(body.rec_call(t, bi))]
        if not blocks:
            return None, []
        reach = body.reachable(0, removed=blocks)
        return not any(b in reach for b in retb), blocks
    ins_ok, ins_b = on_every_path(lambda e: q.is_call(e, "SmtMapping::insert") and sig(e[2][0]) == name + ".history")
    if ins_ok is None:
        r.violation("history-insert/missing", "next_unsealed never inserts into the history tree")
    else:
        r.check(ins_ok, "history-insert/every-path", "history.insert on every path", "a path to the return skips history.insert", body.where(ins_b[0]))
        for bi in ins_b:
            e = body.rec_call(body.term(bi), bi)
            r.check(sig(e[2][1]) == "$1.0.height", "history-insert/key", "key = self.0.height", "key = %s, expected the sealed state's own height" % sig(e[2][1]), body.where(bi))
            r.check(sig(e[2][2]) == "SealedState::header($1)", "history-insert/value", "value = self.header()", "value = %s" % sig(e[2][2]), body.where(bi))
    # height += 1
    hw = q.stmt_writes(body, "height")
    incs = []
    for w in hw:
        if w[0] == "mutref" and w[4] is not None:
            cb, ct = w[4]
            ce = body.rec_call(ct, cb)
            if mir.callee_name(ct).endswith("add_assign") and q.const_val(ce[2][1]) == 1 and sig(ce[2][0]) == name + ".height":
                incs.append(cb)
            else:
                r.violation("height/other-write", "height is changed by %s" % sig(ce), body.where(cb))
        elif w[0] == "assign":
            nf = q.arith_nf(w[4])
            if nf == q.B("Add", ("field", ("var", name), "height"), q.K(1)):
                incs.append(w[1])
            else:
                r.violation("height/other-write", "height := %s" % sig(w[4]), body.where(w[1], w[2]))
    if not incs:
        r.violation("height/not-incremented", "next_unsealed does not increment the height")
    else:
        reach = body.reachable(0, removed=incs)
        r.check(not any(b in reach for b in retb), "height/every-path", "height += 1 on every path", "a path to the return skips height += 1", body.where(incs[0]))
        r.check(len(incs) == 1, "height/once", "incremented exactly once", "height is incremented %d times" % len(incs), body.where(incs[0]))
    # insert happens before the increment uses self (not new) height: key provenance above covers it
    # the next block starts with an empty transaction set: the clone carries the sealed block's transactions, and a header's transactions_hash commits to
    # "the transactions of this block" — left in place they would be committed (and handed out by to_block) again in every later block
    tw = [w for w in q.stmt_writes(body, "transactions") if w[0] == "assign"]
    empties = [w for w in tw if isinstance(w[4], tuple) and (sig(w[4]).endswith("::default()") or sig(w[4]).endswith("TransactionSet::default()") or "Default>::default" in sig(w[4]) or sig(w[4]) in ("TransactionSet::new()",))]
    others = [w for w in tw if w not in empties]
    if others:
        r.undecided("transactions/reset", "transactions := %s in next_unsealed: not read" % [sig(w[4])[:80] for w in others])
    elif not empties:
        mut = [w for w in q.stmt_writes(body, "transactions") if w[0] != "assign"]
        if mut:
            r.undecided("transactions/reset", "the transaction set is changed through a reference in next_unsealed: not read")
        else:
            r.violation("transactions/reset", "next_unsealed never empties the transaction set of the cloned state: the sealed block's transactions stay in the next block's state, "
                        "are committed again by its header and emitted again by to_block (every honest successor block is then refused by a node that rebuilt its state from the block)")
    else:
        reach = body.reachable(0, removed=[w[1] for w in empties])
        r.check(not any(b in reach for b in retb), "transactions/reset", "transactions := empty on every path", "a path to the return keeps the sealed block's transactions", body.where(empties[0][1]))


def r3_network_write_once(ctx):
    r = ctx.rule("R3", "UnsealedState.network is set only by constructor aggregates (realize, from_block, Clone)")
    ws = q.field_writers(ctx.prog, "melstf::state::UnsealedState", "network")
    r.floor("constructors", len(ws), 3)
    allowed = ("GenesisConfig::realize", "SealedState::from_block", "as std::clone::Clone>::clone")
    for b, recs in sorted(ws.items(), key=lambda kv: kv[0].nname):
        ctx.analysed(b)
        for k in sorted({x[0] for x in recs}):
            ok = k == "agg" and any(b.nname.endswith(a) for a in allowed)
            r.check(ok, "writer/%s/%s" % (k, b.nname.split("::")[-1] if ok else b.nname), "%s (%s)" % (b.nname, k),
                    "%s writes the network id (%s)" % (b.nname, k), "%s:%s" % (b.file, b.line))
    # Clone copies every field from the same-named field
    cl = [b for b in ws if b.nname.endswith("as std::clone::Clone>::clone")]
    for b in cl:
        for bi, si, e in q.ret_assignments(b):
            e = mir.strip(e)
            if e[0] == "agg":
                for f, v in e[3]:
                    r.check(sig(v) == "$1." + f, "clone/" + f, "clone copies %s" % f, "Clone sets %s from %s" % (f, sig(v)), b.where(bi, si))


def r4_key_agreement(ctx):
    r = ctx.rule("R4", "SmtMapping::{get,get_with_proof,insert,delete} use key hash_single(stdcode(key)); get decodes what insert encoded")
    KEY = "tmelcrypt::hash_single(StdcodeSerializeExt::stdcode($2)).0"
    spec = {
        "get": ("Tree::get", 1, None), "get_with_proof": ("Tree::get_with_proof", 1, None),
        "insert": ("Tree::insert", 1, "StdcodeSerializeExt::stdcode($3)"),
        "delete": ("Tree::insert", 1, None),
    }
    for m, (callee, kpos, vexp) in spec.items():
        b = ctx.body("melstf::smtmapping::SmtMapping::" + m, r)
        sites = q.calls_to(b, callee)
        r.check(len(sites) >= 1, m + "/tree-call", "%s calls %s" % (m, callee), "%s no longer calls %s" % (m, callee), "%s:%s" % (b.file, b.line))
        for bi, t in sites:
            e = b.rec_call(t, bi)
            r.check(sig(e[2][0]) == "$1.mapping", m + "/tree", "on self.mapping", "on %s" % sig(e[2][0]), b.where(bi))
            r.check(sig(e[2][kpos]) == KEY, m + "/key", "key = hash_single(stdcode(key))", "key = %s, expected %s" % (sig(e[2][kpos]), KEY), b.where(bi))
            if vexp:
                r.check(sig(e[2][2]) == vexp, m + "/value", "value = stdcode(val)", "value = %s" % sig(e[2][2]), b.where(bi))
            if m == "delete":
                v = e[2][2]
                r.check("default" in sig(v) or sig(v) in ('b""', "array()"), m + "/value", "delete writes the empty string", "delete writes %s" % sig(v), b.where(bi))
    # get: Some payload = deserialize(bytes read)
    for m in ("get", "get_with_proof"):
        b = ctx.prog.body("melstf::smtmapping::SmtMapping::" + m)
        des = q.calls_to(b, "stdcode::deserialize")
        r.check(len(des) >= 1, m + "/decode", "%s deserialises the stored bytes" % m, "%s does not deserialise" % m)
        for bi, t in des:
            e = b.rec_call(t, bi)
            s = sig(e[2][0])
            r.check(s.startswith("Tree::get") and KEY in s, m + "/decode-src", "decodes %s" % s[:60], "decodes %s" % s, b.where(bi))


def r4_absent_reads_none(ctx):
    """'absent keys proven absent': a key that was never inserted (or was deleted: the empty string) reads as None — and only such a key does.  The length test
    of the stored bytes is forced to "empty" / "not empty" and the answers are read off."""
    r = ctx.rule("R4b", "SmtMapping::{get,get_with_proof}: empty stored value ⇔ None; a non-empty one is decoded", positional=False)
    for m in ("get", "get_with_proof"):
        b = ctx.body("melstf::smtmapping::SmtMapping::" + m, r)
        ats = [a for a in q.int_switch_atoms(b) + [(e_, c_, bi_) for e_, c_, bi_ in q.pick_atoms(b, lambda c: c.startswith("Eq(0, ")) if c_.startswith("Eq(0, ")] if "len(Tree::get" in a[1] and a[1].startswith("Eq(0, ")]
        emp = [(e_, bi_) for bi_, e_ in q.call_exprs(b, "is_empty") if "Tree::get" in sig(e_)]
        seen_ = set()
        ats = [a for a in ats if not (a[1] in seen_ or seen_.add(a[1]))]
        if not ats and not emp:
            other = [a for a in q.int_switch_atoms(b) if "len(Tree::get" in a[1]]
            if other:
                r.violation(m + "/absent=>none", "%s tests the length of the stored bytes against %s, not against 0: the empty string of an absent key is handed to the decoder (a lookup of an absent key aborts)" % (m, other[0][1][:60]), b.where(other[0][2]))
                continue
        if len(ats) + len(emp) != 1:
            r.undecided(m + "/absent", "%s: the emptiness test of the stored bytes is not read (%d candidates)" % (m, len(ats) + len(emp)))
            continue
        atom = ats[0][0] if ats else emp[0][0]
        des = [bi for bi, t in q.calls_to(b, "stdcode::deserialize")]
        f1 = force(b, {atom: 1})
        f0 = force(b, {atom: 0})
        r.check(not any(d in f1.reach for d in des), m + "/absent=>none", "an empty stored value is not decoded (the key reads as absent)", "%s decodes the empty string of an absent key (stdcode fails on it: a lookup of an absent key aborts)" % m, b.where(des[0]) if des else None)
        r.check(bool(des) and all(b_ in f0.reach for b_ in des), m + "/present=>decoded", "a stored value is decoded", "%s does not decode a non-empty stored value: a present key reads as absent" % m, b.where(des[0]) if des else None)


def r5_tx_commitment(ctx):
    r = ctx.rule("R5", "transactions_root_hash: both branches range over the whole ordered set; dense tree built from the sorted vector; pre-908 key = hash_nosigs(tx)")
    ADAPT = {}
    for nm in ("melstf::state::UnsealedState::transactions_root_hash", "melstf::state::UnsealedState::tip908_transactions"):
        b = ctx.body(nm, r)
        loops = q.loop_with_source(b, lambda s: True)
        srcs = [sig(l[3]) for l in loops]
        short = nm.split("::")[-1]
        adapters = [(bi, e) for bi, e in q.all_call_exprs(b) if e[0] == "call" and e[1].split("::")[-1] in ("for_each", "map") and len(e[2]) == 2
                    and sig(mir.strip(e[2][0])) == "TransactionSet::iter($1.transactions)" and mir.strip(e[2][1])[0] == "closure"]
        if not srcs and len(adapters) == 1:
            # the same traversal spelled with an adapter over the whole set (`.iter().for_each(..)` / `.iter().map(..).collect()`): every element is visited, no early exit
            r.ok(short + "/loop", "%s over self.transactions.iter()" % adapters[0][1][1].split("::")[-1], b.where(adapters[0][0]))
            ADAPT[short] = adapters[0]
            continue
        r.check(srcs == ["TransactionSet::iter($1.transactions)"], short + "/loop", "loops over self.transactions.iter()",
                "loops over %s, expected exactly one loop over the whole of self.transactions" % srcs, "%s:%s" % (b.file, b.line))
        for (h, blocks, latches, src) in loops:
            # no early exit from the loop other than exhaustion: every exit edge leaves from the header
            exits = [(x, s) for x in blocks for s in b.succs(x) if s not in blocks]
            bad = [x for (x, s) in exits if x != h and not _is_header_switch(b, h, x)]
            r.check(not bad, short + "/no-break", "the loop has no early exit", "the loop can exit early from bb%s" % bad, b.where(h))
    # pre-908 insert
    b = ctx.prog.body("melstf::state::UnsealedState::transactions_root_hash")
    ins = q.calls_to(b, "SmtMapping::insert")
    if not ins and "transactions_root_hash" in ADAPT:
        c = ctx.prog.body(mir.strip(ADAPT["transactions_root_hash"][1][2][1])[1])
        cins = [c.rec_call(t, bi) for bi, t in q.calls_to(c, "SmtMapping::insert")]
        r.check(len(cins) == 1 and sig(cins[0][2][1]) == "Transaction::hash_nosigs($2)" and sig(cins[0][2][2]) == "$2", "pre908/kv", "key hash_nosigs(tx) → tx (in the for_each closure)",
                "the for_each closure inserts %s" % [sig(x)[:100] for x in cins], "%s:%s" % (c.file, c.line))
        ins = None
    if ins is not None:
        r.check(len(ins) == 1, "pre908/insert", "one insert per element", "%d inserts" % len(ins))
    for bi, t in (ins or []):
        e = b.rec_call(t, bi)
        el = "elem(TransactionSet::iter($1.transactions))"
        r.check(sig(e[2][1]) == "Transaction::hash_nosigs(%s)" % el and sig(e[2][2]) == el, "pre908/kv", "key hash_nosigs(tx) → tx",
                "inserts %s → %s" % (sig(e[2][1]), sig(e[2][2])), b.where(bi))
    rets = q.ret_assignments(b)
    sigs = sorted(sig(mir.strip(x[2])) for x in rets)
    r.check(sigs == sorted(["DenseMerkleTree::root_hash(UnsealedState::tip908_transactions($1))", "SmtMapping::root_hash(smt)"]),
            "results", "returns the dense root / the SMT root", "returns %s" % sigs)
    # tip908: sort dominates DenseMerkleTree::new on the same vector; every element pushed
    b = ctx.prog.body("melstf::state::UnsealedState::tip908_transactions")
    news = q.calls_to(b, "DenseMerkleTree::new")
    sorts = q.calls_matching(b, lambda n, p: n.split("::")[-1].startswith("sort"))
    r.check(len(news) == 1, "tip908/new", "one DenseMerkleTree::new", "%d DenseMerkleTree::new" % len(news))
    for bi, t in news:
        e = b.rec_call(t, bi)
        v = e[2][0]
        sorted_before = [sb for sb, st in sorts if b.dominates(sb, bi) and q.novers(b.rec_call(st, sb)[2][0]) == q.novers(v)]
        r.check(bool(sorted_before), "tip908/sorted", "the vector is sorted before the tree is built", "DenseMerkleTree::new(%s) is not dominated by a sort of that vector" % sig(v), b.where(bi))
    pushes = q.calls_to(b, "Vec::push")
    if not pushes and "tip908_transactions" in ADAPT and ADAPT["tip908_transactions"][1][1].split("::")[-1] == "map":
        # `.iter().map(|tx| leaf(tx)).collect()`: the leaf is what the closure returns; it must be assembled from hash_nosigs(tx) then hash(stdcode(tx))
        c = ctx.prog.body(mir.strip(ADAPT["tip908_transactions"][1][2][1])[1])
        hs = [sig(n.rec_call(t, bi)) for n in ctx.prog.all_nested(c) for bi, t in n.calls() if not t["exp"]]
        n_ = [i for i, x in enumerate(hs) if x == "Transaction::hash_nosigs($2)"]
        f_ = [i for i, x in enumerate(hs) if x in ("tmelcrypt::hash_single(StdcodeSerializeExt::stdcode($2))", "tmelcrypt::hash_single(StdcodeSerializeExt::stdcode(^tx))")]
        if n_ and f_:
            r.undecided("tip908/leaf", "the leaf is built in a map closure from hash_nosigs(tx) and hash(stdcode(tx)); the order of concatenation is not decided for this spelling", "%s:%s" % (c.file, c.line))
        else:
            r.violation("tip908/leaf", "the map closure building the leaves does not use both hash_nosigs(tx) and hash(stdcode(tx)) (calls: %s)" % hs[:8], "%s:%s" % (c.file, c.line))
        pushes = None
    if pushes is None:
        return
    r.check(len(pushes) >= 1, "tip908/push", "elements are pushed", "nothing is pushed")
    TX = "elem(TransactionSet::iter($1.transactions))"
    NOSIGS, FULL = "Transaction::hash_nosigs(%s)" % TX, "tmelcrypt::hash_single(StdcodeSerializeExt::stdcode(%s))" % TX

    def strip0(x):
        while x.endswith(".0"):
            x = x[:-2]
        return x
    for bi, t in pushes:
        e = b.rec_call(t, bi)
        pushed = mir.strip(e[2][1])
        s = sig(pushed)
        if NOSIGS in s:
            # built in a closure applied to the hash (`hash.pipe(|h| { let mut v = h.0.to_vec(); v.extend_from_slice(full); v })`)
            r.ok("tip908/elem", "element derives from hash_nosigs(tx)", b.where(bi))
            for c in ctx.prog.closures_of(b):
                ext = q.calls_to(c, "Vec::extend_from_slice")
                ss = [sig(c.rec_call(t2, b2)[2][1]) for b2, t2 in ext]
                FULLC = "tmelcrypt::hash_single(StdcodeSerializeExt::stdcode(^tx)).0"
                # the closure's own parameter is the piped hash_nosigs(tx): `h.0.to_vec()` then one extension, or an empty vector (new / with_capacity) extended
                # first with `h.0` and then with the full hash — the same concatenation
                from_empty = not q.calls_matching(c, lambda n, p: n.split("::")[-1] == "to_vec") and bool(q.calls_matching(c, lambda n, p: n.split("::")[-1] in ("with_capacity", "new")))
                r.check(ss == [FULLC] or (from_empty and ss == ["$2.0", FULLC]), "tip908/leaf", "leaf = nosigs_hash ‖ hash(stdcode(tx))", "leaf extension is %s" % ss, "%s:%s" % (c.file, c.line))
        elif pushed[0] == "var":
            # built in place: the byte sources appended to the pushed vector, in program order
            name = pushed[1]
            parts = []
            d0 = q.var_def_exprs(b, name.split("#")[0]) if "#" not in name else q.var_def_exprs(b, name)
            for d in d0[:1]:
                if q.is_call(d[1], "to_vec") or "to_vec" in sig(d[1]):
                    parts.append(strip0(sig(q.novers(d[1][2][0])) if d[1][0] == "call" else sig(d[1])))
            for b2, e2 in q.call_exprs(b, "Vec::extend_from_slice"):
                if sig(q.novers(mir.strip(e2[2][0]))) == name:
                    pe = mir.strip(q.novers(e2[2][1]))
                    # `for part in [a, b] { v.extend_from_slice(&part) }`: the element of a literal array stands for its members, in order
                    inner = pe
                    while inner[0] == "field" and inner[2] == "0":
                        inner = inner[1]
                    if inner[0] == "elem" and isinstance(inner[1], tuple) and inner[1][0] == "array" and len(inner[1]) == 2 and isinstance(inner[1][1], tuple):
                        parts.extend(strip0(sig(x)) for x in inner[1][1] if isinstance(x, tuple))
                    else:
                        parts.append(strip0(sig(pe)))
            r.check(parts[:1] == [NOSIGS], "tip908/elem", "element starts with hash_nosigs(tx)", "the pushed vector is assembled from %s" % parts, b.where(bi))
            r.check(parts == [NOSIGS, FULL], "tip908/leaf", "leaf = nosigs_hash ‖ hash(stdcode(tx))", "leaf is assembled from %s" % parts, b.where(bi))
        else:
            r.undecided("tip908/elem", "shape of the pushed leaf not recognised: %s" % s[:120], b.where(bi))


def _is_header_switch(b, h, x):
    """the block that switches on the discriminant of next() (successor of the header call)"""
    return x in b.succs(h) and b.term(x)["k"] == "switch"


def r6_stake_commitment(ctx):
    r = ctx.rule("R6", "pre_tip911 inserts hash(stdcode(txhash)) → stdcode(doc) for every stake into an empty tree")
    b = ctx.body("tip911_stakeset::StakeSet::pre_tip911", r)
    # one tree insert per stake: in a `for` loop over self.stakes, or in a closure handed to for_each over it
    SRC = "HashMap::iter($1.stakes)"
    sites = [(c, bi, c.rec_call(t, bi)) for c in ctx.prog.all_nested(b) for bi, t in q.calls_to(c, "Tree::insert")]
    r.check(len(sites) == 1, "insert", "one insert per stake", "%d inserts" % len(sites))
    for c, bi, e in sites:
        if c is b:
            loops = [l for l in q.loop_with_source(b, lambda s_: True) if bi in l[1]]
            r.check([sig(l[3]) for l in loops] == [SRC], "loop", "loops over all of self.stakes", "the insert sits in loops over %s" % [sig(l[3]) for l in loops], "%s:%s" % (b.file, b.line))
            el0, el1 = "elem(%s).0" % SRC, "elem(%s).1" % SRC
            for l in loops:
                entry = q.loop_entry(b, l[0], l[1])
                wo = b.reachable(entry, removed=[bi])
                r.check(not any(x in wo for x in l[2]), "every", "every stake gets its leaf", "a stake can be skipped: the next iteration is reachable without the insert — the commitment "
                        "no longer reflects every registered stake", b.where(bi))
        else:
            fe = [x for b2, x in q.call_exprs(b, "for_each") if x[2][1][0] == "closure" and x[2][1][1] == c.nname]
            r.check(len(fe) == 1 and sig(mir.strip(fe[0][2][0])) == SRC, "loop", "for_each over all of self.stakes", "the insert sits in a closure that is not for_each over self.stakes (%s)" % [sig(x)[:80] for x in fe])
            el0, el1 = "$2.0", "$2.1"
            wo = c.reachable(0, removed=[bi])
            r.check(not any(x in wo for x in c.return_blocks()), "every", "every stake gets its leaf", "a stake can be skipped: the per-stake closure can return without the insert", c.where(bi))
        r.check(sig(e[2][1]) == "tmelcrypt::hash_single(StdcodeSerializeExt::stdcode(%s)).0" % el0, "key", "key = hash(stdcode(txhash))", "key = %s" % sig(e[2][1]), c.where(bi))
        r.check(sig(e[2][2]) == "StdcodeSerializeExt::stdcode(%s)" % el1, "value", "value = stdcode(doc)", "value = %s" % sig(e[2][2]), c.where(bi))
    defs = q.var_def_exprs(b, "tree")
    s = [sig(d[1]) for d in defs]
    r.check(len(s) == 1 and "get_tree(Database::new(" in s[0] and ("[0; 32]" in s[0] or "default" in s[0].lower().split("get_tree(")[-1]), "empty-tree", "starts from the empty tree", "tree starts as %s" % s)


def shared(ctx):
    """'the coin root is a function of the contents alone': the coin tree holds the coins plus the per-covenant counts, so the count protocol (C20.R1: +1/−1 exactly on
    real insertions/removals, a zero count is *no entry*) and the confinement of tree writes to it (C20.R2) are necessary; so is order-independence of a batch (C03.R2)."""
    from rules.engine import core
    from rules.props import c20, c03
    core.import_rules(ctx, [c20.r1_protocol, c20.r2_confinement, c20.r3_flag_provenance, c20.r4_activation], "X20")   # R3: every insertion / removal is made under the TIP-906 flag, not another activation predicate
    core.import_rules(ctx, [c03.r2_batch_commutativity], "X03")
    core.import_rules(ctx, [c03.r1_inventory], "X03")           # "roots are functions of the contents alone": nothing that reaches a tree or a commitment vector takes its order from a hash map
    core.import_rules(ctx, [c03.r4_commitment_order], "X03")          # "every block transaction can be proven present": positions are taken from the ORDERED transaction set
    from rules.props import c06
    core.import_rules(ctx, [c06.r5_activation_table], "X06")          # which transaction commitment the header carries is decided by TIP-908
    # 'headers chain together' also for a node that restarted: a state rebuilt from a block must commit to that very block's header (every field restored from the
    # same-named header field, C08.R1) — otherwise its next history entry, `previous` hash and header differ from those of the chain
    from rules.props import c08
    core.import_rules(ctx, [c08.r1_reconstruction_map], "X08")


RULES = [r1_header_map, r2_chain_step, r3_network_write_once, r4_key_agreement, r4_absent_reads_none, r5_tx_commitment, r6_stake_commitment, shared]
