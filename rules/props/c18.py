"""C18 — ERG is minted only against valid sequential work, within the reward formula."""
from rules.engine import mir, q
from rules.engine.mir import show
from rules.engine.q import sig, force, abbrev
from rules.engine.sccp import V, C

EXPLANATION = (
    "R1 gate chain in validate_and_get_doscmint_speed: Ok(speed) is unreachable when the spent coin is unknown, when (mainnet ∧ coin younger than 100 blocks), when the "
    "history lookup at the coin's height fails, when the data does not decode, when Proof::from_bytes fails, when neither MelPoW verification succeeds, or when the ERG "
    "output exceeds the reward (each failure forced in turn; argument provenance of every gate). R2 reward bound: check_dosc_total_output rejects ERG output > reward_nom, "
    "reward_nom = dosc_to_erg(height, calculate_reward(speed, history[height−1].dosc_speed, difficulty, tip910)). R3 speed commitment: dosc_speed is written only by "
    "apply_tx_batch_impl with a max-fold/max-reduce whose identities are the previous speed. R4 coverage: the fold ranges over every batch member of kind DoscMint. "
    "R5 speed formula: (100 if tip910 else 1)·2^difficulty / (state height − coin height)."
    " Imports C03.R5's inflator clause: microergs_per_dosc(h) hands back the table entry at index h on the fill path too."
)
NOT_DECIDED = ["soundness of MelPoW verification (melpow, trusted base)", "the numeric reward / inflator formulas (big-integer arithmetic in melmint.rs, read not proved)"]
ASSUMPTIONS = ["melpow::Proof::verify returns true only for valid proofs of the given puzzle and difficulty"]
FN = "melstf::state::applytx::validate_and_get_doscmint_speed"


def _role_vars(b):
    """the two locals by role, whatever they are called: the id of the spent coin (defined from tx.inputs[0]) and its coin data (relevant_coins[that id])"""
    cid = cd = None
    for l, nm in sorted(b.local_name.items()):
        ds = q.var_def_exprs(b, nm)
        if len(ds) != 1:
            continue
        sg = sig(ds[0][1])
        if cid is None and "get($3.inputs, 0)" in sg and "HashMap::get(" not in sg:
            cid = nm
        elif cd is None and sg.startswith(("try(HashMap::get($2, ", "HashMap::get($2, ")) or (cd is None and "HashMap::get($2, " in sg and ".inputs, 0)" in sg and sg.startswith("try(")):
            cd = nm
    return cid or "coin_id", cd or "coin_data"


def _aliases(b):
    al = {}
    n_id, n_cd = _role_vars(b)
    cid = q.var_sig(b, n_id)
    if cid:
        al[cid] = "COINID"
    cd = q.var_sig(b, n_cd)
    if cd:
        al[cd] = "COIN"
        al[abbrev(cd, {cid: "COINID"})] = "COIN"
    return al


def r1_gate_chain(ctx):
    r = ctx.rule("R1", "validate_and_get_doscmint_speed: Ok(speed) unreachable on unknown coin / young mainnet coin / missing history / undecodable data / bad proof bytes / failed MelPoW / excess ERG")
    b = ctx.body(FN, r)
    oks = [bb for bb, e in q.result_blocks(b)["Ok"]]
    r.anchor(oks, "Ok(speed) result")
    al = _aliases(b)
    A = lambda e: abbrev(sig(e), al)
    N_ID, N_CD = _role_vars(b)
    r.check(al.get(q.var_sig(b, N_ID) or "") == "COINID" and "get($3.inputs, 0)" in (q.var_sig(b, N_ID) or ""), "coin-id", "the spent coin is inputs[0]", "coin_id = %s" % q.var_sig(b, N_ID))
    r.check((q.var_sig(b, N_CD) or "").startswith("try(HashMap::get($2, "), "coin-lookup", "coin data comes from relevant_coins[inputs[0]] with ?", "coin_data = %s" % q.var_sig(b, N_CD))

    def gate(key, sites, forced, okmsg, badmsg):
        if not sites:
            r.violation(key + "/missing", badmsg + " (the gate is absent)")
            return
        for bi, e in sites:
            f = force(b, {e: forced})
            after = f.reach_from(bi)
            alive = [o for o in oks if o in after]
            r.check(not alive, key, okmsg, badmsg, b.where(bi))
        # and no path to Ok goes around the gate (an early `return Ok(..)` for a special case before it is evaluated)
        wo = b.reachable(0, removed=[bi for bi, e in sites])
        around = [o for o in oks if o in wo]
        r.check(not around, key + "/every-path", "every path to Ok evaluates it", "Ok(speed) is reachable without this gate being evaluated at all (bb%s): a special case returns before it" % around,
                b.where(around[0]) if around else None)
    calls = q.all_call_exprs(b)
    # (a) coin lookup
    gate("coin-missing", [(bi, e) for bi, e in calls if q.is_call(e, "HashMap::get") and A(e) == "HashMap::get($2, COINID)"], V(0), "unknown coin ⇒ no Ok", "with the coin unknown Ok is reachable")
    # (b) age rule
    want_age = "Lt(<melstructs::BlockHeight as std::ops::Sub>::sub($1.height, COIN.height).0, 100)"
    NETS = ("Eq($1.network, NetID::Mainnet{})", "Eq(NetID::Mainnet{}, $1.network)")
    # either polarity of the source test: `age < 100 && net == Mainnet` and `!(age >= 100 || net != Mainnet)` are the same two atoms
    # (the zero test of a division by the age — `2^d / (h − h_coin)` spliced in from a speed helper the rules do not know by name — is not an age rule)
    age = [(e, c, bi) for e, c, bi in q.pick_atoms(b, lambda c: abbrev(c, al) == want_age) if "BlockHeight as std::ops::Sub" in c and not (c.startswith(("Eq(", "Ne(")) and c.endswith(", 0)"))]
    net = [(e, c, bi) for e, c, bi in q.pick_atoms(b, lambda c: c in NETS) if c in NETS]
    r.check([abbrev(c, al) for e, c, bi in age] == [want_age], "age/atom", "age test: height − coin.height < 100", "age atoms: %s" % [abbrev(c, al) for e, c, bi in age])
    r.check(len(net) == 1, "age/mainnet", "restricted to mainnet", "network atoms: %d" % len(net))
    if age and net:
        f = force(b, {age[0][0]: 1, net[0][0]: 1})
        r.check(not any(o in f.reach for o in oks), "age/young-mainnet=>err", "a coin younger than 100 blocks on mainnet ⇒ no Ok", "a young coin on mainnet can reach Ok", b.where(age[0][2]))
    # (c) history at the coin's height
    hist = [(bi, e) for bi, e in calls if q.is_call(e, "SmtMapping::get") and A(e) == "SmtMapping::get($1.history, COIN.height)"]
    gate("history-missing", hist, V(0), "no header at the coin's height ⇒ no Ok", "with no header at the coin's height Ok is reachable")
    # (d) decode
    dec = [(bi, e) for bi, e in calls if q.is_call(e, "stdcode::deserialize") and sig(e) == "stdcode::deserialize($3.data)"]
    gate("decode-fails", dec, V(1), "undecodable data ⇒ no Ok", "with undecodable data Ok is reachable")
    DEC = "try(stdcode::deserialize($3.data))"
    al[DEC] = "DATA"
    # (e) proof bytes
    pf = [(bi, e) for bi, e in calls if q.is_call(e, "Proof::from_bytes")]
    gate("proof-bytes", pf, V(0), "unparsable proof ⇒ no Ok", "with an unparsable proof Ok is reachable")
    for bi, e in pf:
        r.check(A(e) == "Proof::from_bytes(DATA.1)", "proof-bytes/src", "proof parsed from the decoded data", "proof parsed from %s" % A(e), b.where(bi))
    # (f) MelPoW
    pw = [(bi, e) for bi, e in calls if q.is_call(e, "proof_is_tip910")]
    gate("melpow", pw, V(1), "failed MelPoW ⇒ no Ok", "with MelPoW failing Ok is reachable")
    # values only: `inputs.get(0).unwrap()`, `inputs.get(0).ok_or(..)?` and a copy of either are the same first input
    al2 = {"stdcode::deserialize($3.data)": "DATA"}
    for nm, short in ((N_ID, "COINID"), (N_CD, "COIN")):
        d = q.var_def_exprs(b, nm)
        if len(d) == 1:
            k2 = sig(q.strip_unwrap(d[0][1]))
            al2[k2] = short
            al2[abbrev(k2, {k: v for k, v in al2.items() if v == "COINID"})] = short
    A2 = lambda e: abbrev(sig(q.strip_unwrap(e)), al2)
    PUZ = "tmelcrypt::hash_keyed(Header::hash(SmtMapping::get($1.history, COIN.height)), StdcodeSerializeExt::stdcode(COINID))"
    for bi, e in pw:
        got = [A2(a) for a in e[2]]
        want = ["Proof::from_bytes(DATA.1)", PUZ, "DATA.0"]
        r.check(got == want, "melpow/args", "proof_is_tip910(proof, hash_keyed(hash(history[coin.height]), stdcode(inputs[0])), difficulty)", "proof_is_tip910(%s)" % ", ".join(got), b.where(bi))
    # (g) reward bound
    ck = [(bi, e) for bi, e in calls if q.is_call(e, "check_dosc_total_output")]
    gate("reward-bound", ck, V(1), "excess ERG ⇒ no Ok", "with check_dosc_total_output failing Ok is reachable")
    # proof_is_tip910 itself
    p = ctx.body("melstf::state::applytx::proof_is_tip910", r)
    ver = q.call_exprs(p, "Proof::verify")
    sigs = sorted(sig(e) for bi, e in ver)
    want = sorted(["Proof::verify($1, $2, ($3 as usize), LegacyMelPowHash::LegacyMelPowHash{})", "Proof::verify($1, $2, ($3 as usize), Tip910MelPowHash::Tip910MelPowHash{})"])
    r.check(sigs == want, "verify/args", "both hash functions are tried on (proof, puzzle, difficulty)", "verifications: %s" % sigs)
    res = q.result_blocks(p)
    pok = [bb for bb, e in res["Ok"]]
    if len(ver) == 2:
        f = force(p, {e: 0 for bi, e in ver})
        r.check(not any(o in f.reach for o in pok), "verify/both-false=>err", "neither verification ⇒ Err", "with both verifications false Ok is reachable")
        for bi, e in ver:
            tip = "Tip910" in sig(e)
            other = [x for _, x in ver if x != e][0]
            f = force(p, {e: 1, other: 0})
            vals = {q.const_val(dict(oe[3])["0"]) for bb, oe in res["Ok"] if bb in f.reach}
            r.check(vals == {1 if tip else 0}, "verify/flag/%s" % ("tip910" if tip else "legacy"), "Ok(%s) when only the %s hash verifies" % (tip, "TIP-910" if tip else "legacy"),
                    "when only the %s hash verifies the result is Ok(%s)" % ("TIP-910" if tip else "legacy", vals))
    # the Ok payload is the computed speed
    for bb, e in q.result_blocks(b)["Ok"]:
        pay = dict(e[3])["0"]
        r.check(q.is_call(pay, "compute_doscmint_speed"), "ok-payload", "Ok(compute_doscmint_speed(..))", "Ok payload = %s" % A(pay)[:120], b.where(bb))


def r2_reward_bound(ctx):
    r = ctx.rule("R2", "check_dosc_total_output: ERG output > reward_nom ⇒ Err; reward_nom = CoinValue(dosc_to_erg(height, calculate_reward(speed, history[height−1].dosc_speed, difficulty, tip910)))")
    c = ctx.body("melstf::state::applytx::check_dosc_total_output", r)
    want = "Lt($2, Option::unwrap_or(HashMap::get(Transaction::total_outputs($1), Denom::Erg{}), 0))"
    atoms = q.pick_atoms(c, lambda c_: c_ == want)        # `out > nom ⇒ Err` or `out <= nom ⇒ Ok`
    r.check([a[1] for a in atoms] == [want], "atom", "compares total ERG output with the nominal reward", "comparisons: %s" % [a[1] for a in atoms])
    oks = [bb for bb, e in q.result_blocks(c)["Ok"]]
    if atoms:
        f = force(c, {atoms[0][0]: (1 if "Gt" in sig(atoms[0][0]) or q.as_cmp(atoms[0][0])[0] in ("Gt", "Lt") else 1)})
        cm = q.as_cmp(atoms[0][0])
        # truth of the atom given out > reward
        op, L, R = cm
        out_is_L = "total_outputs" in sig(L)
        truth = q.cmp_truth_given_lt(op, not out_is_L)   # fact: reward < out  (X=reward, Y=out)
        f = force(c, {atoms[0][0]: 1 if truth else 0})
        r.check(not any(o in f.reach for o in oks), "excess=>err", "output > reward ⇒ Err", "with output > reward Ok is reachable")
        truth_eq = q.cmp_truth_given_eq(op)
        f = force(c, {atoms[0][0]: 1 if truth_eq else 0})
        r.check(any(o in f.reach for o in oks), "exact=>ok", "output == reward is accepted", "output == reward is rejected")
    b = ctx.body(FN, r)
    al = _aliases(b)
    al["try(stdcode::deserialize($3.data))"] = "DATA"
    A = lambda e: abbrev(sig(e), al)
    for bi, e in q.call_exprs(b, "check_dosc_total_output"):
        r.check(sig(e[2][0]) == "$3", "call/tx", "on the transaction", "on %s" % sig(e[2][0]), b.where(bi))
        rn = e[2][1]
        inner = q.unwrap0(rn)
        ok = q.is_call(inner, "melmint::dosc_to_erg") and sig(inner[2][0]) == "$1.height" and q.is_call(inner[2][1], "melmint::calculate_reward")
        r.check(ok, "call/reward-nom", "reward_nom = dosc_to_erg(this.height, calculate_reward(..))", "reward_nom = %s" % A(rn)[:160], b.where(bi))
        if ok:
            cr = inner[2][1]
            got = [A(a) for a in cr[2]]
            SPEED = [A(x) for _, x in q.call_exprs(b, "compute_doscmint_speed")]
            TIP = "try(applytx::proof_is_tip910("
            r.check(q.is_call(cr[2][0], "compute_doscmint_speed"), "reward/speed", "speed = compute_doscmint_speed(..)", "speed argument = %s" % got[0][:100], b.where(bi))
            want_prev = "try(SmtMapping::get($1.history, SubWithOverflow($1.height.0, 1).0)).dosc_speed"
            r.check(got[1] == want_prev, "reward/prev-speed", "previous speed = history[height−1].dosc_speed", "previous speed = %s" % got[1], b.where(bi))
            r.check(got[2] == "DATA.0", "reward/difficulty", "difficulty = decoded", "difficulty = %s" % got[2], b.where(bi))
            # the flag is a function of this transaction's verification only.  Reported: a source outside the transaction (a static / global).
            # Any other spelling that is not the direct `proof_is_tip910(..)?` (an enum era, a helper's constants) is not decided.
            fe = cr[2][3]
            if got[3].startswith(TIP):
                r.ok("reward/tip910", "flag = proof_is_tip910(..)?", b.where(bi))
            elif mir.contains(fe, lambda x: x[0] == "static"):
                r.violation("reward/tip910", "flag = %s: the TIP-910 flag of the reward is read from state outside the transaction" % got[3][:80], b.where(bi))
            else:
                r.undecided("reward/tip910", "flag = %s is not the direct result of proof_is_tip910(..)?: whether it reflects this proof's verification is not decided" % got[3][:80], b.where(bi))
    for bi, e in q.call_exprs(b, "compute_doscmint_speed"):
        got = [A(a) for a in e[2]]
        r.check(got[0].startswith("try(applytx::proof_is_tip910(") and got[1:] == ["DATA.0", "$1.height", "COIN.height"], "speed/args",
                "compute_doscmint_speed(tip910, difficulty, this.height, coin.height)", "compute_doscmint_speed(%s)" % ", ".join(x[:60] for x in got), b.where(bi))


def r3_speed_commitment(ctx):
    r = ctx.rule("R3", "dosc_speed is written only in apply_tx_batch_impl as try_fold(max)/try_reduce(max) with identity this.dosc_speed (hence never decreases)")
    prog = ctx.prog
    b = ctx.body("melstf::state::applytx::apply_tx_batch_impl", r)
    ws = q.field_writers(prog, "melstf::state::UnsealedState", "dosc_speed")
    for wb, recs in sorted(ws.items(), key=lambda kv: kv[0].nname):
        for k in sorted({x[0] for x in recs}):
            if k == "agg":
                ok = any(wb.nname.endswith(a) for a in ("GenesisConfig::realize", "SealedState::from_block", "as std::clone::Clone>::clone"))
            else:
                ok = wb.id == b.id
            r.check(ok, "writer/%s/%s" % (k, wb.nname.split("::")[-1]), "%s (%s)" % (wb.nname, k), "%s writes dosc_speed (%s)" % (wb.nname, k), "%s:%s" % (wb.file, wb.line))
    wr = [w for w in q.stmt_writes(b, "dosc_speed") if w[0] == "assign"]
    r.check(len(wr) == 1, "write/one", "one assignment", "%d assignments" % len(wr))
    for w in wr:
        v = mir.strip(w[4])
        where = b.where(w[1], w[2])
        if not (q.is_call(v, "ParallelIterator::try_reduce") or q.is_call(v, "Iterator::try_fold") or q.is_call(v, "try_fold")):
            if q.has_unknown(v):
                r.undecided("write/shape", "dosc_speed := %s" % sig(v)[:200], where)
            else:
                r.violation("write/shape", "dosc_speed := %s, not a max-reduction over the batch" % sig(v)[:200], where)
            continue
        red_id, red_op = v[2][1], v[2][2]
        fold = v[2][0]
        ids = [red_id]
        ops = [red_op]
        if q.is_call(fold, "ParallelIterator::try_fold"):
            ids.append(fold[2][1])
            ops.append(fold[2][2])
            src = fold[2][0]
        else:
            src = fold
        for i, idc in enumerate(ids):
            cb = prog.body(idc[1]) if idc[0] == "closure" else None
            rr = q.ret_assignments(cb) if cb else []
            s = sig(rr[0][2]) if rr else sig(idc)
            res = q.closure_rets_resolved(prog, idc) if idc[0] in ("closure", "fn") else None
            s2 = sig(res[0]) if res and len(res) == 1 else ""
            r.check(s == "^this.dosc_speed" or s2 == "$1.dosc_speed", "identity/%d" % i, "identity = this.dosc_speed", "identity = %s (a speed below the previous one becomes possible)" % s, where)
        for i, opc in enumerate(ops):
            if opc[0] == "closure":
                cb = prog.body(opc[1])
            elif opc[0] == "fn":
                cands = prog.by_nname.get(opc[1]) or []
                cb = cands[0] if len(cands) == 1 else None
            else:
                cb = None
            r.anchor(cb, "reducer closure %d" % i)
            ctx.analysed(cb)
            acc = "$2" if opc[0] == "closure" else "$1"       # a closure's first parameter is its environment
            oks = q.result_blocks(cb)["Ok"]
            ok = bool(oks)
            caps = q.closure_caps(opc) if opc[0] == "closure" else {}
            for bb, e in oks:
                pay = dict(e[3])["0"]
                args = [sig(a) for a in pay[2]] if q.is_call(pay, "Ord::max", "cmp::max") and len(pay[2]) == 2 else []
                if acc not in args:
                    ok = False
                    r.violation("reducer/%d" % i, "reducer returns Ok(%s), not Ok(max(accumulator, ·))" % sig(pay)[:120], "%s:%s" % (cb.file, cb.line))
                elif i == 1:
                    o_ = [a for a in pay[2] if sig(a) != acc] or [pay[2][1]]
                    other = sig(o_[0])
                    other2 = sig(q.subst_simplify(q.novers(o_[0]), {}, caps))
                    want = ("try(applytx::validate_and_get_doscmint_speed(^this, ^relevant_coins, $3))", "try(applytx::validate_and_get_doscmint_speed($1, try(applytx::load_relevant_coins($1, $2)), $3))")
                    r.check(other in want or other2 in want, "fold/term", "term = validated speed of the tx", "term = %s" % other, "%s:%s" % (cb.file, cb.line))
            if ok:
                r.ok("reducer/%d" % i, "reducer is max", "%s:%s" % (cb.file, cb.line))
        # R4 coverage
        r4 = ctx.rules.get("R4") or ctx.rule("R4", "the fold ranges over every batch member with kind == DoscMint")
        if q.is_call(src, "ParallelIterator::filter", "Iterator::filter"):
            base, fc = src[2][0], src[2][1]
            r4.check(sig(base) in ("<I as rayon::iter::IntoParallelRefIterator<'data>>::par_iter($2)", "$2"), "source", "over the whole batch", "over %s" % sig(base), where)
            cb, first = q.callable_body(prog, fc)
            r4.anchor(cb, "filter closure")
            q.check_conjunction(r4, "filter", cb, [q.shift_params("Eq($2.kind, TxKind::DoscMint{})", first)])
        else:
            r4.violation("source", "the speed fold is over %s, not over the DoscMint members of the batch" % sig(src)[:150], where)


def r5_speed_formula(ctx):
    r = ctx.rule("R5", "compute_doscmint_speed = (100 if tip910 else 1)·2^difficulty / (state_height − coin_height)")
    b = ctx.body("melstf::state::applytx::compute_doscmint_speed", r)
    rets = q.ret_assignments(b)
    r.anchor(rets, "return")
    flag = 1                                              # the first parameter, whatever it is called
    if b.locals[1]["ty"] != "bool":
        r.undecided("formula/flag", "the TIP-910 flag of compute_doscmint_speed is a %s, not a bool: the two formulas are not decided" % b.locals[1]["ty"])
        return
    for fl, mult in ((1, 100), (0, 1)):
        f = force(b, {}, {flag: C(fl)})
        v = q.resolve_phis(b, rets[0][2], f.reach)
        nf = q.arith_nf(v)
        want = q.B("Div", q.B("Mul", ("call", "core::num::<impl u128>::pow", (q.K(2), ("param", 2, "difficulty"))), q.K(mult)),
                   q.B("Sub", ("param", 3, "state_height"), ("param", 4, "coin_height")))
        r.check(nf == want, "formula/tip910=%d" % fl, "speed = %d·2^d/(h−h_coin)" % mult, "speed = %s" % sig(nf)[:200])


def r6_reward_rounds_down(ctx):
    r = ctx.rule("R6", "the reward cap never exceeds the formula: dosc_to_erg(height, real) = ⌊dosc_inflator(height) · real⌋ with dosc_inflator(height) = microergs_per_dosc(height) / 10^6 "
                       "(rounded down, inflator of the height passed in), and calculate_reward divides with BigInt's truncating `/`", positional=False)
    prog = ctx.prog
    b = ctx.body("melstf::state::melmint::dosc_to_erg", r)
    rets = q.ret_assignments(b)
    r.anchor(rets, "return of dosc_to_erg")
    names = set()
    for bb in [b] + prog.closures_of(b):
        for bi, t in bb.calls():
            if t["fn"]:
                names.add(mir.norm_name(t["fn"]["path"]).split("::")[-1])
    up = sorted(names & {"round", "ceil", "div_ceil", "next_multiple_of"})
    down = sorted(names & {"floor", "trunc", "to_integer", "div_floor"})
    where = b.where(rets[0][0])
    if up:
        r.violation("dosc_to_erg/rounding", "dosc_to_erg rounds with %s: the cap on the minted ERG lies up to 1 µERG above reward·inflator, so more ERG than the formula reward is accepted" % "/".join(up), where)
    elif down:
        r.ok("dosc_to_erg/rounding", "rounded down (%s)" % "/".join(down), where)
    else:
        r.undecided("dosc_to_erg/rounding", "no rounding operation recognised in dosc_to_erg (calls: %s)" % sorted(names)[:12], where)
    e = rets[0][2]
    infl = [x for x in mir.walk(e) if q.is_call(x, "melmint::dosc_inflator")]
    if infl:
        a = sig(q.novers(infl[0][2][0]))
        r.check(a == "$1", "dosc_to_erg/inflator-height", "inflator of the height passed in", "the inflator is taken at %s, not at the height passed in" % a[:80], where)
        muls = [x for x in mir.walk(e) if isinstance(x, tuple) and x[0] == "call" and x[1].endswith("::mul") and any(q.is_call(y, "melmint::dosc_inflator") for y in x[2])]
        def bare(y):
            while isinstance(y, tuple) and y[0] == "call" and len(y[2]) == 1 and y[1].split("::")[-1] in ("from_integer", "from", "into", "clone"):
                y = y[2][0]
            return sig(q.novers(y))
        other = [bare(y) for x in muls for y in x[2] if not q.is_call(y, "melmint::dosc_inflator")]
        if other == ["$2"]:
            r.ok("dosc_to_erg/product", "inflator · real", where)
        elif len(other) == 1 and not q.has_unknown(muls[0]) and ("$" in other[0] or other[0].isdigit()):
            r.violation("dosc_to_erg/product", "the inflator multiplies %s, not the real reward passed in" % other, where)
        else:
            r.undecided("dosc_to_erg/product", "product with the inflator not recognised: %s" % other, where)
    else:
        r.undecided("dosc_to_erg/inflator-height", "dosc_inflator call not found in the result expression %s" % sig(e)[:120], where)
    di = ctx.body("melstf::state::melmint::dosc_inflator", r)
    dr = q.ret_assignments(di)
    ds = sig(q.novers(dr[0][2])) if len(dr) == 1 else ""
    forms = ("tuple(melmint::microergs_per_dosc($1), MICRO_CONVERTER)", "Ratio::new(melmint::microergs_per_dosc($1), MICRO_CONVERTER)", "Ratio::new_raw(melmint::microergs_per_dosc($1), MICRO_CONVERTER)")
    if ds in forms:
        r.ok("inflator/ratio", "dosc_inflator(h) = microergs_per_dosc(h) / MICRO_CONVERTER", di.where(dr[0][0]))
    elif ds.startswith(("tuple(", "Ratio::new(", "Ratio::new_raw(")) and "microergs_per_dosc" in ds and not (dr and q.has_unknown(dr[0][2])):
        r.violation("inflator/ratio", "dosc_inflator returns %s, not microergs_per_dosc(height) / MICRO_CONVERTER" % ds[:160], di.where(dr[0][0]))
    else:
        r.undecided("inflator/ratio", "dosc_inflator returns %s: not recognised" % ds[:160], di.where(dr[0][0]) if dr else None)
    cr = ctx.body("melstf::state::melmint::calculate_reward", r)
    cs = [sig(x[2]) for x in q.ret_assignments(cr)]
    if len(cs) == 1 and "impl std::ops::Div for num::BigInt>::div(" in cs[0] and not any(k in cs[0] for k in ("round", "ceil")):
        r.ok("calculate_reward/rounding", "BigInt `/` (truncating, operands non-negative)")
    elif cs and any(k in cs[0] for k in ("div_ceil", "::ceil(", "::round(")):
        r.violation("calculate_reward/rounding", "calculate_reward rounds up: %s" % cs[0][:160])
    else:
        r.undecided("calculate_reward/rounding", "division in calculate_reward not recognised: %s" % (cs[0][:160] if cs else "no return"))


MELPOW_READ = {
    # version, checksum prefix -> what reading Proof::verify of that release showed
    ("0.1.2", "250a855f9831fc11"): ("unsound", "melpow 0.1.2 `Proof::verify` reads `phi = self.0[zero]` and later tests `phi != self.0[zero]` — the commitment it recomputes from the opened "
                                               "labels (temp_map) is never compared with the committed root, so labels only have to be locally consistent with the parents the prover "
                                               "chose: a 'proof' for any difficulty ≤ 56 can be written down with a few hundred hashes and no sequential work"),
}


def r7_trusted_verifier(ctx):
    """'ERG is minted only against valid sequential work' rests on melpow::Proof::verify, which is outside the repository.  What can be decided statically is WHICH verifier
    the build is pinned to (Cargo.lock) and what reading that release showed; a release that was not read is undecided."""
    r = ctx.rule("R7", "the MelPoW verifier the build is pinned to (Cargo.lock) is one whose Proof::verify was read and found to check the commitment", positional=False)
    import os, re as _re
    from rules.engine import facts as _facts
    try:
        txt = open(os.path.join(_facts.REPO, "Cargo.lock")).read()
    except OSError:
        r.undecided("verifier/pinned", "Cargo.lock not readable")
        return
    m = _re.search(r'name = "melpow"\nversion = "([^"]+)"\nsource = "[^"]*"\nchecksum = "([0-9a-f]+)"', txt)
    if not m:
        r.undecided("verifier/pinned", "melpow is not pinned by a registry checksum in Cargo.lock (path or git dependency): its verify was not read")
        return
    ver, ck = m.group(1), m.group(2)[:16]
    got = MELPOW_READ.get((ver, ck))
    if got is None:
        r.undecided("verifier/pinned", "melpow %s (%s…) is not a release whose Proof::verify was read" % (ver, ck))
    elif got[0] == "unsound":
        r.violation("verifier/melpow-%s/commitment-unchecked" % ver, got[1])
    else:
        r.ok("verifier/pinned", "melpow %s: %s" % (ver, got[1]))


def shared(ctx):
    from rules.engine import core
    from rules.props import c01
    core.import_rules(ctx, [c01.r2_exemption_table], "X01")
    from rules.props import c03
    core.import_rules(ctx, [c03.r5_inflator], "X03")    # the reward cap uses the inflator of the state's own height: microergs_per_dosc(h) is the table entry at h


RULES = [r1_gate_chain, r2_reward_bound, r3_speed_commitment, r5_speed_formula, r6_reward_rounds_down, r7_trusted_verifier, shared]
