"""C06 — a block is accepted exactly when it is the correct successor."""
from rules.engine import mir, q
from rules.engine.mir import show
from rules.engine.q import sig
from rules.engine.sccp import Forcing, V

EXPLANATION = (
    "Rules over the MIR of SealedState::apply_block / to_block: R1 the header comparison (an eq/ne atom between header(result) and "
    "block.header, of the derived Header PartialEq or of both hashes) decides Ok vs Err(WrongHeader) in both directions (forced constant "
    "propagation); R2 the Ok payload is seal(next_unsealed(self) after apply_tx_batch(all block.transactions)?, block.proposer_action) "
    "(expression provenance + the `?` forcing: a failing batch cannot reach seal/Ok); R3 to_block's three fields; "
    "R4 the proposer action is bound into the header (seal applies Some(action) on every path; applying it writes the reward coin with covhash action.reward_dest on every path); "
    "a sealed state cannot be forged or mutated from outside the crate (compile-fail witnesses, thorough tier)."
    " R5 activation table: every stage of the state machine consults the activation predicate of its own TIP (a substitution of one tip_9xx() for another in a stage is reported; a moved or restructured use is undecided), and every predicate tests its own TIP_9xx_HEIGHT constant. Imports C17.R2/R3: the fee vote reaches the header only through the multiplier step, so the step must be the exact formula in the vote."
    " R2 decides first that apply_tx_batch is called at all. Imports C13.R3f and C17.R3 `abort/*` (no assertion over the multiplier on the sealing path)."
)
NOT_DECIDED = ["that honestly produced blocks are accepted on every node needs C03 (determinism) and C08 (restart); reported there",
               "Header's derived PartialEq compares all fields: read from melstructs 0.3.3 (trusted base)"]
ASSUMPTIONS = ["melstructs::Header derives PartialEq over all 11 fields"]

AB = "melstf::state::SealedState::apply_block"


def _hdr_atoms(body):
    """comparison atoms between header(<state>) and block.header (directly or through Header::hash on both sides)"""
    out = []
    for bi, t in body.calls():
        e = body.rec_call(t, bi)
        cm = q.as_cmp(e)
        if not cm:
            continue
        op, L, R = cm
        if op not in ("Eq", "Ne"):
            continue
        for (a, b) in ((L, R), (R, L)):
            a0, b0 = a, b
            hashed = False
            if q.is_call(a0, "Header::hash") and q.is_call(b0, "Header::hash"):
                a0, b0, hashed = a0[2][0], b0[2][0], True
            if q.is_call(a0, "SealedState::header") and q.path_str(q.unwrap0(b0)) is not None and q.fields_path(b0)[1] == ["header"] and q.fields_path(b0)[0][0] == "param":
                out.append((bi, e, op, a0[2][0], hashed))
    return out


def r1_header_gate(ctx):
    r = ctx.rule("R1", "apply_block: Ok is reachable only when header(result) == block.header, Err(WrongHeader) only when they differ")
    body = ctx.body(AB, r)
    atoms = _hdr_atoms(body)
    r.anchor(atoms, "comparison of header(result) with block.header")
    res = q.result_blocks(body)
    oks = [b for b, e in res["Ok"]]
    errs = [b for b, e in res["Err"] if e[0] == "agg" and "WrongHeader" in sig(e)]
    r.anchor(oks, "Ok(..) result of apply_block")
    for (bi, e, op, subj, hashed) in atoms:
        where = body.where(bi)
        # headers differ
        tbl = {e: (0 if op == "Eq" else 1)}
        f = Forcing(body, lambda x: tbl.get(x))
        alive = [b for b in oks if b in f.reach]
        r.check(not alive, "differ=>reject", "with the headers unequal no Ok(..) is reachable", "with the headers unequal Ok(..) at bb%s is still reachable" % alive, where)
        tbl2 = {e: (1 if op == "Eq" else 0)}
        f2 = Forcing(body, lambda x: tbl2.get(x))
        alive_e = [b for b in errs if b in f2.reach]
        r.check(not alive_e, "equal=>accept", "with the headers equal Err(WrongHeader) is unreachable", "with the headers equal Err(WrongHeader) is still reachable", where)
        r.check(any(b in f2.reach for b in oks), "equal=>ok-reachable", "with the headers equal Ok(..) is reachable", "with the headers equal no Ok(..) is reachable", where)
    # every Ok is dominated by an atom block
    for b in oks:
        r.check(any(body.dominates(a[0], b) for a in atoms), "ok-dominated", "Ok(..) is dominated by the header comparison",
                "an Ok(..) result at bb%d is not dominated by the header comparison" % b, body.where(b))
    # comparison is on whole headers (derived PartialEq of Header) or on both hashes
    for (bi, e, op, subj, hashed) in atoms:
        t = body.term(bi)
        res_name = mir.callee_name(t)
        g = (t["fn"] or {}).get("gargs", [])
        ok = hashed or "melstructs::Header as std::cmp::PartialEq" in res_name or (g and g[0] == "melstructs::Header")
        r.check(ok, "whole-header", "comparison is %s" % res_name, "comparison %s is not the Header equality" % res_name, body.where(bi))


def r2_result_provenance(ctx):
    r = ctx.rule("R2", "Ok payload = seal(basis, block.proposer_action), basis = next_unsealed(self) after apply_tx_batch(basis, all of block.transactions)?; the compared header is that state's")
    body = ctx.body(AB, r)
    res = q.result_blocks(body)
    r.anchor(res["Ok"], "Ok(..) result")
    atoms = _hdr_atoms(body)
    for b, e in res["Ok"]:
        where = body.where(b)
        payload = dict(e[3])["0"]
        if not q.is_call(payload, "UnsealedState::seal"):
            if q.has_unknown(payload):
                r.undecided("payload", "Ok payload %s not understood" % sig(payload), where)
            else:
                r.violation("payload", "Ok payload is %s, not the sealed successor state" % sig(payload), where)
            continue
        r.ok("payload", "Ok payload = %s" % sig(payload), where)
        basis, act = payload[2][0], payload[2][1]
        r.check(sig(act) == "$2.proposer_action", "seal-arg", "seal receives block.proposer_action", "seal receives %s, not block.proposer_action" % sig(act), where)
        for a in atoms:
            r.check(q.novers(a[3]) == q.novers(payload), "compared-is-returned", "the header compared is the returned state's",
                    "the header compared belongs to %s, the state returned is %s" % (sig(a[3]), sig(payload)), body.where(a[0]))
        if not q.calls_to(body, "UnsealedState::apply_tx_batch", "UnsealedState::apply_tx"):
            # decided before anything about `basis` is read: without the call the block's transactions are never applied, whatever basis is
            r.violation("batch-call", "apply_block never applies the block's transactions (no apply_tx_batch / apply_tx call): every block with transactions is refused, an empty "
                        "block with a forged transaction list is judged by its header alone", where)
            continue
        if basis[0] != "var":
            r.undecided("basis", "basis %s is not a plain variable" % sig(basis), where)
            continue
        defs = q.var_def_exprs(body, basis[1])
        r.check(len(defs) == 1 and sig(defs[0][1]) == "SealedState::next_unsealed($1)", "basis", "basis = next_unsealed(self)",
                "basis is defined as %s" % [sig(d[1]) for d in defs], where)
        # apply_tx_batch on the same variable with the full transaction set
        batches = q.calls_to(body, "UnsealedState::apply_tx_batch", "UnsealedState::apply_tx")
        r.check(len(batches) >= 1, "batch-call", "apply_tx_batch is called", "apply_block never applies the block's transactions", where)
        seal_blocks = [bi for bi, t in q.calls_to(body, "UnsealedState::seal")]
        for bi, t in batches:
            ce = body.rec_call(t, bi)
            recv, arg = ce[2][0], ce[2][1]
            r.check(recv[0] == "var" and recv[1] == basis[1], "batch-receiver", "the batch is applied to basis", "the batch is applied to %s" % sig(recv), body.where(bi))
            acc = {"Iterator::collect(HashSet::iter($2.transactions))", "Iterator::collect($2.transactions)"}
            if sig(arg) in acc:
                r.ok("batch-arg", "batch = all of block.transactions (%s)" % sig(arg), body.where(bi))
            elif q.has_unknown(arg):
                r.undecided("batch-arg", "batch argument %s" % sig(arg), body.where(bi))
            else:
                r.violation("batch-arg", "batch argument is %s, not the whole of block.transactions" % sig(arg), body.where(bi))
            # the `?`: with the batch failing, seal and Ok are unreachable
            f = Forcing(body, lambda x, ce=ce: V(1) if x == ce else None)
            r.check(not any(s in f.reach for s in seal_blocks) and b not in f.reach, "batch-error-propagates",
                    "a failing batch reaches neither seal nor Ok", "with apply_tx_batch failing, seal/Ok is still reachable", body.where(bi))
            r.check(all(body.dominates(bi, s) for s in seal_blocks), "order", "apply_tx_batch dominates seal", "seal is not dominated by apply_tx_batch", body.where(bi))


def r3_to_block(ctx):
    r = ctx.rule("R3", "to_block = Block{header: self.header(), transactions: all of self.0.transactions, proposer_action: self.1}")
    body = ctx.body("melstf::state::SealedState::to_block", r)
    rets = [x for x in q.ret_assignments(body)]
    r.anchor(rets, "return of to_block")
    e = mir.strip(rets[0][2])
    if e[0] != "agg":
        r.undecided("shape", "to_block returns %s" % sig(e))
        return
    q.check_table(r, "field", dict(e[3]), {
        "header": "SealedState::header($1)",
        "transactions": {"Iterator::collect(TransactionSet::iter($1.0.transactions))", "Iterator::collect(SealedState::transactions($1))"},
        "proposer_action": "$1.1",
    }, body.where(rets[0][0], rets[0][1]), prog=ctx.prog)


def shared(ctx):
    """'every honestly produced block is accepted' needs order-independence of the batch (C03.R2), a complete header (C07.R1) and a transaction commitment over the whole transactions (C07.R5)"""
    from rules.engine import core
    from rules.props import c03, c07
    core.import_rules(ctx, [c03.r2_batch_commutativity], "X03")
    core.import_rules(ctx, [c07.r1_header_map, c07.r5_tx_commitment], "X07")
    # 'changing the proposer action makes the block rejected': the fee vote reaches the header only through the multiplier step, so two votes
    # must never give the same step (C17.R2: the step is the exact formula in the vote; R3: no truncation / wrap on the way)
    from rules.props import c17
    core.import_rules(ctx, [c17.r2_formula, c17.r3_no_wrap], "X17")
    # 'every block produced from an honestly built sealed state is accepted by its parent': the proposer validates one transaction at a time, the parent the whole batch;
    # the two must apply the same rules — for the stake lock this is C13.R3 (in-state and in-batch locks cover the same outputs)
    from rules.props import c13
    core.import_rules(ctx, [c13.r3_lock_gate, c13.r3_new_stakes_flow], "X13")
    # 'succeeds exactly when all of the block's transactions are valid against that state': the batch validates every member against the pre-block state, so two
    # members spending one coin are told apart only by the batch-wide duplicate-input gate (C02.R3) and inputs created inside the block by C02.R2
    from rules.props import c02
    core.import_rules(ctx, [c02.r2_input_resolution, c02.r3_double_spend], "X02")


def r4_action_committed(ctx):
    r = ctx.rule("R4", "the proposer action is bound into the header: seal(Some(a)) applies a on every path, and applying a writes a coin {id: proposer_reward(height), "
                       "covhash: a.reward_dest} into the coin tree on every path (otherwise two blocks differing only in their action seal to the same header and both are accepted)")
    prog = ctx.prog
    seal = ctx.body("melstf::state::UnsealedState::seal", r)
    calls = q.call_exprs(seal, "apply_proposer_action")
    r.check(len(calls) == 1, "seal/call", "seal applies the proposer action", "seal calls apply_proposer_action %d times" % len(calls))
    for bi, e in calls:
        act = e[2][1]
        r.check(sig(q.novers(act)) == "try($2)", "seal/arg", "the applied action is the parameter's payload", "seal applies %s" % sig(act)[:80], seal.where(bi))
        # under Some(action) every path to the return passes the call
        discr = [x for b2, t in seal.iter_terms("switch") for x in [seal.rec_operand(t["discr"], b2, "T")] if x[0] == "discr" and sig(q.novers(x[1])) == "$2"]
        r.check(len(discr) >= 1, "seal/match", "seal matches on the action", "seal does not branch on the action")
        if discr:
            f = q.force(seal, {discr[0]: 1})
            wo = f.reach_from(0, avoid=[bi])
            r.check(not any(x in wo for x in seal.return_blocks()), "seal/some=>applied", "Some(action) ⇒ applied on every path", "a path through seal skips the proposer action although it is Some", seal.where(bi))
    apa = ctx.body("melstf::state::UnsealedState::apply_proposer_action", r)

    def commits(body, depth=0):
        """blocks of `body` whose call inserts the reward coin keyed by proposer_reward(height) with covhash action.reward_dest"""
        out = []
        for bi, e in q.call_exprs(body, "CoinMapping::insert_coin"):
            s_id, s_data = sig(q.novers(e[2][1])), sig(q.novers(e[2][2]))
            if s_id.startswith("CoinID::proposer_reward(") and ".height)" in s_id and "covhash: $2.reward_dest" in s_data.replace("$3.reward_dest", "$2.reward_dest"):
                out.append(bi)
        return out
    col = ctx.body("melstf::state::UnsealedState::collect_proposer_action_fee", r)
    ins = commits(col)
    r.check(len(ins) == 1, "collect/coin", "the reward coin carries action.reward_dest", "reward-coin insertions with covhash = action.reward_dest: %d" % len(ins))
    if ins:
        wo = col.reachable(0, removed=ins)
        r.check(not any(x in wo for x in col.return_blocks()), "collect/every-path", "written on every path", "a path through collect_proposer_action_fee returns without writing the reward coin: "
                "the action then leaves no trace in the header", col.where(ins[0]))
    cc = q.call_exprs(apa, "collect_proposer_action_fee")
    r.check(len(cc) == 1, "apply/collect", "apply_proposer_action collects the fee", "collect_proposer_action_fee calls: %d" % len(cc))
    if cc:
        wo = apa.reachable(0, removed=[cc[0][0]])
        r.check(not any(x in wo for x in apa.return_blocks()), "apply/every-path", "on every path", "a path through apply_proposer_action skips the reward coin", apa.where(cc[0][0]))
        a = q.novers(cc[0][1][2][1])
        r.check(a[0] == "param" and "ProposerAction" in apa.locals[a[1]]["ty"], "apply/arg", "forwards the action", "collect is called with %s" % sig(a)[:60])


# which activation predicate each stage of the state machine consults (owner function -> predicates), and which height constant each predicate tests
TIP_USES = {
    "melstf::state::SealedState::next_unsealed": {"tip_906"},
    "melstf::state::UnsealedState::apply_tip_909": {"tip_909a"},
    "melstf::state::UnsealedState::collect_proposer_action_fee": {"tip_906"},
    "melstf::state::UnsealedState::seal": {"tip_901", "tip_909"},
    "melstf::state::UnsealedState::transactions_root_hash": {"tip_908"},
    "melstf::state::applytx::apply_tx_batch_impl": {"tip_906"},
    "melstf::state::applytx::handle_faucet_tx": {"tip_906"},
    "melstf::state::melmint::create_builtins": {"tip_902"},
    "melstf::state::melmint::process_deposits_for_single_pool": {"tip_906"},
    "melstf::state::melmint::process_pegging": {"tip_902"},
    "melstf::state::melmint::process_swaps_for_single_pool": {"tip_906"},
    "melstf::state::melmint::process_withdrawals_for_single_pool": {"tip_906"},
    "melstf::genesis::GenesisConfig::realize": {"tip_906"},
}
TIP_CONSTS = {"tip_901": "TIP_901_HEIGHT", "tip_902": "TIP_902_HEIGHT", "tip_906": "TIP_906_HEIGHT", "tip_908": "TIP_908_HEIGHT", "tip_909": "TIP_909_HEIGHT", "tip_909a": "TIP_909A_HEIGHT"}


def r5_activation_table(ctx):
    r = ctx.rule("R5", "every stage consults the activation predicate of its own TIP, and every predicate tests its own height constant: the same transactions and block are "
                       "judged by the same rules on every node at every height", positional=False)
    prog = ctx.prog
    uses = {}
    for b in prog.bodies:
        if b.crate != "melstf" or b.kind == "Promoted":
            continue
        for bi, t in b.calls():
            n = mir.callee_name(t)
            if "UnsealedState::tip_9" in n and not t.get("exp"):
                own = b
                while own.kind == "Closure" and own.parent in prog.by_id:
                    own = prog.by_id[own.parent]
                uses.setdefault(getattr(own, "alias_of", None) or own.nname, {}).setdefault(n.split("::")[-1], b.where(bi))
    r.floor("stages consulting a TIP predicate", len(uses), 10)
    for own, exp in sorted(TIP_USES.items()):
        got = set(uses.get(own, {}))
        short = own.split("::")[-1]
        if got == exp:
            r.ok("uses/%s" % short, "%s consults %s" % (short, sorted(exp)))
            continue
        lost, new = exp - got, got - exp
        if lost and new and len(got) == len(exp):
            # same number of predicates, one exchanged for another: a substitution
            r.violation("uses/%s" % short, "%s consults %s where %s is the activation rule of that stage: between the two heights the stage runs under the wrong rule set"
                        % (short, sorted(new), sorted(lost)), uses[own][sorted(new)[0]])
        else:
            r.undecided("uses/%s" % short, "%s consults %s (reviewed: %s): moved or restructured, not decided" % (short, sorted(got), sorted(exp)))
    for own in sorted(set(uses) - set(TIP_USES)):
        r.undecided("uses/%s" % own.split("::")[-1], "%s consults %s: not in the reviewed table" % (own.split("::")[-1], sorted(uses[own])))
    for pred, const in sorted(TIP_CONSTS.items()):
        pb = prog.body("melstf::state::UnsealedState::" + pred)
        if pb is None:
            r.undecided("const/" + pred, "predicate %s not found" % pred)
            continue
        tc = q.call_exprs(pb, "UnsealedState::tip_condition")
        got = sorted({sig(e[2][1]).split("(")[0] for bi, e in tc})
        if got == [const]:
            r.ok("const/" + pred, "%s tests %s" % (pred, const))
        elif len(got) == 1 and got[0].startswith("TIP_") and got[0].endswith("_HEIGHT"):
            r.violation("const/" + pred, "%s tests %s instead of %s: the TIP activates at another TIP's height" % (pred, got[0], const), "%s:%s" % (pb.file, pb.line))
        else:
            r.undecided("const/" + pred, "%s tests %s: not decided" % (pred, got))


    # the predicate itself: on mainnet a TIP is active AT its activation height (height >= activation), not one block later
    tb = prog.body("melstf::state::UnsealedState::tip_condition")
    if tb is None:
        r.undecided("condition/at-activation", "tip_condition not found")
    else:
        dep = [(bi, q.novers(mir.strip(e))) for bi, _, e in q.ret_assignments(tb) if "$2" in sig(q.novers(e))]
        GOOD = {"PartialOrd::ge($1.height, $2)", "PartialOrd::le($2, $1.height)", "!PartialOrd::lt($1.height, $2)", "!PartialOrd::gt($2, $1.height)",
                "($1.height.0 >= $2.0)", "($2.0 <= $1.height.0)"}
        LATE = {"PartialOrd::gt($1.height, $2)", "PartialOrd::lt($2, $1.height)", "!PartialOrd::le($1.height, $2)", "!PartialOrd::ge($2, $1.height)",
                "($1.height.0 > $2.0)", "($2.0 < $1.height.0)"}
        EARLY_OR_INVERTED = {"PartialOrd::lt($1.height, $2)", "PartialOrd::le($1.height, $2)", "PartialOrd::gt($2, $1.height)", "PartialOrd::ge($2, $1.height)"}
        sg = sorted({sig(e) for _, e in dep})
        if len(sg) == 1 and sg[0] in GOOD:
            r.ok("condition/at-activation", "tip_condition: height >= activation")
        elif len(sg) == 1 and sg[0] in LATE:
            r.violation("condition/at-activation", "tip_condition answers %s: the block AT the activation height is still judged by the old rules" % sg[0], tb.where(dep[0][0]))
        elif len(sg) == 1 and sg[0] in EARLY_OR_INVERTED:
            r.violation("condition/at-activation", "tip_condition answers %s: the TIP is active before its height and inactive after it" % sg[0], tb.where(dep[0][0]))
        else:
            r.undecided("condition/at-activation", "tip_condition's activation-dependent answer is %s: not decided" % sg)


RULES = [r1_header_gate, r2_result_provenance, r3_to_block, r4_action_committed, r5_activation_table, shared]
