"""C14 — a state is confirmed only by valid signatures from a >2/3 stake majority."""
from fractions import Fraction

from rules.engine import mir, q
from rules.engine.mir import show
from rules.engine.q import sig
from rules.engine.sccp import Forcing

EXPLANATION = (
    "R1 signature gate: SealedState::confirm loops over the whole proof calling k.verify(header().hash(), sig); with the verification forced false "
    "neither the loop latch nor any Some(..) result is reachable, and Some(..) is reachable only through the loop's exhaustion edge. "
    "R2 threshold: the comparison deciding Some/None is put into the linear form a·present + b·total ⋗ 0 (present = Σ votes(epoch, k) over the "
    "proof's keys, total = total_votes(epoch)); the confirming side must have a > 0, b < 0 and −b/a = 2/3, with rounding allowed only on the "
    "lesser side of a strict comparison. R3 sources: epoch = self.height.epoch(), votes are read from self's stake set for the proof's keys; "
    "the returned state is self with the given proof."
    " R1 also requires that no proof entry can reach the next iteration without passing the verification (`verify/every-entry`). R2 accepts a fold with an addition step for `.sum()`, and - when the vote sums saturate - requires that a saturated total (u128::MAX) confirms nothing (`threshold/saturated-guard`, `threshold/saturated-total`)."
    " R2 `threshold/not-strict`: `>=` confirms on exactly two thirds — reported (no rounding involved). Shared: C01.R10 (the tally does not wrap)."
)
NOT_DECIDED = ["Ed25519 signature verification itself (tmelcrypt, trusted base)",
               "that votes()/total_votes() sums do not overflow (supply bound, C09)"]
ASSUMPTIONS = ["Ed25519PK::verify(msg, sig) returns true only for valid signatures"]
FN = "melstf::state::SealedState::confirm"


def _some_none(body):
    res = q.result_blocks(body)
    return [b for b, e in res["Some"]], [b for b, e in res["None"]]


def r1_signature_gate(ctx):
    r = ctx.rule("R1", "confirm: every (key, sig) of the proof is verified against header().hash(); one failure ⇒ None; Some only after the whole loop")
    body = ctx.body(FN, r)
    somes, nones = _some_none(body)
    r.anchor(somes, "Some(..) result of confirm")
    loops = q.loop_with_source(body, lambda s: True)
    loops = [l for l in loops if "$2" in sig(l[3])]
    if not loops:
        # the same gate spelled with an adapter: `proof.iter().all(|(k, sig)| k.verify(msg, sig))`, and `false ⇒ None`
        alls = [(bi, e) for bi, e in q.call_exprs(body, "Iterator::all") if "$2" in sig(e[2][0]) and e[2][1][0] == "closure"]
        if len(alls) == 1:
            abi, ae = alls[0]
            r.check(sig(mir.strip(ae[2][0])) in ("BTreeMap::iter($2)", "$2"), "loop/whole", "`all` ranges over the whole proof", "`all` ranges over %s" % sig(ae[2][0]), body.where(abi))
            c = ctx.prog.body(ae[2][1][1])
            caps = dict(ae[2][1][2]) if len(ae[2][1]) > 2 else {}
            ver = q.calls_to(c, "Ed25519PK::verify")
            rets = q.ret_assignments(c)
            r.check(len(ver) == 1 and len(rets) == 1 and q.is_call(rets[0][2], "Ed25519PK::verify"), "verify/present", "the predicate is the signature verification itself",
                    "the `all` predicate is not exactly one Ed25519PK::verify call (returns %s)" % [sig(x[2])[:80] for x in rets], body.where(abi))
            for vbi, vt in ver:
                e = q.subst(c.rec_call(vt, vbi), {}, {k.replace("_ref__", ""): v for k, v in caps.items()} | caps)
                r.check(sig(e[2][0]) == "$2.0", "verify/key", "verifying key = the entry's key", "verifying key = %s" % sig(e[2][0]), c.where(vbi))
                r.check(sig(q.novers(e[2][1])) in ("Header::hash(SealedState::header($1))", "Header::hash(SealedState::header(^self))"), "verify/message", "message = self.header().hash()", "message = %s" % sig(e[2][1]), c.where(vbi))
                r.check(sig(e[2][2]) == "$2.1", "verify/sig", "signature = the entry's signature", "signature = %s" % sig(e[2][2]), c.where(vbi))
            f = Forcing(body, lambda x, ae=ae: 0 if x == ae else None)
            alive = [b for b in somes if b in f.reach_from(abi)]
            r.check(not alive, "verify/false=>none", "with a failing signature no Some(..) is reachable", "with a failing signature Some(..) at bb%s is reachable" % alive, body.where(abi))
            wo = body.reachable(0, removed=[abi])
            r.check(not any(b in wo for b in somes), "some-after-loop", "Some(..) is reachable only after every signature was checked", "Some(..) is reachable without checking the signatures", body.where(abi))
            return
    if not loops:
        # the verification used as a FILTER: `proof.iter().filter(|(k, s)| k.verify(h, s))` keeps the entries that verify and drops the others — an invalid signature is
        # then ignored instead of voiding the proof ("every signature in the proof must be valid")
        for c in [n for n in ctx.prog.all_nested(body) if n is not body]:
            if not q.calls_to(c, "Ed25519PK::verify"):
                continue
            for b2 in ctx.prog.all_nested(body):
                for bi, e in q.call_exprs(b2, "Iterator::filter", "Iterator::filter_map", "Iterator::take_while", "Iterator::skip_while"):
                    if len(e[2]) > 1 and mir.strip(e[2][1])[0] == "closure" and mir.strip(e[2][1])[1] == c.nname:
                        r.violation("verify/false=>none", "the signature verification is the predicate of %s over the proof's entries: an entry whose signature does not verify is left out of the tally "
                                    "instead of voiding the proof — a proof carrying a valid quorum and any number of garbage entries confirms" % e[1].split("::")[-1], b2.where(bi))
                        return
    r.check(bool(loops), "loop", "loops over the proof", "confirm has no loop over the proof entries")
    if not loops:
        return
    h, blocks, latches, src = loops[0]
    r.check(sig(src) in ("BTreeMap::iter($2)", "$2"), "loop/whole", "loop source is the whole proof (%s)" % sig(src), "loop source is %s" % sig(src), body.where(h))
    ver = [(bi, t) for bi, t in q.calls_to(body, "Ed25519PK::verify") if bi in blocks]
    r.check(len(ver) >= 1, "verify/present", "verify is called in the loop", "no signature verification inside the loop", body.where(h))
    el = "elem(%s)" % sig(src)
    for bi, t in ver:
        e = body.rec_call(t, bi)
        where = body.where(bi)
        r.check(sig(e[2][0]) == el + ".0", "verify/key", "verifying key = the entry's key", "verifying key = %s" % sig(e[2][0]), where)
        r.check(sig(e[2][1]) == "Header::hash(SealedState::header($1))", "verify/message", "message = self.header().hash()", "message = %s" % sig(e[2][1]), where)
        r.check(sig(e[2][2]) == el + ".1", "verify/sig", "signature = the entry's signature", "signature = %s" % sig(e[2][2]), where)
        f = Forcing(body, lambda x, e=e: 0 if x == e else None)
        after = f.reach_from(bi)
        alive = [b for b in somes if b in after]
        r.check(not alive, "verify/false=>none", "with verify false no Some(..) is reachable", "with verify false Some(..) at bb%s is reachable" % alive, where)
        alive_l = [l for l in latches if l in after]
        r.check(not alive_l, "verify/false=>stop", "a failed verification does not continue the loop", "a failed verification continues the loop (bad signature skipped)", where)
    # every entry is verified: no path from the loop body's entry back to the header avoids the verification (an entry skipped on a special
    # case — a key without voting power, a duplicate — would be accepted with any signature)
    if ver:
        entry = q.loop_entry(body, h, blocks)
        vb = {bi for bi, t in ver}
        seen, st = {entry}, [entry]
        while st:
            x = st.pop()
            if x in vb:
                continue
            for s_ in body.succs(x):
                if s_ in blocks and s_ not in seen:
                    seen.add(s_)
                    st.append(s_)
        skipping = [l for l in latches if l in seen and l not in vb]
        r.check(not skipping, "verify/every-entry", "every proof entry passes through the verification", "a proof entry can reach the next iteration without its signature being verified", body.where(ver[0][0]))
    # Some only via exhaustion: cut the edge header-switch → exit
    exits = [(x, s) for x in blocks for s in body.succs(x) if s not in blocks]
    exhaust = [(x, s) for (x, s) in exits if x in body.succs(h) or x == h]
    reach = body.reachable(0, removed_edges=exhaust)
    r.check(not any(b in reach for b in somes), "some-after-loop", "Some(..) is reachable only after the loop is exhausted", "Some(..) is reachable without finishing the loop", body.where(h))


def r2_threshold(ctx):
    r = ctx.rule("R2", "the Some/None decision is a·present + b·total ⋗ 0 with a>0, b<0, −b/a = 2/3 on the confirming side; rounding only on the lesser side of a strict comparison")
    body = ctx.body(FN, r)
    somes, nones = _some_none(body)
    r.anchor(somes, "Some(..) result")

    def key(e):
        if q.is_call(e, "StakeSet::total_votes"):
            return "T"
        if q.is_call(e, "Iterator::sum") and q.contains(e, lambda x: x[0] == "closure"):
            return "P"
        if _is_sum_fold(ctx.prog, e) and q.is_call(mir.strip(e[2][0]), "Iterator::map"):
            return "P"
        return None
    atoms = []
    for e, c, bi in q.cmp_atoms(body):
        cm = q.as_cmp(e)
        d = q.lin(cm[1], key) - q.lin(cm[2], key)
        names = set(d.terms)
        if "P" in names or "T" in names:
            atoms.append((e, cm[0], d, bi))
    r.check(len(atoms) >= 1, "threshold/present", "a vote-threshold comparison exists", "confirm compares no vote totals: any proof with valid signatures confirms")
    # sums that saturate (total_votes / votes / the present sum fold with saturating_add) make the ratio meaningless once the total is saturated:
    # then confirm must refuse (`total == u128::MAX ⇒ None`), otherwise a minority can confirm against a clipped total
    tvb = ctx.prog.body("tip911_stakeset::StakeSet::total_votes")
    sat = False
    for bb_ in [body, tvb] + (ctx.prog.closures_of(tvb) if tvb is not None else []) + ctx.prog.closures_of(body):
        if bb_ is not None and q.calls_to(bb_, "saturating_add"):
            sat = True
    if sat:
        guard = [a for a in atoms if set(a[2].terms) == {"T"} and abs(a[2].const) == (1 << 128) - 1]
        r.check(bool(guard), "threshold/saturated-guard", "the vote sums saturate and a saturated total is refused", "the vote sums saturate, but confirm does not refuse a saturated total: "
                "with more than 2^128 staked, present and total are both clipped and a minority can reach the threshold")
    _only_three_causes(ctx, r, body, somes, atoms)
    for e, op, d, bi in atoms:
        where = body.where(bi)
        extra = [k for k in d.terms if k not in ("P", "T")]
        if not extra and set(d.terms) == {"T"} and abs(d.const) == (1 << 128) - 1 and op in ("Eq", "Ne"):
            # `total == u128::MAX` (the saturated total): an additional refusal is the safe direction — decide that it is one
            fs = Forcing(body, lambda x, e=e: (1 if op == "Eq" else 0) if x == e else None)
            r.check(not any(s_ in fs.reach for s_ in somes), "threshold/saturated-total", "a saturated total confirms nothing", "Some(..) is reachable although the total of the votes is saturated", where)
            continue
        if extra or d.const != 0:
            r.undecided("threshold/form", "comparison %s is not of the form a·present + b·total ⋗ 0 (%r)" % (sig(e)[:150], d), where)
            continue
        a, b = d.terms.get("P", Fraction(0)), d.terms.get("T", Fraction(0))
        # which outcome of the comparison reaches Some?
        f1 = Forcing(body, lambda x, e=e: 1 if x == e else None)
        f0 = Forcing(body, lambda x, e=e: 0 if x == e else None)
        some_if_true = any(s in f1.reach for s in somes)
        some_if_false = any(s in f0.reach for s in somes)
        rets_ = set(body.return_blocks())
        if not (rets_ & set(f1.reach_from(bi))) or not (rets_ & set(f0.reach_from(bi))):
            # one outcome of this comparison never returns at all (it ends in a panic): an assertion about the tallies (`debug_assert!(present <= total)`),
            # not the test that decides between Some and None
            r.info("threshold/assertion", "comparison %s is an assertion (one outcome does not return): not the deciding test" % sig(e)[:120], where)
            continue
        if some_if_true and some_if_false:
            r.violation("threshold/not-deciding", "Some(..) is reachable on both outcomes of the vote comparison", where)
            continue
        if not some_if_true and not some_if_false:
            r.violation("threshold/never-confirms", "Some(..) is reachable on neither outcome of the vote comparison", where)
            continue
        # normalise to: Some  <=>  a'·P + b'·T  (>|>=) 0
        if op in ("Gt", "Ge"):
            a2, b2, strict = a, b, op == "Gt"
        elif op in ("Lt", "Le"):
            a2, b2, strict = -a, -b, op == "Lt"
        else:
            r.violation("threshold/equality", "the vote comparison is an (in)equality test %s" % op, where)
            continue
        if not some_if_true:
            a2, b2, strict = -a2, -b2, not strict
        form = "%s·present + %s·total %s 0" % (a2, b2, ">" if strict else ">=")
        if not (a2 > 0 and b2 < 0):
            r.violation("threshold/polarity", "confirms when %s: more present votes must make confirmation easier, not harder "
                        "(e.g. the empty proof confirms, the full proof does not)" % form, where)
            continue
        ratio = -b2 / a2
        if ratio != Fraction(2, 3):
            r.violation("threshold/ratio", "confirms when present %s %s·total; the property requires the 2/3 threshold" % (">" if strict else ">=", ratio), where)
            continue
        # "more than two thirds": with `>=` a proof carrying exactly 2/3 of the voting power confirms — two conflicting blocks can then both be confirmed by
        # signer sets that overlap in only one third (exact, no rounding involved: both sides are integer multiples)
        if not strict and not d.flags:
            r.violation("threshold/not-strict", "confirms when %s: exactly two thirds of the voting power is enough, the property requires strictly more" % form, where)
            continue
        # rounding
        if d.flags:
            fl_on_P = _floor_on(q.as_cmp(e), key, "P")
            if fl_on_P or not strict:
                r.violation("threshold/rounding", "truncating division on the %s side of the comparison loses cases (%s)" % ("present" if fl_on_P else "total", sorted(d.flags)), where)
                continue
        # exactness: a product of a vote total computed in a machine integer clips (saturating), wraps or aborts once total ≥ 2^127: then `2·total` is no longer 2·total
        clipped = []
        for x in mir.walk(e):
            if not isinstance(x, tuple):
                continue
            ops_ = None
            if x[0] == "call" and x[1].startswith("core::num::<impl ") and x[1].split("::")[-1] in ("saturating_mul", "wrapping_mul", "overflowing_mul", "saturating_add", "wrapping_add", "unchecked_mul", "saturating_pow", "wrapping_pow"):
                ops_, how = x[2], x[1].split("::")[-1]
            elif x[0] == "bin" and x[1] in ("Mul", "MulWithOverflow", "Shl"):
                ops_, how = (x[2], x[3]), "`%s` on a machine integer" % {"Mul": "*", "MulWithOverflow": "*", "Shl": "<<"}[x[1]]
            if ops_ and any(q.contains(o, lambda y: isinstance(y, tuple) and key(y) is not None) for o in ops_ if isinstance(o, tuple)):
                clipped.append(how)
        if clipped:
            r.violation("threshold/clipped", "the threshold comparison multiplies a vote total with %s: once the active voting power reaches 2^127 the product is clipped or wraps "
                        "(or the call aborts), and then a proof signed by every staker does not confirm, or a minority one does" % sorted(set(clipped))[0], where)
            continue
        r.ok("threshold", "confirms when %s" % form, where)


def _only_three_causes(ctx, r, body, somes, atoms):
    """'adding a valid signature never turns a confirming proof into a non-confirming one', 'a proof signed by all stakers always confirms': confirm may answer None for
    three reasons only — a signature does not verify, the vote totals are saturated, the threshold is not met.  With every verification forced true, the total forced
    unsaturated and every threshold comparison forced to its confirming outcome, a None that is still reachable has another cause; it is reported when that cause is a
    `?` on a computation that contains no signature verification (a tally that fails for a signer without voting power, say)."""
    prog = ctx.prog
    tbl = {}
    for bi, t in q.calls_to(body, "Ed25519PK::verify"):
        tbl[body.rec_call(t, bi)] = 1
    for e, op, d, bi in atoms:
        if set(d.terms) == {"T"} and abs(d.const) == (1 << 128) - 1 and op in ("Eq", "Ne"):
            tbl[e] = 0 if op == "Eq" else 1
            continue
        f1 = Forcing(body, lambda x, e=e: 1 if x == e else None)
        f0 = Forcing(body, lambda x, e=e: 0 if x == e else None)
        t1, t0 = any(s_ in f1.reach for s_ in somes), any(s_ in f0.reach for s_ in somes)
        if t1 != t0:
            tbl[e] = 1 if t1 else 0

    def has_verify(x):
        for y in mir.walk(x):
            if isinstance(y, tuple) and y and y[0] == "closure":
                cb = prog.body(y[1])
                if cb is not None and any(q.calls_to(c_, "Ed25519PK::verify") for c_ in [cb] + prog.closures_of(cb)):
                    return True
            if isinstance(y, tuple) and y and y[0] == "call" and y[1].endswith("Ed25519PK::verify"):
                return True
        return False
    f = Forcing(body, lambda x: tbl.get(x))
    res = q.result_blocks(body)
    other = []
    for bb, e in res["None"]:
        if bb not in f.reach or not q.is_call(e, "from_residual"):
            continue
        if not has_verify(e):
            other.append((bb, e))
    if other:
        r.violation("none/other-cause", "confirm can answer None although every signature verifies, the total is not saturated and the threshold is met: `?` on %s — "
                    "a valid extra signature (e.g. of a key without voting power) can void a confirming proof" % sig(q.novers(other[0][1]))[:200], body.where(other[0][0]))
    else:
        r.ok("none/other-cause", "None only for a bad signature, a saturated total or a missed threshold (as far as `?` sites go)")


def _floor_on(cm, key, name):
    for side in (cm[1], cm[2]):
        l = q.lin(side, key)
        if name in l.terms and l.flags:
            return True
    return False


def _is_sum_fold(prog, e):
    return e[0] == "call" and e[1].split("::")[-1] == "fold" and len(e[2]) == 3 and q.const_val(e[2][1]) == 0 and q.is_add_op(prog, e[2][2])


def r3_sources(ctx):
    r = ctx.rule("R3", "epoch = self.0.height.epoch(); total = total_votes(self.0.stakes, epoch); present = Σ_{k ∈ proof keys} votes(self.0.stakes, epoch, k); result = {state: self, cproof}")
    body = ctx.body(FN, r)
    tv = q.calls_to(body, "StakeSet::total_votes")
    r.check(len(tv) == 1, "total/call", "total_votes is called once", "total_votes is called %d times" % len(tv))
    EP = "BlockHeight::epoch($1.0.height)"
    for bi, t in tv:
        e = body.rec_call(t, bi)
        r.check(sig(e) == "StakeSet::total_votes($1.0.stakes, %s)" % EP, "total/args", "total = %s" % sig(e), "total = %s" % sig(e), body.where(bi))
    sums = [(bi, t) for bi, t in q.calls_to(body, "Iterator::sum")]
    # `.sum()` or a fold from 0 whose step is an addition (`|a, b| a.saturating_add(b)`)
    sums += [(bi, t) for bi, t in q.calls_to(body, "Iterator::fold") if _is_sum_fold(ctx.prog, body.rec_call(t, bi))]
    r.check(len(sums) == 1, "present/sum", "present votes are a sum", "%d sums" % len(sums))
    for bi, t in sums:
        e = body.rec_call(t, bi)
        inner = mir.strip(e[2][0])
        ok = q.is_call(inner, "Iterator::map") and sig(inner[2][0]) in ("BTreeMap::keys($2)", "BTreeMap::iter($2)") and inner[2][1][0] == "closure"
        r.check(ok, "present/over-proof-keys", "summed over the proof's keys", "summed over %s" % sig(inner), body.where(bi))
        if ok:
            cb = ctx.prog.body(inner[2][1][1])
            caps = dict(inner[2][1][2])
            rr = q.ret_assignments(cb)
            # the term with the closure's captures resolved in confirm's own terms (whatever the captured locals are called or bundled into)
            t_ = q.subst_simplify(rr[0][2], {}, caps) if rr else ("unknown", "?")
            s = sig(t_)
            isv = q.is_call(t_, "StakeSet::votes") and len(t_[2]) == 3
            r.check(isv and sig(t_[2][0]) == "$1.0.stakes" and sig(t_[2][2]) == "$2", "present/closure", "each term = votes(self.0.stakes, epoch, k)", "each term = %s" % s, "%s:%s" % (cb.file, cb.line))
            ep = [sig(t_[2][1])] if isv else []
            r.check(ep == [EP], "present/epoch", "closure epoch = %s" % EP, "closure epoch = %s" % ep, body.where(bi))
    res = q.result_blocks(body)
    for b, e in res["Some"]:
        s = sig(dict(e[3])["0"])
        r.check(s == "ConfirmedState::ConfirmedState{state: $1, cproof: $2}", "result", "Some(ConfirmedState{state: self, cproof})", "result = %s" % s, body.where(b))


def shared(ctx):
    from rules.engine import core
    from rules.props import c13
    core.import_rules(ctx, [c13.r5_epoch_filters], "X13")
    from rules.props import c01
    core.import_rules(ctx, [c01.r10_no_wraparound], "X01")     # a vote tally that wraps around is not the voting power present


RULES = [r1_signature_gate, r2_threshold, r3_sources, shared]
