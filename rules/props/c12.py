"""C12 — covenant bytecode encoding is a bijection, so an address names one program."""
from rules.engine import mir, q
from rules.engine.q import sig, sigv, force
from rules.engine.sccp import V

EXPLANATION = (
    "Tables extracted from the MIR of OpCode::encode / OpCode::decode (switch on the variant discriminant / on the leading byte, resolved constants, resolved operand readers): "
    "T1 the OPCODE_* constants are pairwise distinct; T2 for every variant the byte written first by encode is the byte whose decode arm builds the same variant, and every variant "
    "has both arms; T3 operand layout agreement: the sequence of operand widths/endianness written equals the sequence read, field by field in the same order (Loop: iterations then count); "
    "T4 literals: PushB = length byte + bytes with encode refusing > 255, PushI = 32 bytes big-endian both ways, PushIC = length byte + minimal big-endian with both rejections present "
    "and necessary in decode (forced constant propagation); T5 unknown leading bytes reach only Err(InvalidOpcode); T6 Covenant::from_bytes consumes the whole input and propagates every "
    "decode error, to_bytes concatenates encode of every op, hash = hash_single(to_bytes()), from_ops/to_ops are the identity on the op list; T7 decode has no reachable panic site "
    "(the one slice is dominated by the > 32 rejection). "
    "T8 one weight: covenant_weight_from_bytes is from_bytes(b).map(weight).unwrap_or(0) — not a piecewise sum over separately decoded instructions, which loses the look-ahead "
    "by which Loop prices its body — and Covenant::weight is opcodes_weight over the whole list."
    " T4 reads the predicate of PushIC's leading-zero count (`== 0`) and requires the literal's bytes to be read on every path of the decode arm. T6 `collects/every`: no decoded instruction is dropped."
)
NOT_DECIDED = ["the arithmetic of PushIC's canonical-length formula is read, not proved", "serde (non-consensus) representation of OpCode"]
ASSUMPTIONS = ["std::io::Read for &[u8]: read_exact consumes exactly the buffer's length or fails"]
OP = "melvm::opcode::"


def _encode_table(ctx, r):
    b = ctx.body(OP + "OpCode::encode", r)
    adt = ctx.prog.adts.get("melvm::opcode::OpCode")
    r.anchor(adt, "ADT OpCode")
    variants = [v["name"] for v in adt["variants"]]
    sw = [(bi, t) for bi, t in b.iter_terms("switch") if sig(b.rec_operand(t["discr"], bi, "T")) == "discr($1)"]
    r.anchor(sw, "match on self in encode")
    bi, t = sw[0]
    table = {}
    wild = t["otherwise"]
    for val, tgt in t["targets"]:
        v = variants[int(val)]
        # follow the arm: straight-line until the blocks join (collect write_all calls in order)
        writes = []
        cur = tgt
        seen = set()
        cond = []
        while cur is not None and cur not in seen:
            seen.add(cur)
            tm = b.term(cur)
            if tm is None:
                break
            if tm["k"] == "call":
                n = mir.callee_name(tm)
                if n.endswith("write_all"):
                    e = b.rec_call(tm, cur)
                    writes.append((cur, e[2][1]))
                cur = tm["target"]
            elif tm["k"] in ("goto",):
                nxt = tm["t"]
                # stop at the join (block with several predecessors that is not part of this arm)
                if len(b.preds(nxt)) > 1 and nxt not in seen:
                    break
                cur = nxt
            elif tm["k"] in ("drop", "assert"):
                cur = tm["target"]
            elif tm["k"] == "switch":
                cond.append((cur, b.rec_operand(tm["discr"], cur, "T")))
                # take the non-error branch: the one from which a write_all is reachable
                nxts = b.succs(cur)
                pick = None
                for n_ in nxts:
                    if any(mir.callee_name(b.term(x)).endswith("write_all") for x in b.reachable(n_) if b.term(x) and b.term(x)["k"] == "call" and x not in seen):
                        pick = n_
                cur = pick
            else:
                break
        table[v] = dict(writes=writes, cond=cond, block=tgt)
    # wildcard arm?
    wt = b.term(wild)
    table["__wildcard__"] = not (wt and wt["k"] == "unreachable")
    return b, variants, table


def _reader_summary(prog, nname):
    """(bytes, endianness) read by a reader function/closure, or None"""
    rb = prog.body(nname)
    if rb is None:
        return None
    oks = q.result_blocks(rb)["Ok"]
    if len(oks) != 1:
        return None
    return _read_shape(rb, dict(oks[0][1][3])["0"])


def _read_shape(body, pay):
    """(bytes, endianness) of a value decoded as T::from_(be|le)_bytes(buf) / buf[0] where buf is a local [0u8; n] filled by read_exact — whatever buf is called"""
    pay = mir.strip(q.novers(pay))
    while pay[0] == "cast":
        pay = mir.strip(pay[1])
    arg, en = None, None
    if pay[0] == "call" and pay[1].split("::")[-1] in ("from_be_bytes", "from_le_bytes") and len(pay[2]) == 1:
        arg, en = mir.strip(pay[2][0]), ("be" if pay[1].endswith("from_be_bytes") else "le")
    elif pay[0] == "index" and q.const_val(pay[2]) == 0:
        arg, en = mir.strip(pay[1]), "be"
    elif pay[0] == "elem" or (pay[0] == "field" and pay[2] == "0"):
        return None
    if arg is None or arg[0] != "var":
        return None
    for s_, e in q.var_def_exprs(body, arg[1]):
        if e[0] == "repeat":
            n = int(e[2])
            return (n, en) if not (pay[0] == "index" and n != 1) else None
    return None


def _decode_table(ctx, r):
    b = ctx.body(OP + "OpCode::decode", r)
    sw = [(bi, t) for bi, t in b.iter_terms("switch") if sig(b.rec_operand(t["discr"], bi, "T")) == "try(opcode::read_byte($1))" and len(t["targets"]) > 5]
    r.anchor(sw, "match on the leading byte in decode")
    bi, t = sw[0]
    oks = q.result_blocks(b)["Ok"]
    errs = q.result_blocks(b)["Err"]
    table = {}
    all_targets = {tgt for v, tgt in t["targets"]} | {t["otherwise"]}
    for val, tgt in t["targets"]:
        reach = b.reachable(tgt, removed=[x for x in all_targets if x != tgt])
        built = [(bb, e) for bb, e in oks if bb in reach]
        table[int(val)] = dict(block=tgt, built=built, reach=reach)
    return b, t, table


def _operand_read_order(b, agg_block, agg_expr):
    """for Ok(OpCode::V{0: X, 1: Y..}) return per field (index, reader-callee, defining block)"""
    out = []
    inner = dict(agg_expr[3])["0"]
    for (fname, fe) in inner[3]:
        fe0 = mir.strip(fe)
        while fe0[0] == "cast":
            fe0 = mir.strip(fe0[1])
        callee = None
        if fe0[0] == "call":
            callee = fe0[1]
        site = None
        for cb, ce in q.all_call_exprs(b):
            if ce == fe0 and b.dominates(cb, agg_block):
                site = cb if site is None else site
        out.append((fname, callee, site, fe0))
    return out


def t1_constants(ctx):
    r = ctx.rule("T1", "the OPCODE_* constants are pairwise distinct")
    consts = {it["name"].split("::")[-1]: int(it["int"]) for it in ctx.prog.items if it["kind"] == "const" and it["name"].startswith("melvm::consts::OPCODE_") and "int" in it}
    r.floor("OPCODE constants", len(consts), 49)
    byval = {}
    for k, v in consts.items():
        byval.setdefault(v, []).append(k)
    dup = {v: ks for v, ks in byval.items() if len(ks) > 1}
    r.check(not dup, "distinct", "%d constants, all distinct" % len(consts), "colliding opcode constants: %s" % dup)


READERS = set()


def t2_t3_tables(ctx):
    READERS.clear()
    r = ctx.rule("T2", "per variant: encode's leading byte = the byte whose decode arm builds that variant; every variant has an encode arm and a decode arm")
    r3 = ctx.rule("T3", "per variant: operand widths/endianness written by encode = those read by decode, in field order")
    prog = ctx.prog
    eb, variants, enc = _encode_table(ctx, r)
    db, dsw, dec = _decode_table(ctx, r)
    r.floor("variants", len(variants), 49)
    r.check(not enc["__wildcard__"], "encode/no-wildcard", "encode has no wildcard arm", "encode has a wildcard arm")
    # decode: byte -> variant
    byte_of = {}
    for byte, d in dec.items():
        names = sorted({dict(e[3])["0"][2] for bb, e in d["built"]})
        if len(names) != 1:
            r.violation("decode/byte-%d" % byte, "decode arm for byte %d builds %s" % (byte, names or "nothing"), db.where(d["block"]))
            continue
        byte_of.setdefault(names[0], []).append(byte)
    for v in variants:
        key = v
        if v not in enc:
            r.violation("%s/no-encode-arm" % v, "encode has no arm for %s" % v)
            continue
        ws = enc[v]["writes"]
        lead = q.const_val(ws[0][1][1][0]) if ws and ws[0][1][0] == "array" and len(ws[0][1][1]) == 1 else None
        if lead is None:
            r.violation("%s/encode-leading" % v, "encode's first write for %s is %s, not a single constant byte" % (v, sig(ws[0][1]) if ws else "nothing"), eb.where(enc[v]["block"]))
            continue
        bs = byte_of.get(v, [])
        if not bs:
            r.violation("%s/no-decode-arm" % v, "no decode arm builds %s (encode writes byte 0x%02x)" % (v, lead), eb.where(enc[v]["block"]))
            continue
        r.check(bs == [lead], "%s/byte" % v, "%s ↔ 0x%02x" % (v, lead), "%s is encoded with leading byte 0x%02x but decoded from %s" % (v, lead, ["0x%02x" % x for x in bs]), eb.where(enc[v]["block"]))
        if v in ("PushB", "PushI", "PushIC"):
            continue
        # T3: operand layout
        wdesc = []
        for wb, we in ws[1:]:
            s = sig(we)
            ok = False
            for width, ty in ((1, "u8"), (2, "u16"), (4, "u32"), (8, "u64")):
                for en in ("be", "le"):
                    pre = "core::num::<impl %s>::to_%s_bytes((($1 as %s)." % (ty, en, v)
                    alt = "core::num::<impl %s>::to_%s_bytes(($1 as %s)." % (ty, en, v)
                    for p_ in (pre, alt):
                        if s.startswith(p_):
                            fld = s[len(p_):].split(")")[0]
                            wdesc.append((fld, width, en))
                            ok = True
            if not ok:
                wdesc.append(("?", s, "?"))
        d = dec[bs[0]]
        bb, agg = d["built"][0]
        rdesc = []
        order = _operand_read_order(db, bb, agg)
        sites = []
        for fname, callee, site, fe in order:
            summ = _reader_summary(prog, callee) if callee else None
            if summ is None:
                summ = _read_shape(db, fe)          # the read is spelled out in decode itself (reader inlined / written in place)
            if callee and prog.body(callee) is not None:
                READERS.add(callee)
            rdesc.append((fname, summ[0] if summ else "?", summ[1] if summ else "?"))
            sites.append(site)
        # field order of reads = order of sites by dominance
        read_order = [f for f, s_ in sorted(zip([x[0] for x in order], sites), key=lambda fs: (fs[1] if fs[1] is not None else 10 ** 6))]
        read_order_ok = all(sites[i] is not None and sites[i + 1] is not None and db.dominates(sites[i], sites[i + 1]) and sites[i] != sites[i + 1] for i in range(len(sites) - 1))
        if any(x[1] == "?" for x in rdesc) or any(x[0] == "?" for x in wdesc):
            r3.undecided("%s/layout" % v, "layout not recovered: writes %s reads %s" % (wdesc, rdesc), eb.where(enc[v]["block"]))
            continue
        r3.check(wdesc == rdesc, "%s/layout" % v, "%s operands %s" % (v, wdesc or "none"), "%s: encode writes operands %s but decode reads %s" % (v, wdesc, rdesc), eb.where(enc[v]["block"]))
        if len(order) > 1:
            r3.check(read_order_ok, "%s/read-order" % v, "fields are read in declaration order", "%s: decode reads its operands in a different order than fields %s" % (v, [x[0] for x in order]), db.where(bb))
            wfields = [x[0] for x in wdesc]
            r3.check(wfields == sorted(wfields), "%s/write-order" % v, "fields are written in declaration order", "%s: encode writes fields in order %s" % (v, wfields), eb.where(enc[v]["block"]))
    for v in byte_of:
        r.check(v in variants, "decode-builds-known/" + v, "known variant", "decode builds unknown variant %s" % v)
    # decode readers
    for nm in sorted(READERS | {"melvm::opcode::read_byte"}):          # the readers the decode arms actually use
        sm = _reader_summary(prog, nm)
        r3.check(sm is not None, "reader/" + nm.split("::")[-1], "reader %s reads %s" % (nm.split("::")[-1], sm), "reader %s not understood" % nm)


def t4_literals(ctx):
    r = ctx.rule("T4", "PushB: length byte + bytes (encode refuses > 255); PushI: 32 bytes big-endian; PushIC: length byte + minimal big-endian, both InvalidVarint rejections necessary")
    eb, variants, enc = _encode_table(ctx, r)
    db, dsw, dec = _decode_table(ctx, r)
    # --- PushB
    e = enc.get("PushB")
    r.anchor(e, "encode arm PushB")
    ws = [sig(w[1]) for w in e["writes"]]
    r.check(ws == ["array(OPCODE_PUSHB)", "array((Vec::len(($1 as PushB).0) as u8))", "($1 as PushB).0"], "PushB/encode", "opcode, length byte, bytes", "PushB encode writes %s" % ws)
    # `len > 255 ⇒ Err` or `len <= 255 ⇒ write, else Err`: the same test in either polarity
    guard = [(cb, x) for cb, c in e["cond"] for x, cx in q.atom_forms(c) if cx == "Lt(255, Vec::len(($1 as PushB).0))"]
    r.check(len(guard) == 1, "PushB/guard", "length > 255 is tested", "PushB encode does not test length > 255 (length byte would wrap)")
    if guard:
        f = force(eb, {guard[0][1]: 1})
        wr = [w[0] for w in e["writes"] if w[0] in f.reach_from(guard[0][0])]
        r.check(not wr, "PushB/guard=>err", "over-long literal ⇒ nothing written, Err(TooManyBytes)", "an over-long PushB is still written")
    d = [v for k, v in dec.items() if any(dict(x[1][3])["0"][2] == "PushB" for x in v["built"])]
    if d:
        bb, agg = d[0]["built"][0]
        pay = dict(dict(agg[3])["0"][3])["0"]
        dd = q.var_def_exprs(db, pay[1]) if pay[0] == "var" else []
        s = [sig(x[1]) for x in dd]
        r.check(any("from_elem(0, (try(opcode::read_byte($1)) as usize))" in x for x in s), "PushB/decode-len", "buffer length = the length byte", "PushB buffer is %s" % s, db.where(bb))
        re_ = [(cb, ce) for cb, ce in q.call_exprs(db, "Read::read_exact") if cb in d[0]["reach"]]
        r.check(len(re_) == 1 and sig(q.novers(re_[0][1][2][1])) == pay[1], "PushB/decode-read", "reads exactly that many bytes into the literal", "PushB reads %s" % [sig(x[1]) for x in re_], db.where(bb))
    # --- PushI
    e = enc.get("PushI")
    ws = [sig(w[1]) for w in e["writes"]]
    r.check(ws == ["array(OPCODE_PUSHI)", "ethnum::uint::api::<impl ethnum::U256>::to_be_bytes(($1 as PushI).0)"], "PushI/encode", "opcode + 32 bytes big-endian", "PushI encode writes %s" % ws)
    d = [v for k, v in dec.items() if any(dict(x[1][3])["0"][2] == "PushI" for x in v["built"])]
    if d:
        bb, agg = d[0]["built"][0]
        pay = sig(q.novers(dict(dict(agg[3])["0"][3])["0"]))
        r.check(pay == "ethnum::uint::api::<impl ethnum::U256>::from_be_bytes(buf)", "PushI/decode", "from_be_bytes(32-byte buffer)", "PushI decodes %s" % pay, db.where(bb))
        bd = [sig(x[1]) for x in q.var_def_exprs(db, "buf")]
        import re as _re2
        r.check(any(_re2.fullmatch(r"\[\d+; 32\]", x) for x in bd), "PushI/len", "32-byte buffer (whatever it is filled with before read_exact overwrites it)", "PushI buffer %s" % bd)
    # --- PushIC
    e = enc.get("PushIC")
    ws = [sig(q.novers(w[1])) for w in e["writes"]]
    BR = "ethnum::uint::api::<impl ethnum::U256>::to_be_bytes(($1 as PushIC).0)"
    LZ = "Iterator::count(Iterator::take_while(%s, closure[]))" % BR
    want = ["array(OPCODE_PUSHIC)", "array(SubWithOverflow(32, (%s as u8)).0)" % LZ, "std::array::<impl std::ops::Index<I> for [T; N]>::index(%s, RangeFrom::RangeFrom{start: %s})" % (BR, LZ)]
    if len(ws) == 3 and ws[1] == "array((SubWithOverflow(32, %s).0 as u8))" % LZ:
        ws[1] = want[1]          # (32 − lz) as u8  ≡  32 − (lz as u8): lz ≤ 32
    exact = ws == want or (len(ws) == 3 and ws[:2] == want[:2] and ws[2].startswith("std::array::<impl std::ops::Index<I> for [T; N]>::index(%s, " % BR) and LZ in ws[2])
    if not exact and len(ws) == 3 and ws[0] == want[0]:
        # another way of counting the leading zero bytes: accepted when the *same* count Z gives the length byte 32 − Z and the start of the slice [Z..]
        import re as _re
        m3 = _re.fullmatch(_re.escape("std::array::<impl std::ops::Index<I> for [T; N]>::index(%s, RangeFrom::RangeFrom{start: " % BR) + r"(.*)\}\)", ws[2])
        z = m3.group(1) if m3 else None
        m2 = z is not None and ws[1] in ("array(SubWithOverflow(32, (%s as u8)).0)" % z, "array((SubWithOverflow(32, %s).0 as u8))" % z)
        if m2 and LZ in z and z != LZ and "(%s as " % LZ != z[:len(LZ) + 5]:
            # the canonical count, but clamped / shifted (`.min(31)`, `.saturating_sub(1)`, ..): no longer the number of leading zero bytes, so some value
            # gets a non-minimal encoding — which decode rejects (encode and decode stop being inverse for it)
            r.violation("PushIC/encode", "PushIC is written with Z = %s, which is not the number of leading zero bytes for every value: the encoding is not minimal there and does not decode" % z[:120])
            exact = None
        elif m2 and BR in z:
            r.undecided("PushIC/encode", "PushIC is written as opcode, 32 − Z, bytes[Z..] with Z = %s: that Z counts the leading zero bytes is not decided for this spelling" % z[:120])
            exact = None
    if exact is not None and not exact and len(ws) < 3:
        # fewer writes were read than the arm makes (an assertion or a log branch between them splits the arm): nothing is decided about the ones not read
        r.undecided("PushIC/encode", "only %d of the PushIC arm's writes were read (%s)" % (len(ws), ws))
    elif exact is not None:
        r.check(exact, "PushIC/encode", "opcode, 32 − leading zero bytes, the remaining bytes", "PushIC encode writes %s" % ws)
    # what take_while counts: bytes equal to zero (the closure is printed as `closure[]` above, its test is read here)
    encb = ctx.prog.body("melvm::opcode::OpCode::encode")
    tws = [(c, bi, e_) for c in (ctx.prog.all_nested(encb) if encb is not None else []) for bi, e_ in q.call_exprs(c, "take_while")]
    for c, bi, e_ in tws:
        cl = mir.strip(e_[2][1]) if len(e_[2]) > 1 else None
        cb_ = ctx.prog.body(cl[1]) if cl and cl[0] == "closure" else None
        rr_ = q.ret_assignments(cb_) if cb_ is not None else []
        if len(rr_) == 1:
            t_ = sig(q.novers(mir.strip(rr_[0][2])))
            if t_ in ("Eq($2, 0)", "Eq(0, $2)"):
                r.ok("PushIC/encode-zero-test", "leading bytes are counted while they are zero")
            elif t_.startswith(("Eq(", "Ne(", "Lt(", "Gt(", "Le(", "Ge(")):
                r.violation("PushIC/encode-zero-test", "the leading bytes of a PushIC literal are counted while %s, not while they are zero: the length byte is not the minimal length" % t_, c.where(bi))
            else:
                r.undecided("PushIC/encode-zero-test", "take_while predicate %s not read" % t_[:80])
    d = [v for k, v in dec.items() if any(dict(x[1][3])["0"][2] == "PushIC" for x in v["built"])]
    r.check(bool(d), "PushIC/decode-arm", "decode arm present", "no decode arm for PushIC")
    if d:
        d = d[0]
        okb = [bb for bb, agg in d["built"]]
        LEN = "try(opcode::read_byte($1))"
        atoms = [(a, c, cb) for a, c, cb in q.cmp_atoms(db) if cb in d["reach"]]
        big = [a for a, c, cb in atoms if sig(q.novers(a)) in ("Gt(%s, 32)" % LEN, "Lt(32, %s)" % LEN)]
        canon = [a for a, c, cb in atoms if "leading_zeros" in c and LEN in sig(q.novers(a))]
        r.check(len(big) == 1, "PushIC/reject-long", "length > 32 is tested", "no 'length > 32' test (found %s)" % [c for a, c, cb in atoms])
        r.check(len(canon) == 1, "PushIC/reject-noncanonical", "minimal length is tested", "no canonical-length test (found %s)" % [c for a, c, cb in atoms])
        for nm, at in (("long", big), ("noncanonical", canon)):
            if at:
                op = q.as_cmp(at[0])[0]
                f = force(db, {at[0]: (0 if op == "Eq" else 1)})
                r.check(not any(o in f.reach for o in okb), "PushIC/%s=>err" % nm, "%s ⇒ Err(InvalidVarint)" % nm, "a %s PushIC is still decoded" % nm)
        bb, agg = d["built"][0]
        pay = sig(q.novers(dict(dict(agg[3])["0"][3])["0"]))
        import re as _re
        r.check(bool(_re.fullmatch(r"ethnum::uint::api::<impl ethnum::U256>::from_le_bytes\([A-Za-z_][A-Za-z_0-9]*(#\d+)?\)", pay)), "PushIC/value", "value = from_le_bytes(32-byte buffer)", "PushIC value = %s" % pay)
        # the bytes are actually read: every path to the PushIC result passes a read_exact into the prefix of the 32-byte buffer
        reads = [cb for cb, ce in q.call_exprs(db, "read_exact") if cb in d["reach"] and ("RangeTo" in sig(q.novers(ce)) or "buf" in sig(q.novers(ce)) or "blit" in sig(q.novers(ce)))]
        if reads:
            wo = db.reachable(0, removed=reads)
            r.check(not any(o in wo for o in okb), "PushIC/decode-read", "the literal's bytes are read on every path", "a PushIC can be decoded without its bytes being read from the input", db.where(reads[0]))
        else:
            r.violation("PushIC/decode-read", "the PushIC arm of decode never reads the literal's bytes (no read_exact into the buffer): every value decodes as 0 or is refused as non-canonical")
        rev = [cb for cb, ce in q.call_exprs(db, "reverse") if cb in d["reach"]]
        r.check(len(rev) == 1, "PushIC/reverse", "prefix reversed (big-endian on the wire)", "%d reversals" % len(rev))


def t5_unknown(ctx):
    r = ctx.rule("T5", "bytes without a decode arm reach only Err(InvalidOpcode)")
    db, dsw, dec = _decode_table(ctx, r)
    oks = [bb for bb, e in q.result_blocks(db)["Ok"]]
    reach = db.reachable(dsw["otherwise"])
    r.check(not any(o in reach for o in oks), "wildcard=>err", "the wildcard arm builds no opcode", "the wildcard arm of decode can build an opcode")
    errs = [sig(e) for bb, e in q.result_blocks(db)["Err"] if bb in reach]
    r.check(errs == ["Result::Err{0: DecodeError::InvalidOpcode{0: try(opcode::read_byte($1))}}"], "wildcard/variant", "Err(InvalidOpcode(byte))", "wildcard arm returns %s" % errs)
    r.floor("decode arms", len(dec), 49)


def t6_whole_input(ctx):
    r = ctx.rule("T6", "from_bytes loops until the input is empty, `?` on every decode; to_bytes = concat(encode(op)); hash = hash_single(to_bytes()); from_ops/to_ops identity")
    b = ctx.body("melvm::Covenant::from_bytes", r)
    oks = [bb for bb, e in q.result_blocks(b)["Ok"]]
    # the cursor is whatever decode reads from (the parameter itself or a local copy of it); names do not matter
    dc = q.call_exprs(b, "OpCode::decode")
    cur = sig(q.novers(mir.strip(dc[0][1][2][0]))) if len(dc) == 1 else None
    cur_ok = cur is not None and (cur in ("b", "$1") or any(sig(q.novers(mir.strip(d[1]))) in ("$1", "b") for d in q.var_def_exprs(b, cur)))
    r.check(len(dc) == 1 and cur_ok, "decode-call", "decode(&mut cursor over the input)", "decode calls: %s" % [sig(x[1]) for x in dc])
    emp = [(e, cb) for cb, e in q.call_exprs(b, "is_empty") if cur is not None and sig(q.novers(mir.strip(e[2][0]))) == cur]
    r.check(len(emp) == 1, "loop-cond", "loops on !cursor.is_empty()", "loop conditions: %s" % [sig(x[0]) for x in emp])
    if emp:
        f = force(b, {emp[0][0]: 0})
        r.check(not any(o in f.reach for o in oks), "ok-only-when-empty", "Ok only once the input is exhausted", "Ok is reachable with input left over")
    for cb, e in dc:
        f = force(b, {e: V(1)})
        after = f.reach_from(cb)
        loops = b.loops()
        latches = [l for h, bl, ls in loops for l in ls]
        r.check(not any(o in after for o in oks) and not any(l in after for l in latches), "error-propagates", "a decode error fails from_bytes", "a decode error is swallowed")
    pu = q.call_exprs(b, "Vec::push")
    acc = sig(q.novers(mir.strip(pu[0][1][2][0]))) if len(pu) == 1 else None
    r.check(len(pu) == 1 and cur is not None and sig(q.novers(pu[0][1][2][1])) == "try(OpCode::decode(%s))" % cur, "collects", "every decoded op is kept in order", "pushes: %s" % [sig(x[1]) for x in pu])
    if len(pu) == 1 and len(dc) == 1:
        # every decoded instruction is kept: from the decode call the loop cannot continue (or finish) without passing the push.  An instruction that is
        # silently dropped (padding, no-ops, ..) makes two byte strings decode to one program and shifts every relative jump and loop body after it
        latches_ = [l for h_, bl_, ls_ in b.loops() for l in ls_]
        wo = b.reachable(dc[0][0], removed=[pu[0][0]])
        bad = [x for x in latches_ + oks if x in wo]
        r.check(not bad, "collects/every", "no decoded op is dropped", "from the decode call the loop continues / Ok is reached without the push (bb%s): a decoded instruction can be dropped" % bad, b.where(pu[0][0]))
    for bb, e in q.result_blocks(b)["Ok"]:
        got = sig(q.novers(dict(e[3])["0"]))
        r.check(acc is not None and got in ("Covenant::Covenant{0: %s}" % acc, "Covenant::Covenant{0: Arc::new(%s)}" % acc), "result", "Covenant(collected ops)", "from_bytes returns %s" % got)
    tb = ctx.body("melvm::Covenant::to_bytes", r)
    # encode(op, &mut buffer) for every op of self.0 in order — as a `for` loop or as for_each over the same sequence; the buffer is what is returned
    en = [(c, bi, e) for c in ctx.prog.all_nested(tb) for bi, e in q.call_exprs(c, "OpCode::encode")]
    r.check(len(en) == 1, "to_bytes/encode", "one encode call per op", "encode calls: %s" % [sig(x[2]) for x in en])
    SEQ = ("$1.0", "core::slice::<impl [T]>::iter($1.0)")
    buf = None
    for c, bi, e in en:
        if c is tb:
            loops = [l for l in q.loop_with_source(tb, lambda s_: True) if bi in l[1]]
            r.check(len(loops) == 1 and sig(mir.strip(loops[0][3])) in SEQ and sig(q.novers(e[2][0])) == "elem(%s)" % sig(loops[0][3]), "to_bytes/loop", "loops over every op",
                    "the encoded op %s is not the element of a loop over self.0 (%s)" % (sig(e[2][0]), [sig(l[3]) for l in loops]))
            buf = sig(q.novers(mir.strip(e[2][1])))
        else:
            fe = [(b2, x) for b2, x in q.call_exprs(tb, "for_each") if x[2][1][0] == "closure" and x[2][1][1] == c.nname]
            r.check(len(fe) == 1 and sig(mir.strip(fe[0][1][2][0])) in SEQ and sig(e[2][0]) == "$2", "to_bytes/loop", "for_each over every op",
                    "encode is called in a closure that is not for_each over self.0 (%s)" % [sig(x[1])[:80] for x in fe])
            cap = q.closure_captures(tb, c.nname)
            be = mir.strip(e[2][1])
            buf = sig(q.novers(mir.strip(cap.get(be[1], cap.get("_ref__" + be[1].replace("_ref__", ""), ("unknown", ""))) if be[0] == "upvar" else be)))
    rr = q.ret_assignments(tb)
    r.check(bool(rr) and buf is not None and sig(q.novers(mir.strip(rr[0][2]))) == buf, "to_bytes/result", "returns the buffer the ops were encoded into", "to_bytes returns %s (ops are encoded into %s)" % (sig(rr[0][2]) if rr else "?", buf))
    h = ctx.body("melvm::Covenant::hash", r)
    rr = q.ret_assignments(h)
    r.check(rr and sig(rr[0][2]) == "tmelcrypt::hash_single(Covenant::to_bytes($1))", "hash", "hash = hash_single(to_bytes())", "hash returns %s" % (sig(rr[0][2]) if rr else "?"))
    fo = ctx.body("melvm::Covenant::from_ops", r)
    rr = q.ret_assignments(fo)
    r.check(rr and sig(rr[0][2]) == "Covenant::Covenant{0: Arc::new(std::slice::<impl [T]>::to_vec($1))}", "from_ops", "from_ops copies the op list", "from_ops returns %s" % (sig(rr[0][2]) if rr else "?"))
    to = ctx.body("melvm::Covenant::to_ops", r)
    rr = q.ret_assignments(to)
    r.check(rr and sig(rr[0][2]) in ("$1.0", "std::slice::<impl [T]>::to_vec($1.0)"), "to_ops", "to_ops copies the op list", "to_ops returns %s" % (sig(rr[0][2]) if rr else "?"))
    w = ctx.body("melvm::Covenant::weight", r)
    rr = q.ret_assignments(w)
    r.check(rr and sig(rr[0][2]) == "opcode::opcodes_weight($1.0)", "weight", "weight = opcodes_weight(ops)", "weight returns %s" % (sig(rr[0][2]) if rr else "?"))


def t7_no_panic(ctx):
    r = ctx.rule("T7", "decode / read_byte / the operand readers contain no reachable panic site: no unwrap/expect/plain index; the PushIC slice is dominated by the > 32 rejection")
    prog = ctx.prog
    db, dsw, dec = _decode_table(ctx, r)
    for b in [db] + prog.closures_of(db) + [prog.body("melvm::opcode::read_byte")]:
        ctx.analysed(b)
        for bi, t in b.calls():
            n = mir.callee_name(t)
            last = n.split("::")[-1]
            short = b.nname.split("::")[-1]
            if last in ("unwrap", "expect", "unwrap_unchecked") or "panicking" in n:
                r.violation("%s/%s" % (short, last), "%s calls %s" % (b.nname, n), b.where(bi))
            if last in ("index", "index_mut"):
                e = b.rec_call(t, bi)
                LEN = "try(opcode::read_byte($1))"
                guard = [a for a, c, cb in q.cmp_atoms(b) if sig(q.novers(a)) in ("Gt(%s, 32)" % LEN, "Lt(32, %s)" % LEN)]
                if guard and "RangeTo{end: (%s as usize)}" % LEN in sig(q.novers(e)):
                    f = force(b, {guard[0]: 1})
                    r.check(bi not in f.reach, "%s/slice-guarded" % short, "buf[..len] unreachable when len > 32", "buf[..len] is reachable with len > 32 (out-of-range slice panics)", b.where(bi))
                else:
                    r.violation("%s/index" % short, "%s indexes %s without a recognised guard" % (b.nname, sig(e)[:100]), b.where(bi))
        for bi, t in b.iter_terms("assert"):
            if t["msg"] == "BoundsCheck":
                ops = [b.rec_operand(o, bi, "T") for o in t["msg_ops"]]
                ok = q.const_val(ops[0]) is not None and q.const_val(ops[1]) is not None and q.const_val(ops[1]) < q.const_val(ops[0])
                r.check(ok, "%s/bounds@%s" % (b.nname.split("::")[-1], sig(ops[1])), "constant index within a fixed-size array", "index %s of length %s can be out of bounds" % (sig(ops[1]), sig(ops[0])), b.where(bi))
            elif t["msg"].startswith("Overflow"):
                ops = [b.rec_operand(o, bi, "T") for o in t["msg_ops"]]
                s = " ".join(sig(o) for o in ops)
                # 32 − leading_zeros/8 : leading_zeros ≤ 256 ⇒ /8 ≤ 32
                ok = t["msg"] == "Overflow(Sub)" and q.const_val(ops[0]) == 32 and "Div(" in sig(ops[1]) and "leading_zeros" in sig(ops[1]) and sig(ops[1]).endswith(", 8)")
                r.check(ok, "%s/arith@%s" % (b.nname.split("::")[-1], t["msg"]), "32 − leading_zeros/8 cannot underflow (leading_zeros ≤ 256)", "%s on %s may overflow" % (t["msg"], s[:120]), b.where(bi))


def t8_one_weight(ctx):
    r = ctx.rule("T8", "weight is the same from bytes and from instructions: covenant_weight_from_bytes(b) = Covenant::from_bytes(b).map(weight).unwrap_or(0) and "
                       "Covenant::weight = opcodes_weight over the whole instruction list (one weighing routine, applied to the whole decoded program)", positional=False)
    from rules.props import c05
    c05.weigher_def(ctx, r)
    wb = ctx.body("melvm::Covenant::weight", r)
    rets = q.ret_assignments(wb)
    e = rets[0][2] if len(rets) == 1 else None
    if e is not None and q.is_call(e, "opcodes_weight") and len(e[2]) == 1:
        a = sig(q.novers(e[2][0]))
        if "index(" in a or "Range" in a or "split" in a or "skip" in a or "take" in a:
            r.violation("weight/whole", "Covenant::weight weighs only part of the instruction list: %s" % a[:140], wb.where(rets[0][0]))
        elif "$1" in a and ".0" in a:
            r.ok("weight/whole", "Covenant::weight = opcodes_weight(%s)" % a[:80], wb.where(rets[0][0]))
        else:
            r.undecided("weight/whole", "argument of opcodes_weight not recognised: %s" % a[:140], wb.where(rets[0][0]))
    elif e is not None and not q.has_unknown(e):
        r.violation("weight/whole", "Covenant::weight returns %s, not opcodes_weight of its instruction list" % sig(e)[:140], "%s:%s" % (wb.file, wb.line))
    else:
        r.undecided("weight/whole", "Covenant::weight not understood")


RULES = [t1_constants, t2_t3_tables, t4_literals, t5_unknown, t6_whole_input, t7_no_panic, t8_one_weight]
