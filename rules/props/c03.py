"""C03 — batch and block application is order-independent and deterministic."""
from rules.engine import mir, q
from rules.engine.q import sig, sigv, force

EXPLANATION = (
    "R1 unordered-source inventory: every iteration over a HashMap/HashSet (std or imbl) and every rayon parallel iterator in the three crates is found through the resolved "
    "callee and receiver types, and its consumer is classified: insensitive (sum/count/max/min/all/any, collect into a keyed or ordered container, try_for_each with an Ok/Err result, "
    "folds/reductions whose closure is max/min/saturating_add, retain, for-loops whose effects are keyed inserts and constant early errors, collect into a Vec that is sorted) or "
    "order-sensitive (collect into a Vec, next/last/nth/find/position/enumerate/zip/skip/take, other folds, pushes). The one confirmed escaping site — apply_block's Vec of the block's "
    "transaction set — must flow only into apply_tx_batch (obligation R2). R7 batch-invariant reads: no validation body under apply_tx_batch_impl (other than create_next_state and the speed fold) reads transactions / fee_pool / tips / dosc_speed of the state being extended. R2 batch-order commutativity: in create_next_state no remove_coin may be followed (on any path) by an "
    "insert_coin of a batch output, fee accumulators use commutative updates, and the other batch loops only perform keyed inserts. R3 ambient nondeterminism: Instant::now / elapsed "
    "flow only into logging and statistics; no RNG, thread-id or environment reads. R4 the transaction commitment is built from an ordered map / a sorted vector. "
    "R5 global state: the only statics are statistics counters (never read on a path into state) and the inflator table, a pure function of its index."
    " R5 also requires the fill path of the inflator table to hand back the entry at the requested index (`inflator/result`: lookup and fill are separate critical sections)."
    " R1 requires the first sort of a sequence drawn from a map to be total (whole element or the map key). R7 also reports a whole-state read (seal/header of the state being extended; today's height-0 fallback of the covenant's last header is the recorded finding D28). Imports C02.R3 (in-batch double-spend detection does not depend on positions) and C13.R3f."
    ' Imports C02.R5 (what a batch does to the coin tree does not depend on what earlier calls of the same block recorded).'
)
NOT_DECIDED = ["extensional equality with one-at-a-time application in every dependency-respecting order (an equality of commitments over all batches)",
               "iteration order of novasmt::Tree::iter (only used for commutative count increments)"]
ASSUMPTIONS = ["rayon's try_for_each/try_fold/try_reduce/collect visit every element; which error is reported first is unspecified (only Ok/Err is consumed)"]

UNORDERED_TYPES = ("std::collections::HashMap", "std::collections::HashSet", "hashbrown::", "imbl::HashMap", "imbl::HashSet", "imbl::hashmap", "imbl::hashset", "dashmap::")
ITER_METHODS = ("iter", "into_iter", "values", "keys", "drain", "retain", "iter_mut", "values_mut", "into_values", "into_keys", "par_iter", "into_par_iter", "par_iter_mut")
KEYED_TARGETS = ("HashMap<", "HashSet<", "BTreeMap<", "BTreeSet<", "OrdMap<", "OrdSet<", "TransactionSet", "imbl::HashMap", "FxHashMap", "FxHashSet")
INSENSITIVE = {"sum", "count", "max", "min", "all", "any", "product", "max_by_key", "min_by_key", "retain", "extend", "is_empty", "len", "contains", "contains_key"}
SENSITIVE = {"next", "last", "nth", "find", "find_map", "position", "enumerate", "zip", "skip", "take", "rev", "step_by", "first", "peekable", "skip_while", "take_while", "scan", "chain", "cmp", "eq", "partial_cmp"}
ADAPTERS = {"map", "filter", "filter_map", "cloned", "copied", "flat_map", "inspect", "flatten", "into_iter", "iter", "values", "keys", "par_iter", "into_par_iter"}
KEYED_EFFECTS = ("::insert", "::insert_coin_count", "::add_stake", "::insert_coin", "::remove", "::entry", "as std::iter::Extend<(K, V)>>::extend")
PURE_OK = ("clone", "hash", "hash_nosigs", "stdcode", "serialize", "deserialize", "unwrap", "expect", "coin_count", "get", "get_coin", "deref", "as_ref", "borrow", "to_vec", "into", "from",
           "next", "branch", "from_residual", "ne", "eq", "lt", "le", "gt", "ge", "is_some", "is_none", "is_empty", "len", "new", "default", "inner", "count", "iter", "into_iter", "drop",
           "add", "sub", "saturating_add", "saturating_sub", "index", "to_string", "fmt", "epoch", "as_bytes", "to_bytes")
COMMUTATIVE_CALLS = ("max", "min", "saturating_add", "wrapping_add", "saturating_mul", "wrapping_mul", "bitor", "bitand", "bitxor")


def _is_unordered_source(b, t):
    n, p = mir.callee_name(t), mir.callee_path(t)
    last = n.split("::")[-1]
    if last not in ITER_METHODS:
        return None
    g = " ".join((t["fn"] or {}).get("gargs", []))
    recv_ty = ""
    if t["args"]:
        a = t["args"][0]
        if a["k"] in ("copy", "move"):
            recv_ty = b.locals[a["place"]["l"]]["ty"]
    blob = " ".join([n, g, recv_ty])
    if "rayon" in n or "rayon" in p or last.startswith("par_") or last == "into_par_iter":
        return "rayon"
    if any(u in blob for u in UNORDERED_TYPES) or "FxHash" in blob or "HashMap<" in recv_ty or "HashSet<" in recv_ty:
        # ordered imbl/btree containers are fine
        if "OrdMap" in blob or "BTree" in blob:
            return None
        return "hash-iteration"
    return None


def _loop_effects(prog, b, blocks, depth=0):
    """classify the calls inside a loop body: (sensitive, unknown, keyed) lists of callee names"""
    sens, unk, keyed = [], [], []
    for bi in sorted(blocks):
        t = b.term(bi)
        if not t or t["k"] != "call" or t["exp"]:
            continue
        n = mir.callee_name(t)
        last = n.split("::")[-1]
        if last in ("push", "push_back", "push_front", "push_str", "extend_from_slice", "write_all", "write"):
            sens.append((n, bi))
        elif any(n.endswith(k) for k in KEYED_EFFECTS):
            keyed.append((n, bi))
        elif last in PURE_OK or "log::" in n or "fmt::" in n or n.startswith("core::fmt") or "Argument" in n:
            continue
        else:
            # does it take a &mut argument?  (anything else is a pure read for our purposes)
            mut = False
            for a in t["args"]:
                if a["k"] in ("copy", "move") and b.locals[a["place"]["l"]]["ty"].startswith("&mut"):
                    mut = True
            if mut:
                unk.append((n, bi))
    return sens, unk, keyed


def _sort_total(b, t, bi):
    """does this sort call put the elements of a sequence drawn from a map/set into an order that depends on the elements alone?  `sort`/`sort_unstable`
    (whole elements, which are distinct) and a key that is the whole element or its first component (the map key) do; a key that is some other
    projection (`|s| s.1.syms_staked`) leaves elements with equal keys in the order the unordered source produced them.  None = not read."""
    n = mir.callee_name(t).split("::")[-1]
    if n in ("sort", "sort_unstable"):
        return True
    if n in ("sort_by_key", "sort_unstable_by_key", "sort_by_cached_key"):
        e = b.rec_call(t, bi)
        c = mir.strip(e[2][1]) if len(e[2]) > 1 else None
        cb = b.prog.body(c[1]) if c and c[0] == "closure" else None
        rr = q.ret_assignments(cb) if cb is not None else []
        if len(rr) != 1:
            return None
        k = sig(q.novers(mir.strip(rr[0][2])))
        if k in ("$2", "$2.0", "$2.0.0"):
            return True
        if k.startswith("$2.") or k.startswith("$2"):
            return False
        return None
    return None


def _sorted_afterwards(b, vec_expr, after_block):
    sorts = []
    for bi, t in b.calls():
        n = mir.callee_name(t).split("::")[-1]
        if n.startswith("sort") and b.dominates(after_block, bi):
            e = b.rec_call(t, bi)
            recv = mir.strip(e[2][0])
            by_def = False
            if recv[0] == "var":
                # the receiver is a variable holding the collected vector (whatever it is called, also inside a spliced helper)
                by_def = any(q.novers(mir.strip(d[1])) == q.novers(mir.strip(vec_expr)) for d in q.var_def_exprs(b, recv[1]))
            if by_def or q.novers(e[2][0]) == q.novers(vec_expr) or sig(q.novers(e[2][0])) in sig(q.novers(vec_expr)):
                sorts.append((bi, t))
    if not sorts:
        return False
    # the first sort decides: a later stable sort by another key refines an order that must already be canonical
    first = [x for x in sorts if not any(y is not x and b.dominates(y[0], x[0]) and y[0] != x[0] for y in sorts)] or sorts[:1]
    return _sort_total(b, first[0][1], first[0][0]) is not False


def _closure_class(prog, c_expr):
    """class of a fold/reduce closure: 'commutative' if every Ok/plain result is op(acc, term) with a commutative op"""
    cb, first = q.callable_body(prog, c_expr)       # a closure, or a function item passed by name (`try_reduce(id, faster_of)`)
    if cb is None:
        return "unknown"
    outs = []
    res = q.result_blocks(cb)
    for bb, e in res["Ok"] + res["Some"]:
        outs.append(dict(e[3])["0"])
    for bb, e in res["other"]:
        outs.append(e)
    if not outs:
        return "unknown"
    for o in outs:
        o = mir.strip(o)
        if not (o[0] == "call" and o[1].split("::")[-1] in COMMUTATIVE_CALLS and len(o[2]) == 2):
            return "other:" + sig(o)[:60]
        if not any(a[0] == "param" and a[1] == first for a in o[2]):
            return "no-accumulator:" + sig(o)[:60]
    return "commutative"


def r1_inventory(ctx):
    r = ctx.rule("R1", "every unordered iteration source has an order-insensitive consumer; the block's transaction set escapes only into apply_tx_batch")
    prog = ctx.prog
    n_sites = 0
    seen_keys = {}
    for b in prog.bodies:
        if b.kind == "Promoted":
            continue
        loops = None
        for bi, t in b.calls():
            kind = _is_unordered_source(b, t)
            if not kind:
                continue
            n_sites += 1
            ctx.analysed(b)
            e = b.rec_call(t, bi)
            # e may have been simplified away (iter() on slices etc.); use the raw call otherwise
            src_sig = sig(q.novers(e))[:90]
            key = "%s@%s" % (b.nname.replace("melstf::state::", "").replace("tip911_stakeset::", "").replace("{closure#", "c").replace("}", ""), src_sig)
            seen_keys[key] = seen_keys.get(key, 0) + 1
            if seen_keys[key] > 1:
                key += "#%d" % seen_keys[key]
            where = b.where(bi)
            # (1) for-loop source?
            if loops is None:
                loops = q.loop_with_source(b, lambda s: True)
            lp = [l for l in loops if q.novers(l[3]) == q.novers(e) or (q.contains(l[3], lambda x: x == e) and _only_adapters(l[3], e))]
            if lp:
                sens, unk, keyed = _loop_effects(prog, b, lp[0][1])
                sens = [s for s in sens if not _pushed_vec_sorted(b, s, lp[0])]
                if sens:
                    r.violation(key, "loop over an unordered container performs order-sensitive effects %s" % [mir.short(s[0]) for s in sens], where)
                elif unk:
                    r.undecided(key, "loop over an unordered container calls %s with &mut arguments" % [mir.short(s[0]) for s in unk], where)
                else:
                    r.ok(key, "for-loop with keyed effects only (%s)" % sorted({mir.short(k[0]) for k in keyed}), where)
                continue
            # (2) consumers: walk outwards through direct parents (non-logging calls), classify every terminal
            calls_ne = [(cb, x) for cb, x in q.all_call_exprs(b) if not b.term(cb)["exp"] and x[0] == "call"]
            verdicts = []
            frontier = [e]
            seen = set()
            steps = 0
            while frontier and steps < 50:
                steps += 1
                cur = frontier.pop()
                if cur in seen:
                    continue
                seen.add(cur)
                parents = [x for cb, x in calls_ne if x != cur and any(mir.strip(a) == cur or a == cur for a in x[2])] if True else []
                parents = list(dict.fromkeys(parents))
                # taking individual elements by hand (`.next()`), outside any for-loop over this source
                loop_srcs = [q.novers(l[3]) for l in loops]
                if q.novers(cur) not in loop_srcs:
                    for cb, x in q.all_call_exprs(b):
                        if b.term(cb)["exp"] and mir.callee_path(b.term(cb)) != "std::iter::Iterator::next":
                            continue
                        if q.contains(x, lambda y: isinstance(y, tuple) and y and y[0] in ("next", "elem") and len(y) > 1 and mir.strip(y[1]) == cur):
                            verdicts.append(("sensitive", "takes individual elements (`next`) of an unordered iteration"))
                            break
                if not parents:
                    rets = [x[2] for x in q.ret_assignments(b)]
                    if any(mir.strip(x) == cur for x in rets):
                        if b.kind == "Closure" and _passed_to_adapter(prog, b):
                            verdicts.append(("ok", "iterator returned by a flat_map/map closure: classified with the enclosing chain in the parent"))
                        else:
                            callers = prog.callers_of(b.id)
                            if callers:
                                verdicts.append(("undecided", "returns an unordered iterator to %s" % [prog.by_id[c].nname for c in callers]))
                            else:
                                verdicts.append(("ok", "unordered iterator handed to external callers only (public accessor, no workspace caller)"))
                    elif cur == e and mir.callee_name(t).split("::")[-1] == "retain":
                        verdicts.append(("ok", "retain: per-element predicate"))
                    elif cur == e:
                        verdicts.append(("undecided", "consumer of %s not found" % src_sig))
                    continue
                for pnode in parents:
                    v, why, cont = _classify_node(prog, b, pnode, kind)
                    if cont:
                        frontier.append(pnode)
                    else:
                        verdicts.append((v, why))
            if not verdicts:
                r.undecided(key, "no consumer classified", where)
            elif any(v == "sensitive" for v, w in verdicts):
                r.violation(key, "; ".join(w for v, w in verdicts if v == "sensitive"), where)
            elif any(v == "undecided" for v, w in verdicts):
                r.undecided(key, "; ".join(w for v, w in verdicts if v == "undecided"), where)
            else:
                r.ok(key, "; ".join(dict.fromkeys(w for v, w in verdicts)), where)
    r.floor("unordered sources", n_sites, 14)


def _only_adapters(expr, src):
    x = expr
    while x != src:
        if x[0] == "call" and x[1].split("::")[-1] in ADAPTERS and x[2]:
            x = x[2][0]
        elif x[0] in ("try", "mutated"):
            x = x[1]
        else:
            return False
    return True


def _pushed_vec_sorted(b, s, loop):
    n, bi = s
    e = b.rec_call(b.term(bi), bi)
    exits = [s_ for x in loop[1] for s_ in b.succs(x) if s_ not in loop[1]]
    for ex in exits:
        if _sorted_afterwards(b, e[2][0], ex):
            return True
    return False


def _passed_to_adapter(prog, c):
    parent = prog.by_id.get(c.parent)
    if parent is None:
        return False
    for bi, e in q.all_call_exprs(parent):
        if e[0] == "call" and e[1].split("::")[-1] in ("flat_map", "map", "flat_map_iter") and any(a[0] == "closure" and a[1] == c.nname for a in e[2]):
            return True
    return False


def _classify_chain(prog, b, top, src, kind="hash-iteration"):
    """walk from src outwards through `top`"""
    chain = []
    x = top
    path = []

    def find(x, acc):
        if x == src:
            return acc
        if isinstance(x, tuple):
            if x[0] == "call":
                for a in x[2]:
                    r_ = find(a, acc + [x])
                    if r_ is not None:
                        return r_
            elif x[0] in ("try", "mutated", "field", "vfield", "branch", "elem", "next"):
                return find(x[1], acc + [x])
        return None
    path = find(top, [])
    if path is None:
        return "undecided", "consumer chain not recovered"
    path = list(reversed(path))  # innermost first
    names = []
    for node in path:
        if node[0] != "call":
            if node[0] in ("next", "elem"):
                return "sensitive", "takes individual elements (%s) of an unordered iteration" % node[0]
            continue
        last = node[1].split("::")[-1]
        names.append(last)
        if last in ADAPTERS:
            continue
        if kind == "rayon" and last in ("enumerate", "zip", "skip", "take", "rev", "chunks", "with_min_len", "with_max_len"):
            # indexed parallel iterators over slices keep element positions
            continue
        if kind == "rayon" and last in ("collect", "collect_into_vec", "unzip"):
            return "ok", "rayon collect of an indexed iterator preserves positions / builds a keyed container"
        if last in SENSITIVE:
            return "sensitive", "order-sensitive adapter/consumer `%s` on an unordered iteration" % last
        if last in INSENSITIVE:
            return "ok", "consumer `%s` is order-insensitive" % last
        if last in ("collect", "from_iter", "from_par_iter"):
            # target type from the defining call's generic args
            target = _collect_target(b, node)
            if any(k in target for k in KEYED_TARGETS):
                return "ok", "collected into %s" % target[:60]
            if "Vec<" in target or "VecDeque" in target or target == "":
                # a Vec: acceptable if sorted before use, or if it is the confirmed batch vector
                if _vec_sorted(b, node):
                    return "ok", "collected into a Vec that is then sorted"
                uses = _uses_of_value(b, node)
                if uses and all(u in ("UnsealedState::apply_tx_batch", "Vec::len", "len") for u in uses):
                    return "ok", "collected into the batch vector that flows only into apply_tx_batch (order-independence obligation R2)"
                return "sensitive", "collected into %s and used by %s without sorting" % (target[:40] or "a sequence", uses)
            return "undecided", "collected into %s" % target[:60]
        if last in ("try_for_each", "for_each"):
            cl = node[2][1] if len(node[2]) > 1 else None
            if last == "try_for_each":
                return "ok", "try_for_each: only Ok/Err is observed"
            cb = prog.body(cl[1]) if cl and cl[0] == "closure" else None
            if cb is not None:
                sens, unk, keyed = _loop_effects(prog, cb, set(range(cb.n)))
                if sens:
                    return "sensitive", "for_each closure with order-sensitive effects"
                if unk:
                    return "undecided", "for_each closure calls %s" % [mir.short(u[0]) for u in unk]
                return "ok", "for_each closure with keyed/log effects only"
            return "undecided", "for_each over an unordered source"
        if last in ("fold", "try_fold", "reduce", "try_reduce", "try_fold_with", "fold_with"):
            cl = node[2][-1]
            c = _closure_class(prog, cl)
            if c == "commutative":
                if last in ("reduce", "try_reduce") or kind != "rayon":
                    return "ok", "%s with a commutative-associative update (%s)" % (last, "max/min/saturating_add")
                continue
            return "sensitive", "%s with a closure that is not a commutative update (%s)" % (last, c)
        return "undecided", "consumer `%s` not classified" % last
    return "ok", "chain %s ends in order-insensitive consumers" % names


def _classify_node(prog, b, node, kind):
    """(verdict, why, continue-outwards?) for one consumer call applied to an unordered iteration"""
    last = node[1].split("::")[-1]
    if last in ADAPTERS:
        return None, None, True
    if kind == "rayon" and last in ("enumerate", "zip", "skip", "take", "rev", "chunks", "with_min_len", "with_max_len"):
        return None, None, True
    if kind == "rayon" and last in ("collect", "collect_into_vec", "unzip"):
        return "ok", "rayon collect of an indexed iterator preserves positions / builds a keyed container", False
    if last in SENSITIVE:
        return "sensitive", "order-sensitive adapter/consumer `%s` on an unordered iteration" % last, False
    if last in INSENSITIVE:
        return "ok", "consumer `%s` is order-insensitive" % last, False
    if last in ("collect", "from_iter", "from_par_iter"):
        target = _collect_target(b, node)
        if any(k in target for k in KEYED_TARGETS):
            return "ok", "collected into %s" % target[:60], False
        if "Vec<" in target or "VecDeque" in target or target == "":
            if _vec_sorted(b, node):
                return "ok", "collected into a Vec that is then sorted", False
            uses = _uses_of_value(b, node)
            if uses and all(u in ("UnsealedState::apply_tx_batch", "Vec::len", "len") for u in uses):
                return "ok", "collected into the batch vector that flows only into apply_tx_batch (order-independence obligation R2)", False
            return "sensitive", "collected into %s and used by %s without sorting" % (target[:40] or "a sequence", uses), False
        return "undecided", "collected into %s" % target[:60], False
    if last == "try_for_each":
        return "ok", "try_for_each: only Ok/Err is observed", False
    if last == "for_each":
        cl = node[2][1] if len(node[2]) > 1 else None
        cb = prog.body(cl[1]) if cl and cl[0] == "closure" else None
        if cb is not None:
            sens, unk, keyed = _loop_effects(prog, cb, set(range(cb.n)))
            if sens:
                return "sensitive", "for_each closure with order-sensitive effects", False
            if unk:
                return "undecided", "for_each closure calls %s" % [mir.short(u[0]) for u in unk], False
            return "ok", "for_each closure with keyed/log effects only", False
        return "undecided", "for_each over an unordered source", False
    if last in ("fold", "try_fold", "reduce", "try_reduce", "try_fold_with", "fold_with"):
        c = _closure_class(prog, node[2][-1])
        if c == "commutative":
            if last in ("reduce", "try_reduce") or kind != "rayon":
                return "ok", "%s with a commutative-associative update" % last, False
            return None, None, True
        return "sensitive", "%s with a closure that is not a commutative update (%s)" % (last, c), False
    return "undecided", "consumer `%s` not classified" % last, False


def _collect_target(b, node):
    for bi, t in b.calls():
        if b.rec_call(t, bi) == node:
            g = (t["fn"] or {}).get("gargs", [])
            dest_ty = b.locals[t["dest"]["l"]]["ty"]
            return dest_ty
    return ""


def _vec_sorted(b, node):
    for bi, t in b.calls():
        if b.rec_call(t, bi) == node:
            return _sorted_afterwards(b, node, bi) or any(
                mir.callee_name(t2).split("::")[-1].startswith("sort") and q.contains(b.rec_call(t2, b2), lambda y: y == node) for b2, t2 in b.calls())
    return False


def _uses_of_value(b, node):
    out = set()
    for bi, t in b.calls():
        if t["exp"]:
            continue
        e = b.rec_call(t, bi)
        if e != node and q.contains(e, lambda y: y == node):
            if e[0] == "call":
                # direct argument?
                if any(a == node or mir.strip(a) == node for a in e[2]):
                    out.add(mir.short(e[1]))
    return sorted(out)


def r2_batch_commutativity(ctx):
    r = ctx.rule("R2", "create_next_state: no path from a remove_coin to an insert_coin of a batch output; fee accumulators are commutative; other batch loops do keyed inserts only")
    b = ctx.body("melstf::state::applytx::create_next_state", r)
    # where the effects happen in create_next_state: direct calls, or the adapter call (for_each ..) that runs a closure making them
    ins = [x[0] for x in q.effect_sites(ctx.prog, b, "CoinMapping::insert_coin")]
    rem = [x[0] for x in q.effect_sites(ctx.prog, b, "CoinMapping::remove_coin")]
    r.check(bool(ins) and bool(rem), "sites", "inserts and removes present", "insert sites %d, remove sites %d" % (len(ins), len(rem)))
    bad = []
    for rb in rem:
        reach = b.reachable(rb)
        for ib in ins:
            if ib in reach:
                bad.append((rb, ib))
    if bad:
        r.violation("insert-after-remove", "an input can be removed before an output of a later batch member is inserted (remove at %s precedes insert at %s on some path): "
                    "a batch presented as [B, A] with B spending A's output leaves that output unspent" % (b.where(bad[0][0]), b.where(bad[0][1])), b.where(bad[0][0]))
    else:
        r.ok("insert-after-remove", "every insert of a batch output precedes every removal of a batch input")
    # faucet markers: handle_faucet_tx's insert is keyed by the faucet's own hash (never an input of a well-formed spend)
    for fld in ("tips", "fee_pool"):
        for w in q.stmt_writes(b, fld):
            if w[0] != "assign":
                continue
            nf = q.arith_nf(w[4])
            ok = nf[0] == "bin" and nf[1] == "Add" and any(sig(q.novers(x)) in ("next_state.%s" % fld, "next_state.%s.0" % fld) or (x[0] == "field" and x[2] == fld) for x in (nf[2], nf[3]))
            r.check(ok, "accumulator/" + fld, "%s updated by addition of a per-transaction term" % fld, "%s := %s is not a commutative accumulation" % (fld, sig(nf)[:160]), b.where(w[1], w[2]))
    # the other batch loops
    for name in ("load_relevant_coins", "extract_input_coins", "load_stake_info"):
        fb = ctx.body("melstf::state::applytx::" + name, r)
        loops = q.loop_with_source(fb, lambda s: True)
        allblocks = set()
        for l in loops:
            allblocks |= l[1]
        sens, unk, keyed = _loop_effects(ctx.prog, fb, allblocks)
        r.check(not sens, name + "/no-ordered-effects", "no order-sensitive effect in %s's batch loops" % name, "%s performs %s inside its batch loops" % (name, [mir.short(s[0]) for s in sens]))
        if unk:
            r.undecided(name + "/effects", "%s calls %s with &mut arguments inside batch loops" % (name, sorted({mir.short(u[0]) for u in unk})))
    # the escaping vector of apply_block goes only into apply_tx_batch
    ab = ctx.body("melstf::state::SealedState::apply_block", r)
    for bi, e in q.call_exprs(ab, "UnsealedState::apply_tx_batch"):
        r.check("HashSet::iter($2.transactions)" in sig(e[2][1]) or sig(e[2][1]) == "Iterator::collect($2.transactions)", "apply_block/batch", "apply_block's batch is the block's (unordered) transaction set",
                "apply_block applies %s" % sig(e[2][1])[:100], ab.where(bi))


def r3_ambient(ctx):
    r = ctx.rule("R3", "clock reads flow only into logging/statistics; no RNG / thread id / environment reads in the workspace crates")
    prog = ctx.prog
    banned = ("fastrand::", "rand::", "getrandom", "std::thread::current", "ThreadId", "std::env::", "std::process::id", "SystemTime::now", "RandomState::new")
    n_clock = 0
    for b in prog.bodies:
        if b.kind == "Promoted":
            continue
        for bi, t in b.calls():
            n = mir.callee_name(t)
            if any(x in n for x in banned):
                r.violation("ambient@%s/%s" % (b.nname.split("::")[-1], n.split("::")[-1]), "%s calls %s" % (b.nname, n), b.where(bi))
            if n.endswith("Instant::now"):
                n_clock += 1
                e = b.rec_call(t, bi)
                # every non-logging consumer of the instant
                bad = []
                for cb, ce in q.all_call_exprs(b):
                    ct = b.term(cb)
                    if ct["exp"] or ce == e:
                        continue
                    if q.contains(ce, lambda y: y == e):
                        cn = mir.callee_name(ct)
                        if not (cn.endswith("Instant::elapsed") or cn.endswith("as_secs_f64") or cn.endswith("StatCounter::incr") or "Duration" in cn):
                            bad.append(mir.short(cn))
                for sb, t2 in b.iter_terms("switch"):
                    de = b.rec_operand(t2["discr"], sb, "T")
                    if q.contains(de, lambda y: y == e) and not t2["exp"]:
                        bad.append("branch")
                rets = [x for x in q.ret_assignments(b) if q.contains(x[2], lambda y: y == e)]
                ok_ret = all(sig(x[2]).startswith("StatTimer::StatTimer{") for x in rets)
                key = "clock@" + b.nname.split("::")[-1]
                if bad or not ok_ret:
                    r.violation(key, "the clock read in %s flows into %s" % (b.nname, bad or [sig(x[2])[:60] for x in rets]), b.where(bi))
                else:
                    r.ok(key, "clock read used only for logging/statistics", b.where(bi))
    r.floor("clock reads", n_clock, 2)
    # StatTimer's drop: elapsed → incr only
    d = [b for b in prog.bodies if b.nname.endswith("as std::ops::Drop>::drop") and "StatTimer" in b.nname]
    for b in d:
        calls = [mir.short(mir.callee_name(t)) for bi, t in b.calls()]
        r.check(set(calls) <= {"Instant::elapsed", "Duration::as_secs_f64", "StatCounter::incr"}, "stat-timer-drop", "StatTimer::drop only records elapsed time", "StatTimer::drop calls %s" % calls)


def r4_commitment_order(ctx):
    r = ctx.rule("R4", "TransactionSet is an ordered map keyed by hash_nosigs; the dense transaction tree is built from a sorted vector")
    adt = ctx.prog.adts.get("melstf::state::txset::TransactionSet")
    r.anchor(adt, "ADT TransactionSet")
    ty = adt["variants"][0]["fields"][0]["ty"]
    r.check("OrdMap<melstructs::TxHash" in ty or "BTreeMap<melstructs::TxHash" in ty, "ordered-map", "TransactionSet.inner: %s" % ty, "TransactionSet.inner is %s (unordered)" % ty)
    ins = ctx.body("melstf::state::txset::TransactionSet::insert", r)
    calls = q.call_exprs(ins, "insert")
    r.check(any(sig(e) .endswith("insert($1.inner, Transaction::hash_nosigs($2), $2)") for bi, e in calls), "keyed", "insert keyed by hash_nosigs(tx)", "insert is %s" % [sig(e) for bi, e in calls])
    t = ctx.body("melstf::state::UnsealedState::tip908_transactions", r)
    news = q.calls_to(t, "DenseMerkleTree::new")
    sorts = q.calls_matching(t, lambda n, p: n.split("::")[-1].startswith("sort"))
    r.check(bool(news) and bool(sorts) and all(any(t.dominates(sb, nb) for sb, st in sorts) for nb, nt in news), "dense-sorted", "sorted before DenseMerkleTree::new", "the dense tree is built from an unsorted vector")


def r5_globals(ctx):
    r = ctx.rule("R5", "statics: STAT_* are written through incr and read only by StatCounter::value (never inside the state machine); the inflator table is filled only by microergs_per_dosc as a function of the index")
    prog = ctx.prog
    statics = [it for it in prog.items if it["kind"] == "static" and "__RUST_STD_INTERNAL" not in it["name"]]
    names = sorted(mir.norm_name(it["name"]) for it in statics)
    allowed = {"melstf::stats::STAT_APPLY_SECS", "melstf::stats::STAT_SMT_GET_SECS", "melstf::stats::STAT_SMT_INSERT_SECS", "melstf::stats::STAT_MELVM_RUNTIME_SECS",
               "melstf::stats::STAT_MELPOW_SECS", "melstf::state::melmint::microergs_per_dosc::INFLATOR_TABLE"}
    from rules.props import c10
    for n in names:
        its = [it for it in statics if mir.norm_name(it["name"]) == n]
        if n in allowed:
            r.ok("static/" + n.split("::")[-1], "known static %s" % n)
        elif any(c10.mutable_static(it) for it in its):
            r.violation("static:" + n.split("::")[-1], "new mutable global state: static %s (%s)" % (n, [it["ty"] for it in its]))
        else:
            r.ok("static/" + n.split("::")[-1], "immutable static %s" % n)
    # who reads StatCounter::value
    val = prog.body("melstf::stats::StatCounter::value")
    if val is not None:
        callers = prog.callers_of(val.id)
        r.check(not callers, "stat-read", "statistics are not read inside the workspace", "statistics are read by %s" % [prog.by_id[c].nname for c in callers])
    _inflator(ctx, r)


def r5_inflator(ctx):
    """the inflator-table part of R5 on its own (imported by C18 and C01: the ERG reward bound is computed with the inflator of the state's own height)"""
    r = ctx.rule("R5", "the inflator table is filled only by microergs_per_dosc, every entry a function of the previous one, and microergs_per_dosc(h) hands back the entry at index h")
    _inflator(ctx, r)


def _inflator(ctx, r):
    prog = ctx.prog
    # users of the inflator table
    users = set()
    for b in prog.bodies:
        if b.kind == "Promoted":
            continue
        for bi, e in q.all_call_exprs(b):
            if q.contains(e, lambda y: y[0] == "static" and y[1].endswith("INFLATOR_TABLE")):
                users.add(mir.norm_name(b.nname.split("::{closure")[0]))
    r.check(users <= {"melstf::state::melmint::microergs_per_dosc"}, "inflator/users", "the inflator table is touched only by microergs_per_dosc", "the inflator table is used by %s" % sorted(users))
    m = ctx.body("melstf::state::melmint::microergs_per_dosc", r)
    cl = prog.all_nested(m)
    pushes = [(c, bi, e) for c in cl for bi, e in q.call_exprs(c, "Vec::push")]
    r.floor("table pushes", len(pushes), 1)
    for c, bi, e in pushes:
        v = sig(q.novers(e[2][1]))
        ok = v == "MICRO_CONVERTER" or ("last" in v and "height" not in v and "$" not in v.replace("$1", ""))
        r.check(ok, "inflator/push@%s" % v[:24], "pushed value depends only on the previous entry (%s)" % v[:80], "pushed value %s depends on more than the previous entry" % v[:120], c.where(bi))


    # the fill path hands back the entry AT THE REQUESTED INDEX, read from the table while the write lock is held.  The lookup (read lock) and the
    # fill (write lock) are separate critical sections: another thread may have filled the table past this index in between, and then a value
    # carried over from the fill loop is the entry of a later index — the inflator of a height would depend on what other threads asked for.
    for c in cl:
        if not q.call_exprs(c, "Vec::push"):
            continue
        for rb, ri, rv in q.ret_assignments(c):
            rs = sig(q.novers(rv))
            hmention = "height" in rs or (c is m and "$1" in rs)
            idx = ("ops::Index<" in rs or "::get(" in rs) and hmention
            if idx:
                r.ok("inflator/result", "the fill path returns the table entry at the requested index", c.where(rb))
            elif q.contains(rv, lambda y: y[0] in ("phi", "var")) and not hmention:
                r.violation("inflator/result", "the fill path returns %s — a value carried over from filling, not the entry at the requested index: when another thread has grown the table "
                            "past this index between the failed lookup and the write lock, the inflator of a later height is returned" % rs[:140], c.where(rb))
            else:
                r.undecided("inflator/result", "fill path returns %s: not decided" % rs[:140], c.where(rb))


MUTABLE_SHARED = ("RwLock<", "Mutex<", "Atomic", "RefCell<", "Cell<", "DashMap<", "mpsc::", "OnceCell<", "Condvar", "&mut ")


def r6_parallel_isolation(ctx):
    r = ctx.rule("R6", "closures run by rayon (par_iter adapters) capture no shared mutable state (locks, atomics, cells, &mut): one transaction's validation cannot observe another's", positional=False)
    prog = ctx.prog
    n = 0
    for b in prog.bodies:
        if b.kind == "Promoted" or b.crate != "melstf":
            continue
        for bi, t in b.calls():
            nm = mir.callee_name(t)
            if "rayon" not in nm and "ParallelIterator" not in mir.callee_path(t):
                continue
            for a in t["args"]:
                if a["k"] not in ("move", "copy"):
                    continue
                l = a["place"]["l"]
                ds = b.defs().get(l, [])
                for (db_, di) in ds:
                    if di == "T":
                        continue
                    st = b.blocks[db_]["stmts"][di]
                    rv = st["rv"]
                    if rv["k"] == "agg" and rv["ak"] == "closure":
                        n += 1
                        cname = mir.norm_name(rv["path"]).split("::")[-1]
                        bad = []
                        for fname, op in zip(rv["fields"], rv["ops"]):
                            if op["k"] in ("move", "copy"):
                                ty = b.locals[op["place"]["l"]]["ty"]
                                # type of the captured place: follow one deref of a reference local
                                if any(w in ty for w in MUTABLE_SHARED):
                                    bad.append((fname.replace("_ref__", ""), ty[:80]))
                        key = "%s/%s" % (b.nname.split("::")[-1], cname.replace("{closure#", "c").replace("}", ""))
                        if bad:
                            r.violation("shared-mutable/" + key, "the closure handed to %s captures shared mutable state %s: the result can depend on scheduling and on the order of the batch" % (mir.short(nm), bad), b.where(bi))
                        else:
                            r.ok("isolated/" + key, "captures: %s" % [f.replace("_ref__", "") for f in rv["fields"]], b.where(bi))
    r.floor("parallel closures", n, 6)
    # functions reachable from the validity closure take no lock/atomic parameters
    v = prog.body("melstf::state::applytx::check_tx_validity")
    if v is not None:
        bad = [s_ for s_ in v.sig_inputs if any(w in s_ for w in MUTABLE_SHARED)]
        r.check(not bad, "check_tx_validity/params", "check_tx_validity takes only shared immutable inputs", "check_tx_validity takes %s" % bad)


ACCUMULATED = ("transactions", "fee_pool", "tips", "dosc_speed")


def r7_batch_invariant_reads(ctx):
    r = ctx.rule("R7", "per-transaction validation reads none of the state fields that applying earlier transactions of the same block changes "
                       "(transactions, fee_pool, tips, dosc_speed): a verdict cannot depend on how the block is split into batches", positional=False)
    prog = ctx.prog
    US = "melstf::state::UnsealedState"
    ab = ctx.body("melstf::state::applytx::apply_tx_batch_impl", r)
    cns = ctx.body("melstf::state::applytx::create_next_state", r)
    # the fields the batch step accumulates into, read off create_next_state and apply_tx_batch_impl themselves
    written = set()
    for f in ACCUMULATED:
        if q.stmt_writes(cns, f) or q.stmt_writes(ab, f) or any(q.stmt_writes(c, f) for c in prog.all_nested(cns)):
            written.add(f)
    r.floor("accumulated fields", len(written), 3)
    skip = {b.id for b in prog.all_nested(cns)}          # builds the next state from the old one: reads everything by design
    fold = {b.id for b in prog.all_nested(ab)}            # the speed fold's identities read the old speed (C18.R3 decides that fold)
    n = 0
    for bid in sorted(prog.reach_from([ab.id])):
        b = prog.by_id[bid]
        if b.crate != "melstf" or not b.nname.startswith("melstf::state::applytx::") or bid in skip:
            continue
        n += 1
        for f in sorted(written):
            if f == "dosc_speed" and bid in fold:
                continue
            for bb, where in q.field_reads(b, US, f):
                short = b.nname.replace("melstf::state::applytx::", "").replace("{closure#", "c").replace("}", "")
                r.violation("reads/%s@%s" % (f, short), "%s reads `%s` of the state being extended, which the earlier transactions of the same block have already changed: "
                            "the same transactions applied in one batch and one at a time are judged against different values" % (short, f), where)
    r.floor("validation bodies", n, 8)
    # a whole-state read: a validation body that hands the state being extended to seal()/header() reads EVERY field through the callee — the coin tree, the
    # transaction set and the fee pool of a state that already contains the earlier transactions of the block (D28: the height-0 fallback of the covenant
    # environment's last header is `this.clone().seal(None).header()`)
    for bid in sorted(prog.reach_from([ab.id])):
        b = prog.by_id[bid]
        if b.crate != "melstf" or not b.nname.startswith("melstf::state::applytx::") or bid in skip:
            continue
        for bi, e in q.all_call_exprs(b):
            if e[0] == "call" and e[1].split("::")[-1] in ("seal", "header", "transactions_root_hash") and e[1].startswith(("melstf::state::UnsealedState", "melstf::state::SealedState")) \
                    and q.contains(e, lambda y: y == ("param", 1, "this") or (isinstance(y, tuple) and y[0] == "upvar" and "this" in str(y[1]))):
                short = b.nname.replace("melstf::state::applytx::", "").replace("{closure#", "c").replace("}", "")
                short = short.split("::c")[0]
                r.violation("reads/whole-state@%s" % short, "%s computes %s of the state being extended: a header of a state that already holds the earlier transactions of the block "
                            "(before the first seal there is no previous header, and this one is handed to covenants as `last header`): a batch and the same transactions one at a "
                            "time show covenants different headers" % (short, e[1].split("::")[-1]), b.where(bi))
                break
    if not [x for x in r.records if x["verdict"] == "violation"]:
        r.ok("reads/none", "no validation body under apply_tx_batch_impl reads %s" % sorted(written))


def shared(ctx):
    """'equals applying the same transactions one at a time': the stake lock must judge a coin the same way whether its stake was registered by an earlier call
    or by a member of the same batch (C13.R3: both tests are by the creating transaction's hash)"""
    from rules.engine import core
    from rules.props import c13
    core.import_rules(ctx, [c13.r3_lock_gate, c13.r3_new_stakes_flow, c13.r2_registration], "X13")      # R2: every batch member is scanned for stakes, whatever the order
    # 'does not depend on ... how validation is scheduled across threads': whether a coin spent twice inside one batch is noticed must not depend on where
    # the two spenders sit in the batch (C02.R3: one set, every input of every transaction, a repeated insert is an error)
    from rules.props import c02
    core.import_rules(ctx, [c02.r3_double_spend], "X02")
    # 'equals one at a time / any other split into batches': what a batch does to the coin tree must not depend on what EARLIER calls of the same block recorded
    # (C02.R5: every output of every member inserted, every input removed — no skip keyed on the block's transaction set)
    core.import_rules(ctx, [c02.r5_effects], "X02")
    # the same for a faucet applied twice: the duplicate test must look at the state as it grows through the batch (handle_faucet_tx on the state being built, C19.R1/R3),
    # not at the pre-batch state every parallel validation sees — otherwise two copies in one batch pass where one-at-a-time rejects the second
    from rules.props import c19
    core.import_rules(ctx, [c19.r1_faucet_first, c19.r3_dedup], "X19")


RULES = [r1_inventory, r2_batch_commutativity, r3_ambient, r4_commitment_order, r5_globals, r6_parallel_isolation, r7_batch_invariant_reads, shared]
