"""C04 — a coin is spent only when its covenant approves that very spend."""
from rules.engine import mir, q
from rules.engine.q import sig, sigv, force
from rules.engine.sccp import V

EXPLANATION = (
    "R1 no bypass of per-input execution: in check_tx_validity's input loop the latch is unreachable from the loop entry once the validate_tx_scripts block is removed; inside "
    "validate_tx_scripts Ok is unreachable once the Covenant::execute block is removed (CFG reachability with a vertex cut, with and without the covenant-hash cache forced to miss). "
    "R2 verdict wiring: the script bytes are tx.covenants_as_map()[this coin's covhash]; absent ⇒ Err(NonexistentScript), undecodable ⇒ Err(MalformedTx), "
    "execute(..).map(into_bool).unwrap_or(false) false ⇒ Err(ViolatesScript). R3 environment provenance: CovenantEnv{parent_coinid ← this input's id, parent_cdh ← its coin data, "
    "spender_index ← its position, last_header ← history[height−1] (or the height-0 fallback)} and the spending tx. R4 heap layout: the 11 HADDR_* slots are pairwise distinct and each "
    "receives its designated component; Covenant::execute runs the covenant's own ops with that heap."
    " R1 `loop/every-path`: no path to Ok goes around the loop over the inputs."
)
NOT_DECIDED = ["that the standard signature covenants accept exactly valid signatures (meaning of a VM program; needs execution)", "MelVM semantics (C10)"]
ASSUMPTIONS = ["Transaction::covenants_as_map maps hash(covenant bytes) ↦ bytes (melstructs 0.3.3)"]
AP = "melstf::state::applytx::"
COIN = "elem(Iterator::enumerate($2.inputs)).1"
IDX = "elem(Iterator::enumerate($2.inputs)).0"
CDATA = "try(HashMap::get($3, %s))" % COIN
ENUM_SRC, PLAIN_SRC = "Iterator::enumerate($2.inputs)", "$2.inputs"


def _input_mode(b):
    """how check_tx_validity walks the inputs: ('enumerate', COIN, IDX, CDATA) — position and coin id from enumerate() — or, when the loop is over the
    inputs alone with the position kept in a separate counter, ('plain', COIN, None, CDATA): then the position is not read by these rules"""
    srcs = [sig(l[3]) for l in q.loop_with_source(b, lambda s_: True)]
    if ENUM_SRC not in srcs and PLAIN_SRC in srcs:
        coin = "elem($2.inputs)"
        return "plain", coin, None, "try(HashMap::get($3, %s))" % coin
    return "enumerate", COIN, IDX, CDATA


def r1_no_bypass(ctx):
    r = ctx.rule("R1", "every input passes validate_tx_scripts → Covenant::execute for its own environment (no path around it)")
    b = ctx.body(AP + "check_tx_validity", r)
    loops = [l for l in q.loop_with_source(b, lambda s: True) if sig(l[3]) == (ENUM_SRC if _input_mode(b)[0] == "enumerate" else PLAIN_SRC)]
    r.anchor(loops, "input loop of check_tx_validity")
    h, blocks, latches, src = loops[0]
    val = [bi for bi, e in q.call_exprs(b, "validate_tx_scripts") if bi in blocks]
    r.check(len(val) >= 1, "call", "validate_tx_scripts is called in the loop", "the input loop never validates scripts")
    if not val:
        return
    entry = q.loop_entry(b, h, blocks)
    # every transaction's inputs are walked: no path to Ok goes around the input loop (an early `return Ok(())` for some kind of transaction spends its
    # inputs without running any covenant — create_next_state removes the inputs of every accepted transaction)
    oks_ = [bb for bb, e in q.result_blocks(b)["Ok"]]
    around = b.reachable(0, removed=[h])
    r.check(not any(o in around for o in oks_), "loop/every-path", "Ok is reached only through the loop over the inputs", "check_tx_validity can return Ok without walking the inputs (bb%s): those inputs are spent without any covenant being run" % [o for o in oks_ if o in around], b.where(h))
    cache = [(bi, e) for bi, e in q.call_exprs(b, "HashSet::contains", "contains") if "good_scripts" in sig(q.novers(e)) or "covhash" in sig(e)]
    # (a) with the cache forced to miss, no bypass may remain
    f = force(b, {e: 0 for bi, e in cache})
    wo = f.reach_from(entry, avoid=val)
    bad = [l for l in latches if l in wo]
    r.check(not bad, "bypass/other", "apart from the covenant-hash cache there is no way around validate_tx_scripts", "an input can reach the next iteration without script validation (latch bb%s), even with the cache missing" % bad, b.where(val[0]))
    # (b) the cache itself
    wo2 = b.reachable(entry, removed=val)
    bad2 = [l for l in latches if l in wo2 and l not in wo]
    if bad2:
        r.violation("bypass/covhash-cache", "an input whose covenant hash was already approved for an earlier input of the same transaction skips execution: its own environment "
                    "(coin id, value, spender index) is never evaluated (%s)" % ", ".join(sig(q.novers(e)) for bi, e in cache), b.where(cache[0][0]) if cache else None)
    else:
        r.ok("bypass/covhash-cache", "no cache bypass")
    # the result is propagated
    for bi, e in q.call_exprs(b, "validate_tx_scripts"):
        f = force(b, {e: V(1)})
        after = f.reach_from(bi)
        r.check(not any(l in after for l in latches), "error-propagates", "a failed validation ends check_tx_validity", "a failed validation continues with the next input", b.where(bi))
    v = ctx.body(AP + "validate_tx_scripts", r)
    ex = [bi for bi, e in q.call_exprs(v, "Covenant::execute")]
    oks = [bb for bb, e in q.result_blocks(v)["Ok"]]
    r.check(len(ex) == 1, "execute/call", "Covenant::execute is called", "%d execute calls" % len(ex))
    if ex:
        cache_v = [(bi, e) for bi, e in q.call_exprs(v, "HashSet::contains", "contains")]
        f = force(v, {e: 0 for bi, e in cache_v})
        wo = f.reach_from(0, avoid=ex)
        r.check(not any(o in wo for o in oks), "execute/bypass-other", "Ok only through execute (cache missing)", "validate_tx_scripts can return Ok without executing, even with the cache missing")
        wo2 = v.reachable(0, removed=ex)
        if any(o in wo2 for o in oks) and not any(o in wo for o in oks):
            r.violation("bypass/covhash-cache@validate_tx_scripts", "validate_tx_scripts returns Ok without executing when the covenant hash is in good_scripts", v.where(cache_v[0][0]) if cache_v else None)
        else:
            r.ok("bypass/covhash-cache@validate_tx_scripts", "no cache bypass in validate_tx_scripts")
    # validity results feed the batch decision: the closure returns check_tx_validity's result and try_for_each is `?`-propagated
    impl = ctx.body(AP + "apply_tx_batch_impl", r)
    tfe = q.call_exprs(impl, "try_for_each")
    r.check(len(tfe) == 1, "batch/try_for_each", "validity is checked for the batch", "%d try_for_each" % len(tfe))
    for bi, e in tfe:
        src_ = sig(e[2][0])
        r.check(src_ in ("<I as rayon::iter::IntoParallelRefIterator<'data>>::par_iter($2)", "$2"), "batch/all", "over every transaction", "over %s" % src_, impl.where(bi))
        cb = ctx.prog.body(e[2][1][1]) if e[2][1][0] == "closure" else None
        rr = q.ret_assignments(cb) if cb else []
        s = sig(rr[0][2]) if rr else "?"
        r.check(s == "applytx::check_tx_validity(^this, $2, ^relevant_coins, ^new_stakes)", "batch/closure", "each: check_tx_validity(this, tx, relevant_coins, new_stakes)", "closure returns %s" % s)
        f = force(impl, {e: V(1)})
        oks2 = [bb for bb, x in q.result_blocks(impl)["Ok"]]
        r.check(not any(o in f.reach for o in oks2), "batch/propagates", "a validity error fails the batch", "a validity error is ignored", impl.where(bi))
        cns = [cb2 for cb2, x in q.call_exprs(impl, "create_next_state")]
        r.check(all(impl.dominates(bi, c) for c in cns), "batch/before-effects", "validation precedes state construction", "create_next_state is not dominated by validation")


def r2_verdict(ctx):
    r = ctx.rule("R2", "validate_tx_scripts: script = scripts[coin's covhash] (absent ⇒ Err), Covenant::from_bytes (error ⇒ Err), execute(..).map(into_bool).unwrap_or(false); false ⇒ Err(ViolatesScript)")
    v = ctx.body(AP + "validate_tx_scripts", r)
    oks = [bb for bb, e in q.result_blocks(v)["Ok"]]
    cache_v = {e: 0 for bi, e in q.call_exprs(v, "HashSet::contains", "contains")}
    # in the caller's terms (arguments of the single call site substituted for the parameters): scripts[<this input's coin>.covhash]
    cb_ = ctx.body(AP + "check_tx_validity", r)
    sites_ = q.call_exprs(cb_, "validate_tx_scripts")
    pmap = {i + 1: q.novers(a) for i, a in enumerate(sites_[0][1][2])} if len(sites_) == 1 else {}
    WANT_GET = "HashMap::get(Transaction::covenants_as_map($2), %s.coin_data.covhash)" % _input_mode(ctx.prog.body(AP + "check_tx_validity"))[3]
    g = [(bi, e) for bi, e in q.call_exprs(v, "HashMap::get") if sig(q.subst_simplify(q.novers(e), pmap)) == WANT_GET]
    r.check(len(g) == 1, "script/lookup", "script looked up by the coin's covenant hash", "script lookups: %s" % [sig(q.subst_simplify(q.novers(e), pmap)) for bi, e in q.call_exprs(v, "HashMap::get")])
    for bi, e in g:
        t = dict(cache_v)
        t[e] = V(0)
        f = force(v, t)
        r.check(not any(o in f.reach_from(bi) for o in oks), "script/missing=>err", "no script ⇒ no Ok", "with the script missing Ok is reachable", v.where(bi))
    r.check(bool(q.err_blocks(v, "NonexistentScript")) or any("NonexistentScript" in sig(e) for bi, e in q.all_call_exprs(v)), "script/err-variant", "Err(NonexistentScript)", "no Err(NonexistentScript)")
    fb = q.call_exprs(v, "Covenant::from_bytes")
    r.check(len(fb) == 1, "decode/call", "the script is decoded", "%d decodes" % len(fb))
    for bi, e in fb:
        r.check(WANT_GET in sig(q.subst_simplify(q.novers(e), pmap)), "decode/src", "decodes the looked-up bytes", "decodes %s" % sig(e)[:120], v.where(bi))
        t = dict(cache_v)
        t[e] = V(1)
        f = force(v, t)
        r.check(not any(o in f.reach_from(bi) for o in oks), "decode/fail=>err", "undecodable ⇒ no Ok", "with an undecodable script Ok is reachable", v.where(bi))
    ex = q.call_exprs(v, "Covenant::execute")
    for bi, e in ex:
        r.check(sig(e[2][0]).startswith("try(Covenant::from_bytes("), "execute/script", "executes the decoded script", "executes %s" % sig(e[2][0])[:100], v.where(bi))
    verdicts = [(bi, e) for bi, e in q.call_exprs(v, "Option::unwrap_or") if q.is_call(e[2][0], "Option::map") and q.is_call(e[2][0][2][0], "Covenant::execute")]
    r.check(len(verdicts) == 1, "verdict/shape", "verdict = execute(..).map(..).unwrap_or(..)", "verdict expressions: %d" % len(verdicts))
    for bi, e in verdicts:
        r.check(q.const_val(e[2][1]) == 0, "verdict/default-false", "failure (None) counts as false", "a failed execution defaults to %s" % sig(e[2][1]), v.where(bi))
        mc = e[2][0][2][1]
        cb = ctx.prog.body(mc[1]) if mc[0] == "closure" else None
        rr = q.ret_assignments(cb) if cb else []
        s = sig(rr[0][2]) if rr else sig(mc)
        r.check(s == "Value::into_bool($2)", "verdict/into_bool", "truthiness = Value::into_bool", "result mapped by %s" % s, v.where(bi))
        t = dict(cache_v)
        t[e] = 0
        f = force(v, t)
        r.check(not any(o in f.reach_from(bi) for o in oks), "verdict/false=>err", "false ⇒ no Ok", "with a false verdict Ok is reachable", v.where(bi))
        t[e] = 1
        f = force(v, t)
        r.check(any(o in f.reach for o in oks), "verdict/true=>ok", "true ⇒ Ok", "a true verdict cannot reach Ok", v.where(bi))
    r.check(bool(q.err_blocks(v, "ViolatesScript")), "verdict/err-variant", "Err(ViolatesScript)", "no Err(ViolatesScript)")
    ib = ctx.body("melvm::value::Value::into_bool", r)
    # into_bool: Int(0) is false
    # semantic, not textual: the only comparison is `Int payload == 0` (either polarity); with it true the result is false, with it false the result is true
    isz = lambda c: c.startswith("Eq(") and " as Int).0" in c and ("(0, " in c or ", 0)" in c or "ZERO" in c)
    eqs = [a for a in q.pick_atoms(ib, isz) if isz(a[1])]
    from rules.engine.sccp import C as _C
    okb = len(eqs) == 1
    if okb:
        v1, _ = q.ret_value_under(ib, {eqs[0][0]: 1} if eqs[0][0][0] != "not" else {eqs[0][0][1]: 0})
        v0, _ = q.ret_value_under(ib, {eqs[0][0]: 0} if eqs[0][0][0] != "not" else {eqs[0][0][1]: 1})
        okb = v0 == _C(1) and v1 != _C(1)      # (the non-Int path joins in: with the payload zero the result is no longer constantly true)
    r.check(okb, "into_bool", "into_bool: Int(0) ↦ false, everything else ↦ true", "into_bool is not `Int(v) ↦ v != 0, others true` (zero tests: %s)" % [a[1] for a in eqs])


def r3_environment(ctx):
    r = ctx.rule("R3", "CovenantEnv{parent_coinid: this input, parent_cdh: its coin data, spender_index: its position, last_header: history[height−1]}; execute(tx = the spender)")
    v = ctx.body(AP + "validate_tx_scripts", r)
    b = ctx.body(AP + "check_tx_validity", r)
    # the environment is read in the caller's terms: the arguments of the (single) call site are substituted for validate_tx_scripts' parameters, so
    # that neither their order nor their bundling into a struct matters
    sites = q.call_exprs(b, "validate_tx_scripts")
    r.check(len(sites) == 1, "callsite", "one call of validate_tx_scripts per input", "%d call sites" % len(sites))
    pmap = {i + 1: q.novers(a) for i, a in enumerate(sites[0][1][2])} if sites else {}
    LH = "Option::unwrap_or_else(SmtMapping::get($1.history, core::num::<impl u64>::saturating_sub($1.height.0, 1)), closure[this=$1])"
    for bi, e in q.call_exprs(v, "Covenant::execute"):
        where = v.where(bi)
        txa = q.subst_simplify(q.novers(e[2][1]), pmap)
        r.check(sig(txa) == "$2", "execute/tx", "executed against the spending tx", "executed against %s" % sig(txa), where)
        env = e[2][2]
        ok = env[0] == "agg" and env[2] == "Some" and dict(env[3])["0"][0] == "agg"
        r.check(ok, "env/some", "an environment is supplied", "environment = %s" % sig(env)[:100], where)
        if not ok:
            continue
        f = {k: q.subst_simplify(q.novers(x), pmap) for k, x in dict(dict(env[3])["0"][3]).items()}
        mode, coin_, idx_, cdata_ = _input_mode(b)
        # the same value with the fallback spelled as an argument (`match .. { Some(h) => h, None => this.clone().seal(None).header() }` reads as unwrap_or)
        LH_ALT = "Option::unwrap_or(SmtMapping::get($1.history, core::num::<impl u64>::saturating_sub($1.height.0, 1)), SealedState::header(UnsealedState::seal($1, Option::None{})))"
        tbl = {"parent_coinid": coin_, "parent_cdh": cdata_, "last_header": {LH, LH_ALT}}
        if idx_ is not None:
            tbl["spender_index"] = {"(%s as u8)" % idx_, idx_}
        else:
            r.undecided("env/spender_index", "the inputs are walked without enumerate(); spender_index = %s (a separately kept counter): that it is the input's position is not decided"
                        % sig(f.get("spender_index", ("unknown", "")))[:100], where)
            f = {k: x for k, x in f.items() if k != "spender_index"}
        q.check_table(r, "env", f, tbl, where)
        si = f.get("spender_index")
        if si is not None and q.is_lossy_cast(si):
            r.violation("env/spender-index-lossy", "spender_index = %s: positions ≥ 256 wrap around (inputs are not bounded to 256)" % sig(si), where)
    for bi, e in sites:
        where = b.where(bi)
        flat = []
        for a in e[2]:
            a = q.novers(a)
            flat.extend([x for n_, x in a[3]] if a[0] == "agg" and not a[1].startswith("std::") else [a])
        got = {sig(x) for x in flat}
        for n, w in (("scripts", "Transaction::covenants_as_map($2)"), ("good_scripts", "good_scripts"), ("tx", "$2")):
            r.check(w in got, "callsite/" + n, "%s = %s" % (n, w[:80]), "no argument of validate_tx_scripts is %s (arguments: %s)" % (w, sorted(got)), where)
    cl = [c for c in ctx.prog.closures_of(b)]
    fb = [sig(x[2]) for c in cl for x in q.ret_assignments(c)]
    r.check("SealedState::header(UnsealedState::seal(^this, Option::None{}))" in fb, "last-header/fallback", "height-0 fallback = this.clone().seal(None).header()", "fallback closures return %s" % fb)


def r6_own_covenant_table(ctx):
    """Where the table of covenants an input is looked up in comes from, independently of how the functions are cut: it must be the covenants carried by
    the spending transaction itself.  A table built once for the whole batch lets an input be unlocked by a covenant that only ANOTHER transaction of
    the batch carries (the spender then need not reveal the script it is spending under)."""
    r = ctx.rule("R6", "the table an input's covenant is looked up in is covenants_as_map() of the spending transaction itself, not a table shared by the batch", positional=False)
    prog = ctx.prog
    b = prog.body(AP + "check_tx_validity")
    sites = q.call_exprs(b, "validate_tx_scripts") if b is not None else []
    if not sites:
        r.undecided("scripts/own-transaction", "no call of validate_tx_scripts in check_tx_validity: not decided")
        return
    ctx.analysed(b)
    for bi, e in sites:
        flat = []
        for a in e[2]:
            a = q.novers(a)
            flat.extend([x for n_, x in a[3]] if a[0] == "agg" and not a[1].startswith("std::") else [a])
        txs = {sig(x) for x in flat if x[0] == "param" and "Transaction" in b.locals[x[1]]["ty"]}
        own = [x for x in flat if q.is_call(mir.strip(x), "Transaction::covenants_as_map")]
        if own:
            t = sig(q.novers(mir.strip(own[0])[2][0]))
            if t in txs:
                r.ok("scripts/own-transaction", "scripts = covenants_as_map(%s), the transaction being validated" % t, b.where(bi))
            else:
                r.undecided("scripts/own-transaction", "scripts = covenants_as_map(%s); the transaction handed on is %s: not decided" % (t, sorted(txs)), b.where(bi))
            continue
        tbl = [x for x in flat if x[0] == "param" and "HashMap<" in b.locals[x[1]]["ty"] and "Bytes" in b.locals[x[1]]["ty"]]
        if len(tbl) != 1:
            r.undecided("scripts/own-transaction", "no argument of validate_tx_scripts is a covenant table recognisably: not decided", b.where(bi))
            continue
        pi = tbl[0][1]
        verdicts = []
        for cid in prog.callers_of(b.id):
            cb = prog.by_id[cid]
            for cbi, t in cb.calls():
                if mir.callee_id(t) != b.id:
                    continue
                ce = cb.rec_call(t, cbi)
                act = mir.strip(q.novers(ce[2][pi - 1]))
                txact = [mir.strip(q.novers(x)) for x in ce[2]]
                if act[0] == "upvar" and cb.kind == "Closure" and cb.parent in prog.by_id:
                    par = prog.by_id[cb.parent]
                    cap = q.closure_captures(par, cb.nname)
                    d = cap.get(act[1], cap.get("_ref__" + act[1].replace("_ref__", "")))
                    d = mir.strip(q.novers(d)) if d is not None else None
                    # a table defined outside the per-transaction closure cannot depend on the closure's transaction: it is one table for the batch
                    if d is not None and any(q.is_call(y, "Transaction::covenants_as_map") for c2 in prog.closures_of(par) for _, y in q.call_exprs(c2, "Transaction::covenants_as_map")):
                        verdicts.append(("shared", cb.where(cbi), sig(d)[:120]))
                    else:
                        verdicts.append(("?", cb.where(cbi), sig(d)[:120] if d is not None else "an unresolved capture"))
                elif q.is_call(act, "Transaction::covenants_as_map") and any(sig(mir.strip(q.novers(act[2][0]))) == sig(x) for x in txact):
                    verdicts.append(("own", cb.where(cbi), sig(act)))
                else:
                    verdicts.append(("?", cb.where(cbi), sig(act)[:120]))
        if verdicts and all(v[0] == "own" for v in verdicts):
            r.ok("scripts/own-transaction", "every caller passes covenants_as_map of the transaction it validates", b.where(bi))
        elif any(v[0] == "shared" for v in verdicts):
            v = [x for x in verdicts if x[0] == "shared"][0]
            r.violation("scripts/own-transaction", "the covenant table handed to check_tx_validity is built outside the per-transaction step (%s) from covenants_as_map of the transactions "
                        "of the batch: an input can be unlocked by a covenant carried by a different transaction" % v[2], v[1])
        else:
            r.undecided("scripts/own-transaction", "the covenant table comes from %s: not decided" % [v[2] for v in verdicts], b.where(bi))


def r4_heap_layout(ctx):
    r = ctx.rule("R4", "Executor::new_from_env: 11 distinct HADDR_* slots, each with its designated component; Covenant::execute = new_from_env(self.ops, tx, env).run_to_end()")
    b = ctx.body("melvm::executor::Executor::new_from_env", r)
    ins = q.call_exprs(b, "HashMap::insert")
    ENV = "try($3)"
    want = {
        "HADDR_SPENDER_TXHASH": "Value::from_bytes(Transaction::hash_nosigs($2).0)",
        "HADDR_SPENDER_TX": "$2",
        "HADDR_PARENT_TXHASH": ENV + ".parent_coinid.txhash.0",
        "HADDR_PARENT_INDEX": "Value::Int{0: %s.parent_coinid.index}" % ENV,
        "HADDR_SELF_HASH": ENV + ".parent_cdh.coin_data.covhash.0",
        "HADDR_PARENT_VALUE": ENV + ".parent_cdh.coin_data.value.0",
        "HADDR_PARENT_DENOM": ENV + ".parent_cdh.coin_data.denom",
        "HADDR_PARENT_ADDITIONAL_DATA": ENV + ".parent_cdh.coin_data.additional_data",
        "HADDR_PARENT_HEIGHT": ENV + ".parent_cdh.height.0",
        "HADDR_LAST_HEADER": ENV + ".last_header",
        "HADDR_SPENDER_INDEX": "(%s.spender_index as u64)" % ENV,
    }
    r.floor("heap inserts", len(ins), 11)
    got = {}
    vals = {}
    for bi, e in ins:
        k = e[2][1]
        name = k[3].split("::")[-1] if k[0] == "const" and len(k) > 3 else sig(k)
        got[name] = (sig(e[2][2]), bi)
        if k[0] == "const":
            vals[name] = k[2]
    for name, w in want.items():
        if name not in got:
            r.violation("slot/%s/missing" % name, "%s is never filled" % name)
            continue
        g_, bi = got[name]
        r.check(g_ == w, "slot/" + name, "%s ← %s" % (name, w), "%s ← %s, expected %s" % (name, g_, w), b.where(bi))
    for name in got:
        if name not in want:
            r.violation("slot/%s/unexpected" % name, "unexpected heap slot %s" % name)
    r.check(len(set(vals.values())) == len(vals), "distinct", "slot addresses are pairwise distinct", "slot addresses collide: %s" % vals)
    # every slot is filled on every path: the two transaction slots on every path to the return, the environment slots on every path from the first of them
    # (the branch taken when an environment is supplied) to the return
    rets = set(b.return_blocks())
    envs = [(n_, got[n_][1]) for n_ in want if n_ in got and want[n_].startswith(ENV) or n_ in got and ENV in want[n_]]
    first = [bi for n_, bi in envs if all(b.dominates(bi, bj) for _, bj in envs)]
    for name in want:
        if name not in got:
            continue
        bi = got[name][1]
        is_env = ENV in want[name]
        start = first[0] if (is_env and first) else 0
        if is_env and not first:
            r.undecided("slot/%s/every-path" % name, "the environment slots have no common first insert: not decided", b.where(bi))
            continue
        if bi == start:
            r.ok("slot/%s/every-path" % name, "%s is the first environment slot filled" % name, b.where(bi))
            continue
        wo = b.reachable(start, removed=[bi])
        r.check(not (rets & set(wo)), "slot/%s/every-path" % name, "%s is filled on every path" % name,
                "%s is filled only conditionally: a path from bb%d reaches the return without the insert (a covenant reading the slot then fails or sees nothing)" % (name, start), b.where(bi))
    # tx/txhash regardless of env; the rest only with env
    rr = q.ret_assignments(b)
    s = sig(q.novers(rr[0][2])) if rr else "?"
    r.check(s == "Executor::new($1, hm)", "result", "Executor::new(instrs, heap)", "returns %s" % s)
    ex = ctx.body("melvm::Covenant::execute", r)
    rr = q.ret_assignments(ex)
    rv = mir.strip(rr[0][2]) if rr else ("unknown", "")
    s = sig(rv)
    # run_to_end of an executor built by new_from_env(copy of self.0, tx, env): the executor may be bound to a variable, the copy spelled to_vec()/clone()
    okx = False
    if q.is_call(rv, "Executor::run_to_end"):
        x = mir.strip(rv[2][0])
        if x[0] == "var":
            ds = q.var_def_exprs(ex, x[1])
            x = mir.strip(ds[0][1]) if len(ds) == 1 else x
        if q.is_call(x, "Executor::new_from_env"):
            a0 = sig(mir.strip(x[2][0]))
            okx = a0 in ("std::slice::<impl [T]>::to_vec($1.0)", "$1.0") and sig(x[2][1]) == "$2" and sig(x[2][2]) == "$3"
    r.check(okx, "execute", "execute = new_from_env(self.ops, tx, env).run_to_end()", "execute returns %s" % s)


def shared(ctx):
    """'undecodable covenant ⇒ rejection': what counts as decodable is C12's decode table — exact operand reads, literal lengths, no tolerant short reads"""
    from rules.engine import core
    from rules.props import c12
    core.import_rules(ctx, [c12.t2_t3_tables, c12.t4_literals], "X12")
    # 'evaluates to a true value when run against that transaction and that coin's own spending environment': the verdict is a function of these alone —
    # no state carried from one execution to the next inside the interpreter (C10.R4), and SIGEOK verifies against the key it is handed (C10.R10)
    from rules.props import c10
    core.import_rules(ctx, [c10.r4_determinism, c10.r10_sigeok_bounds], "X10")


RULES = [r1_no_bypass, r2_verdict, r3_environment, r4_heap_layout, r6_own_covenant_table, shared]
