"""C20 — per-covenant coin counts always equal the number of unspent coins."""
from rules.engine import mir, q
from rules.engine.mir import show
from rules.engine.q import sig, force
from rules.engine.sccp import C

EXPLANATION = (
    "R1 count protocol in coins.rs: insert_coin reads the key's presence before writing it and stores coin_count(covhash)+1 exactly when tip_906 ∧ ¬preexist; "
    "remove_coin reads the existing entry before clearing it and stores count−1 (through insert_coin_count, which deletes a zero count) exactly when tip_906 ∧ existed; "
    "coin keys and count keys are derived identically by all accessors (forced constant propagation over the flag and the presence atoms, expression provenance, linear forms). "
    "R2 write confinement: the coin tree is mutated only by insert_coin / remove_coin / insert_coin_count, the field is private and no method hands out &mut to it. "
    "R3 flag provenance: at every insert_coin/remove_coin call site the flag is tip_906() of the owning state (or a parameter whose call sites pass that). "
    "R4 activation: next_unsealed runs the count initialisation exactly when the new state has TIP-906 and the old one does not; it visits every old entry and increments its covenant's count."
    " R3 treats a call of any other activation predicate (tip_901(), tip_909(), ...) as a wrong flag. R4 reads the per-entry step of the migration in a `for` loop or in a closure handed to for_each. Imports C15.R1 (the synthesized withdrawal coin is a fresh id only because exactly one output is admitted) and the activation table C06.R5."
    " R1 also reads coin_count: no entry ⇔ 0, an entry decodes to its count."
)
NOT_DECIDED = ["equality of counts with the number of coins over whole histories (arithmetic over histories)",
               "that a coin overwritten by a pool rewrite keeps its covenant hash (true today by reading; not a rule)"]
ASSUMPTIONS = ["tmelcrypt::Hashable::hash(x) == tmelcrypt::hash_single(x)", "coin keys hash_single(stdcode(CoinID)) and count keys hash_keyed(\"coin_count\", covhash) never collide"]

CM = "melstf::state::coins::CoinMapping::"
COINKEY = {"tmelcrypt::hash_single(StdcodeSerializeExt::stdcode($2)).0", "Hashable::hash(StdcodeSerializeExt::stdcode($2)).0"}


def _countkey(x):
    return "tmelcrypt::hash_keyed(COIN_COUNT_STR_AS_BYTES, %s.0).0" % x


def r1_protocol(ctx):
    r = ctx.rule("R1", "insert_coin: presence read before write, count+1 iff tip_906 ∧ ¬preexist; remove_coin: entry read before clear, count−1 iff tip_906 ∧ existed; zero count deletes the entry; keys agree")
    # ---------------- insert_coin
    b = ctx.body(CM + "insert_coin", r)
    flag = q.local_by_name(b, "tip_906")
    r.anchor(flag, "insert_coin parameter tip_906")
    gets = q.call_exprs(b, "Tree::get")
    ins = q.call_exprs(b, "Tree::insert")
    coin_ins = [(bi, e) for bi, e in ins if sig(e[2][1]) in COINKEY]
    cnt_ins = [(bi, e) for bi, e in ins if sig(e[2][1]) == _countkey("$3.coin_data.covhash")]
    r.check(len(coin_ins) == 1, "insert/coin-write", "the coin is written under hash(stdcode(id))", "coin writes: %s" % [sig(e) for bi, e in ins])
    r.check(len(cnt_ins) == 1, "insert/count-write", "the count is written under hash_keyed(\"coin_count\", covhash)", "count writes keyed: %s" % [sig(e[2][1]) for bi, e in ins])
    pre = [(bi, e) for bi, e in q.call_exprs(b, "is_empty") if sig(e[2][0]).startswith("Tree::get($1.inner, ") and any(k in sig(e[2][0]) for k in COINKEY)]
    r.check(len(pre) >= 1, "insert/preexist-read", "presence of the key is read", "insert_coin does not read whether the coin already exists")
    if coin_ins and pre:
        gb = [bi for bi, e in gets if any(k in sig(e) for k in COINKEY)]
        r.check(all(b.dominates(g, coin_ins[0][0]) and g != coin_ins[0][0] for g in gb), "insert/read-before-write", "the presence read dominates the write",
                "the key is written before its presence is read (preexist is always true)", b.where(coin_ins[0][0]))
        r.check(sig(coin_ins[0][1][2][2]) == "StdcodeSerializeExt::stdcode($3)", "insert/value", "value = stdcode(data)", "value = %s" % sig(coin_ins[0][1][2][2]))
    if cnt_ins and pre:
        cb, ce = cnt_ins[0]
        pe = {e: 1 for bi, e in pre}   # is_empty true = not preexisting
        pne = {e: 0 for bi, e in pre}
        cases = [("flag-off", {flag: C(0)}, pe, False), ("preexisting", {flag: C(1)}, pne, False), ("new-coin", {flag: C(1)}, pe, True)]
        for label, params, tbl, expect in cases:
            f = force(b, tbl, params)
            if expect:
                wo = f.reach_from(0, avoid=[cb])
                ok = not any(x in wo for x in b.return_blocks())
                r.check(ok, "insert/count/" + label, "tip_906 ∧ new coin ⇒ the count is incremented on every path", "tip_906 ∧ new coin: a path skips the count increment", b.where(cb))
            else:
                r.check(cb not in f.reach, "insert/count/" + label, "%s ⇒ no count update" % label, "%s: the count is still updated" % label, b.where(cb))
        val = ce[2][2]
        inner = val[2][0] if q.is_call(val, "stdcode") else val
        l = q.lin(inner, lambda x: "count" if sig(x) == "CoinMapping::coin_count($1, $3.coin_data.covhash)" else None)
        r.check(l == q.Lin({"count": 1}, 1), "insert/count/value", "new count = coin_count(covhash) + 1", "new count = %r" % l, b.where(cb))
    # ---------------- remove_coin
    b = ctx.body(CM + "remove_coin", r)
    flag = q.local_by_name(b, "tip_906")
    r.anchor(flag, "remove_coin parameter tip_906")
    ins = q.call_exprs(b, "Tree::insert")
    clear = [(bi, e) for bi, e in ins if sig(e[2][1]) in COINKEY]
    r.check(len(clear) == 1 and sig(clear[0][1][2][2]) == "EMPTY_STR_AS_BYTES", "remove/clear", "the coin key is set to the empty string", "clearing writes: %s" % [sig(e) for bi, e in ins])
    if clear:
        wo = b.reachable(0, removed=[clear[0][0]])
        r.check(not any(x in wo for x in b.return_blocks()), "remove/clear-every-path", "on every path", "a path does not clear the coin", b.where(clear[0][0]))
    pre = [(bi, e) for bi, e in q.call_exprs(b, "is_empty") if any(k in sig(e[2][0]) for k in COINKEY)]
    dec = q.call_exprs(b, "insert_coin_count")
    direct = [(bi, e) for bi, e in ins if "COIN_COUNT" in sig(e[2][1])]
    if not dec and direct:
        # the count is written straight into the tree: the zero ⇒ no-entry rule of insert_coin_count must be reproduced here
        dbi, dex = direct[0]
        val = dex[2][2]
        inner = val[2][0] if q.is_call(val, "stdcode") else val
        ztests = [e for e, c, bi in q.cmp_atoms(b) if c.startswith("Eq(0, ") or c.endswith(", 0)") and c.startswith("Eq(")]
        zero_ok = False
        for z in ztests:
            f = force(b, {z: 1})
            vals = {sig(e[2][2]) for bi, e in direct if bi in f.reach}
            if vals == {"EMPTY_STR_AS_BYTES"}:
                zero_ok = True
        if zero_ok:
            r.undecided("remove/count-write", "the count is written directly into the tree with its own zero test; the decrement protocol is only recognised through insert_coin_count", b.where(dbi))
        else:
            r.violation("remove/count-write", "remove_coin writes the decremented count (%s) straight into the tree under %s: a count that reaches 0 stays as an entry instead of being deleted, "
                        "so a covenant hash with no coins keeps a count entry and the coin root depends on history" % (sig(val)[:60], sig(dex[2][1])[:60]), b.where(dbi))
    else:
        r.check(len(dec) == 1, "remove/count-write", "the count is updated through insert_coin_count", "remove_coin updates the count %d times (expected once, through insert_coin_count)" % len(dec))
    r.check(len(pre) >= 1, "remove/existing-read", "the existing entry is read", "remove_coin does not read the existing entry")
    if dec and pre and clear:
        db, de = dec[0]
        r.check(b.dominates(db, clear[0][0]) or not b.dominates(clear[0][0], db), "remove/read-before-clear", "the entry is read before it is cleared",
                "the coin is cleared before its entry is read", b.where(db))
        gb = [bi for bi, e in q.call_exprs(b, "Tree::get") if any(k in sig(e) for k in COINKEY)]
        r.check(not any(b.dominates(clear[0][0], g) for g in gb), "remove/get-not-after-clear", "no read happens after the clear", "the entry is read after it was cleared")
        EXIST = "Result::unwrap(stdcode::deserialize(Tree::get($1.inner, tmelcrypt::hash_single(StdcodeSerializeExt::stdcode($2)).0))).coin_data.covhash"
        r.check(sig(de[2][1]) == EXIST, "remove/covhash", "covenant hash of the existing entry", "count key from %s" % sig(de[2][1]), b.where(db))
        l = q.lin(de[2][2], lambda x: "count" if sig(x) == "CoinMapping::coin_count($1, %s)" % EXIST else None)
        r.check(l == q.Lin({"count": 1}, -1), "remove/count/value", "new count = coin_count(covhash) − 1", "new count = %r" % l, b.where(db))
        pe = {e: 1 for bi, e in pre}
        pne = {e: 0 for bi, e in pre}
        for label, params, tbl, expect in [("flag-off", {flag: C(0)}, pne, False), ("absent", {flag: C(1)}, pe, False), ("existing", {flag: C(1)}, pne, True)]:
            f = force(b, tbl, params)
            if expect:
                wo = f.reach_from(0, avoid=[db])
                r.check(not any(x in wo for x in b.return_blocks()), "remove/count/" + label, "tip_906 ∧ existing ⇒ decremented on every path", "tip_906 ∧ existing coin: a path skips the decrement", b.where(db))
            else:
                r.check(db not in f.reach, "remove/count/" + label, "%s ⇒ no count update" % label, "%s: the count is still updated" % label, b.where(db))
    # ---------------- insert_coin_count / coin_count
    b = ctx.body(CM + "insert_coin_count", r)
    ins = q.call_exprs(b, "Tree::insert")
    keys = {sig(e[2][1]) for bi, e in ins}
    r.check(keys == {_countkey("$2")}, "icc/key", "count key = hash_keyed(\"coin_count\", covhash)", "count keys %s" % keys)
    zero = [e for e, c, bi in q.pick_atoms(b, lambda c: c in ("Eq(0, $3)", "Eq($3, 0)")) if c in ("Eq(0, $3)", "Eq($3, 0)")]   # `count == 0` or `count != 0`
    r.check(bool(zero), "icc/zero-test", "count == 0 is tested", "insert_coin_count does not test for zero (zero counts stay as entries)")
    if zero:
        f = force(b, {zero[0]: 1})
        vals = {sig(e[2][2]) for bi, e in ins if bi in f.reach}
        r.check(vals == {"EMPTY_STR_AS_BYTES"}, "icc/zero=>delete", "count 0 deletes the entry", "count 0 writes %s" % vals)
        f = force(b, {zero[0]: 0})
        vals = {sig(e[2][2]) for bi, e in ins if bi in f.reach}
        r.check(vals == {"StdcodeSerializeExt::stdcode($3)"}, "icc/nonzero=>store", "non-zero count is stored", "non-zero count writes %s" % vals)
    b = ctx.body(CM + "coin_count", r)
    gets = q.call_exprs(b, "Tree::get")
    keys = {sig(e[2][1]) for bi, e in gets}
    r.check(keys == {_countkey("$2")}, "cc/key", "coin_count reads the same key", "coin_count reads %s" % keys)
    # no entry ⇔ count 0 (insert_coin_count deletes a zero count), an entry decodes to its count: decided by forcing the emptiness test of the value read
    emp = [(bi, e) for bi, e in q.call_exprs(b, "is_empty") if "Tree::get(" in sig(e)]
    if len(emp) == 1:
        rets_ = q.ret_assignments(b)
        f = force(b, {emp[0][1]: 1})
        v_abs = {sig(q.novers(x[2])) for x in rets_ if x[0] in f.reach}
        r.check(v_abs == {"0"}, "cc/absent=>0", "no entry reads as count 0", "with no count entry coin_count answers %s" % sorted(v_abs), b.where(emp[0][0]))
        f = force(b, {emp[0][1]: 0})
        v_pre = {sig(q.novers(x[2])) for x in rets_ if x[0] in f.reach}
        r.check(all("deserialize" in v and "Tree::get" in v for v in v_pre) and bool(v_pre), "cc/present=>decoded", "an entry reads as the count it encodes", "with a count entry coin_count answers %s" % sorted(v_pre), b.where(emp[0][0]))
    else:
        r.undecided("cc/absent=>0", "coin_count's emptiness test not read (%d candidates)" % len(emp))
    b = ctx.body(CM + "get_coin", r)
    gets = q.call_exprs(b, "Tree::get")
    keys = {sig(e[2][1]) for bi, e in gets}
    r.check(keys and keys <= COINKEY, "get_coin/key", "get_coin reads hash(stdcode(id))", "get_coin reads %s" % keys)


def r2_confinement(ctx):
    r = ctx.rule("R2", "CoinMapping.inner is mutated only by insert_coin / remove_coin / insert_coin_count; private field; no &mut accessor", positional=False)
    prog = ctx.prog
    allowed = {CM + "insert_coin", CM + "remove_coin", CM + "insert_coin_count"}
    ws = q.field_writers(prog, "melstf::state::coins::CoinMapping", "inner")
    n = 0
    for b, recs in sorted(ws.items(), key=lambda kv: kv[0].nname):
        for k in sorted({x[0] for x in recs}):
            n += 1
            if k == "agg":
                ok = b.nname == CM + "new" or b.nname.endswith("as std::clone::Clone>::clone")
                r.check(ok, "agg/" + b.nname.split("::")[-1], "%s constructs a CoinMapping" % b.nname, "%s constructs a CoinMapping" % b.nname)
            else:
                r.check(b.nname in allowed, "mut/" + b.nname.split("::")[-1], "%s mutates the coin tree" % b.nname,
                        "%s mutates the coin tree outside the counting protocol" % b.nname, b.where(recs[0][1], recs[0][2]))
    r.floor("writers", n, 4)
    adt = prog.adts.get("melstf::state::coins::CoinMapping")
    r.anchor(adt, "ADT CoinMapping")
    for f in adt["variants"][0]["fields"]:
        if f["name"] == "inner":
            r.check("Restricted" in f["vis"], "private", "field `inner` is private", "field `inner` is %s" % f["vis"])
    for b in prog.bodies:
        if b.nname.startswith(CM) and b.kind == "AssocFn":
            r.check("&mut" not in b.sig_output, "no-mut-accessor/" + b.nname.split("::")[-1], "%s returns %s" % (b.nname.split("::")[-1], b.sig_output),
                    "%s returns %s: hands out mutable access to the coin tree" % (b.nname, b.sig_output), "%s:%s" % (b.file, b.line))
    # CoinMapping::new wraps an arbitrary tree: only the constructors may use it, with a tree obtained from the store
    newb = prog.body(CM + "new")
    r.anchor(newb, "CoinMapping::new")
    for b, bi, t in prog.call_sites(lambda n_, p: n_ == CM + "new"):
        e = b.rec_call(t, bi)
        ok = b.nname in ("melstf::genesis::GenesisConfig::realize", "melstf::state::SealedState::from_block") and sig(e[2][0]).startswith("Option::unwrap(Database::get_tree(")
        r.check(ok, "new/" + b.nname.split("::")[-1], "%s wraps a tree read from the store" % b.nname.split("::")[-1],
                "%s builds a CoinMapping from %s: bypasses the counting protocol" % (b.nname, sig(e[2][0])[:100]), b.where(bi))
    # the state's coin mapping is never replaced wholesale
    ws2 = q.field_writers(prog, "melstf::state::UnsealedState", "coins")
    for b, recs in sorted(ws2.items(), key=lambda kv: kv[0].nname):
        for rec in recs:
            if rec[0] == "assign":
                blk = b.blocks[rec[1]]
                pl = blk["stmts"][rec[2]]["place"] if rec[2] != "T" else blk["term"]["dest"]
                last = [p for p in pl["p"] if p["k"] == "field"][-1]
                if last["n"] == "coins":
                    r.violation("replace/" + b.nname.split("::")[-1], "%s replaces the state's coin mapping wholesale" % b.nname, b.where(rec[1], rec[2]))
    # mutating Tree calls anywhere on a CoinMapping's tree
    for b, bi, t in prog.call_sites(lambda n_, p: n_.startswith("novasmt::") and n_.split("::")[-1] in ("insert", "clear", "delete")):
        e = b.rec_call(t, bi)
        if ".inner" in sig(e[2][0]) and b.nname not in allowed:
            r.violation("tree-mutation/" + b.nname.split("::")[-1], "%s mutates a coin tree directly: %s" % (b.nname, sig(e)[:120]), b.where(bi))


def _flag_ok(prog, body, arg, recv, depth=0):
    """True/False/None: is `arg` tip_906() of the state owning `recv` (possibly through parameters)?"""
    a = q.novers(arg)
    if q.is_call(a, "UnsealedState::tip_906"):
        ra, rr = q.root_of(a[2][0]), q.root_of(q.novers(recv))
        same = sig(ra) == sig(rr) or (a[2][0] == q.novers(recv)[1] if q.novers(recv)[0] == "field" else False)
        if not same and rr[0] == "var":
            # the receiver is a working copy of the state the flag was taken from (`let mut next = prev.clone()`): network and height, which
            # determine tip_906, are not touched by coin-map updates
            d0 = q.var_def_exprs(body, rr[1])
            if d0 and sig(q.root_of(q.novers(mir.strip(d0[0][1])))) == sig(ra) and not q.stmt_writes(body, "height") and not q.stmt_writes(body, "network"):
                same = True
        return True if same else "other-state:%s vs %s" % (sig(a[2][0]), sig(recv))
    if a[0] == "const":
        return False
    if a[0] == "phi" and any(x[0] == "const" for x in a[1]) and any(x[0] != "const" for x in a[1]):
        # `flag && other` / `other && flag` / `flag || other`: a join of a constant with something else — the count is switched by a further condition
        return "combined:" + sig(a)[:120]
    if a[0] == "call" and a[1].split("::")[-1].startswith("tip_") and "UnsealedState" in a[1]:
        return False                     # another activation predicate (tip_901, tip_909, ..): the counts are kept from TIP-906 on, no other height
    if a[0] == "param" and depth < 3:
        res = []
        for cid in prog.callers_of(body.id):
            cb = prog.by_id[cid]
            for bi, t in cb.calls():
                if mir.callee_id(t) == body.id:
                    e = cb.rec_call(t, bi)
                    res.append(_flag_ok(prog, cb, e[2][a[1] - 1], e[2][0], depth + 1))
        comb = [x for x in res if isinstance(x, str) and x.startswith("combined:")]
        if comb:
            return comb[0]
        if res and all(x is True or (isinstance(x, str)) for x in res):
            return True
        if any(x is False for x in res):
            return False
    if a[0] == "upvar":
        return None
    return None


def r3_flag_provenance(ctx):
    r = ctx.rule("R3", "every insert_coin/remove_coin call passes tip_906() of the owning state (directly or through a parameter), never a constant")
    prog = ctx.prog
    counts = {"insert_coin": 0, "remove_coin": 0}
    for b, bi, t in prog.call_sites(lambda n_, p: n_ in (CM + "insert_coin", CM + "remove_coin")):
        which = mir.callee_name(t).split("::")[-1]
        counts[which] += 1
        ctx.analysed(b)
        e = b.rec_call(t, bi)
        flag = e[2][-1]
        res = _flag_ok(prog, b, flag, e[2][0])
        key = "%s/%s@%s" % (which, b.nname.split("::")[-1].replace("{closure#", "c").replace("}", ""), sig(e[2][1])[:40])
        if b.kind == "Closure" and q.novers(flag)[0] != "const" and "tip_906" in sig(flag):
            res = True
        if res is True:
            r.ok(key, "flag = %s" % sig(flag), b.where(bi))
        elif res is False:
            r.violation(key, "flag is %s, not tip_906() of the owning state" % sig(flag), b.where(bi))
        elif isinstance(res, str) and res.startswith("combined:"):
            r.violation(key, "the count flag is TIP-906 combined with another condition (%s): with TIP-906 active some coins are %s without the count following" %
                        (res[len("combined:"):], "inserted" if which == "insert_coin" else "removed"), b.where(bi))
        elif isinstance(res, str):
            r.violation(key, "flag belongs to another state (%s)" % res, b.where(bi))
        else:
            r.undecided(key, "flag %s not recognised" % sig(flag), b.where(bi))
    r.floor("insert_coin sites", counts["insert_coin"], 8)
    r.floor("remove_coin sites", counts["remove_coin"], 3)


def r4_activation(ctx):
    r = ctx.rule("R4", "next_unsealed initialises the counts exactly when new.tip_906() ∧ ¬old.tip_906(); the initialisation visits every entry of the old tree, +1 per entry")
    b = ctx.body("melstf::state::SealedState::next_unsealed", r)
    act = q.call_exprs(b, "apply_tip_906_for_next_state")
    r.check(len(act) == 1, "call", "the initialisation is called from next_unsealed", "%d calls" % len(act))
    # the state being built is the variable next_unsealed returns (its name is a spelling)
    rets_ = q.ret_assignments(b)
    rv_ = mir.strip(rets_[0][2]) if rets_ else None
    NEW = rv_[1] if rv_ is not None and rv_[0] == "var" else "new"
    tn = [e for bi, e in q.call_exprs(b, "UnsealedState::tip_906") if sig(q.novers(e[2][0])) == NEW]
    to = [e for bi, e in q.call_exprs(b, "UnsealedState::tip_906") if sig(e[2][0]) == "$1.0"]
    r.check(bool(tn) and bool(to), "atoms", "both tip_906 flags are evaluated", "flags evaluated: new=%d old=%d" % (len(tn), len(to)))
    if act and tn and to:
        ab = act[0][0]
        for vn in (0, 1):
            for vo in (0, 1):
                tbl = {e: vn for e in tn}
                tbl.update({e: vo for e in to})
                f = force(b, tbl)
                if vn == 1 and vo == 0:
                    wo = f.reach_from(0, avoid=[ab])
                    r.check(not any(x in wo for x in b.return_blocks()), "activate/new=1,old=0", "runs on every path at the activation height", "a path skips the initialisation at the activation height", b.where(ab))
                else:
                    r.check(ab not in f.reach, "activate/new=%d,old=%d" % (vn, vo), "does not run", "the initialisation runs with new=%d old=%d" % (vn, vo), b.where(ab))
        r.check(sig(q.novers(act[0][1][2][0])) == NEW, "arg", "on the new state", "on %s" % sig(act[0][1][2][0]))
    a = ctx.body("melstf::state::SealedState::apply_tip_906_for_next_state", r)
    loops = q.loop_with_source(a, lambda s: True)
    SRC = "Tree::iter(CoinMapping::inner($1.coins))"
    loops = [l for l in loops if sig(l[3]) == SRC]
    if not loops:
        # `inner.iter().for_each(|(k, v)| ..)`: the per-entry step is a closure
        fe = [(bi, e) for bi, e in q.call_exprs(a, "for_each") if len(e[2]) == 2 and sig(mir.strip(e[2][0])) == SRC and e[2][1][0] == "closure"]
        if len(fe) == 1:
            _r4_closure_step(ctx, r, a, fe[0][1][2][1][1], SRC)
            return
    r.check(len(loops) == 1, "init/loop", "loops over the whole old coin tree", "no loop over %s" % SRC)
    for (h, blocks, latches, src) in loops:
        icc = [(bi, e) for bi, e in q.call_exprs(a, "insert_coin_count") if bi in blocks]
        r.check(len(icc) == 1, "init/update", "one count update per entry", "%d updates per entry" % len(icc))
        CH = 'Result::expect(stdcode::deserialize(elem(%s).1), "pre-tip906 coin tree has non-cdh elements?!").coin_data.covhash' % SRC
        for bi, e in icc:
            r.check(sig(e[2][1]) == CH, "init/covhash", "keyed by the entry's covenant hash", "keyed by %s" % sig(e[2][1]), a.where(bi))
            l = q.lin(e[2][2], lambda x: "count" if sig(x) == "CoinMapping::coin_count($1.coins, %s)" % CH else None)
            r.check(l == q.Lin({"count": 1}, 1), "init/value", "count + 1", "new count = %r" % l, a.where(bi))
            # the running count must be read from the mapping being updated, not from a snapshot taken before the loop
            for cbi, ct in q.calls_to(a, "coin_count"):
                if cbi in blocks:
                    root = q.raw_root(a, ct["args"][0])
                    r.check(root[0] != "clone", "init/live-count", "the running count is read from the live mapping",
                            "the running count is read from a copy of the coin mapping made at %s: every entry then sees count 0 and a covenant with several coins ends with count 1" % (root[2] if root[0] == "clone" else "?"), a.where(cbi))
            entry = q.loop_entry(a, h, blocks)
            wo = set()
            st = [entry]
            seen = {entry}
            while st:
                x = st.pop()
                if x == bi:
                    continue
                for s_ in a.succs(x):
                    if s_ in blocks and s_ not in seen:
                        seen.add(s_)
                        st.append(s_)
            r.check(not any(l_ in seen for l_ in latches if l_ != bi) or bi in latches, "init/every-entry", "every iteration updates a count", "an iteration can skip the update", a.where(bi))
        exits = [(x, s) for x in blocks for s in a.succs(x) if s not in blocks]
        bad = [x for (x, s) in exits if not (x == h or x in a.succs(h))]
        r.check(not bad, "init/no-break", "no early exit", "early exit from bb%s" % bad)


def _r4_closure_step(ctx, r, a, cname, SRC):
    """the same per-entry clauses as the loop form, read in the closure handed to for_each over the old coin tree"""
    c = ctx.prog.body(cname)
    r.anchor(c, "per-entry closure of apply_tip_906_for_next_state")
    r.ok("init/loop", "for_each over the whole old coin tree")
    caps = q.closure_captures(a, cname)
    R = lambda e: q.subst(e, {}, caps)
    icc = q.call_exprs(c, "insert_coin_count")
    r.check(len(icc) == 1, "init/update", "one count update per entry", "%d updates per entry" % len(icc))
    CH = 'Result::expect(stdcode::deserialize($2.1), "pre-tip906 coin tree has non-cdh elements?!").coin_data.covhash'
    for bi, e in icc:
        r.check(sig(R(e[2][1])) == CH, "init/covhash", "keyed by the entry's covenant hash", "keyed by %s" % sig(R(e[2][1])), c.where(bi))
        l = q.lin(R(e[2][2]), lambda x: "count" if sig(x) == "CoinMapping::coin_count($1.coins, %s)" % CH else None)
        if l == q.Lin({"count": 1}, 1):
            r.ok("init/value", "count + 1", c.where(bi))
        else:
            r.undecided("init/value", "new count = %r in the closure spelling: not decided" % l, c.where(bi))
        for cbi, ct in q.calls_to(c, "coin_count"):
            root = q.raw_root(c, ct["args"][0])
            r.check(root[0] != "clone", "init/live-count", "the running count is read from the live mapping",
                    "the running count is read from a copy of the coin mapping made at %s" % (root[2] if root[0] == "clone" else "?"), c.where(cbi))
        wo = c.reachable(0, removed=[bi])
        r.check(not any(x in wo for x in c.return_blocks()), "init/every-entry", "every entry updates a count", "an entry can skip the update", c.where(bi))


def shared(ctx):
    from rules.engine import core
    from rules.props import c03, c15
    core.import_rules(ctx, [c03.r2_batch_commutativity], "X03")
    # the synthesized second coin of a withdrawal sits at index 1: it is a fresh id (and insert_coin's count step applies) only because the
    # selection admits withdrawals with exactly one output (C15.R1)
    core.import_rules(ctx, [c15.r1_selection_atoms, c15.r5_only_selected], "X15")
    from rules.props import c06
    core.import_rules(ctx, [c06.r5_activation_table], "X06")          # the counts exist from TIP-906 on: the stages must ask that predicate, and it must test that height


RULES = [r1_protocol, r2_confinement, r3_flag_provenance, r4_activation, shared]
