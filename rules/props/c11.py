"""C11 — covenant cost is bounded by what is paid for: terminates within its weight."""
from rules.engine import mir, q
from rules.engine.q import sig, sigv, force
from rules.engine.sccp import V

EXPLANATION = (
    "Structural premises of 'executed steps ≤ weight' and of 'bounded work to weigh and run'. R1 every opcode costs ≥ 1: the lower bound of each arm of opcodes_car_weight "
    "(constants, saturating_add/mul of non-negative terms) is ≥ 1 for all variants. R2 loop weight is multiplicative: the Loop arm is weight(body)·iterations + c, c ≥ 1, body = "
    "rest[..min(len, rest.len())]. R3 forward-only program counter: the writes to Executor.pc in the whole crate are pc += 1, pc += (u16 operand as usize), and the loop-back "
    "pc = state.begin, which is unreachable unless iterations_left > 0 and is accompanied by iterations_left −= 1. R4 nesting: pushing a loop is unreachable when its end exceeds "
    "the enclosing loop's end. R5 length guards before materialisation: every CatVec→Vec conversion inside step is unreachable when the value's length exceeds its immediate/constant "
    "bound. R6 linear weighing: on the opcodes_weight ↔ opcodes_car_weight recursion the slice weighed recursively must be disjoint from the remainder handed back."
    " R1 also requires every arm other than Loop to hand back the whole tail after its opcode (`rest/<variant>`: instructions cut off behind a Jmp would run unweighed when a branch lands on them)."
    " Shared: C12.T8 (the charged weight is the weight of the whole decoded program)."
    " R7 once per transaction: the fee counts each covenant of tx.covenants once, so check_tx_validity may execute it once: the set of validated covenant hashes lives across the input loop, a hit skips validation, a success is recorded."
    " R5 also requires the guarding length test to be made on the full-width length (`.../reduced`: a test on `len as u16` or on a saturated length lets longer strings through at the price of the bound)."
    " R4 also asks that the nesting comparison is made for zero-iteration loops and that the body length is tested before a loop state is pushed (today's answers are the recorded findings D26/D27). R8 weight accumulation: opcodes_weight loops while instructions remain, adds every part's weight, continues with the remainder; no wrapping arithmetic in the weighing functions. R9 paid before run: every batch member passes the fee gate before check_tx_validity / DoscMint verification run (D22, repaired)."
)
NOT_DECIDED = ["the inequality executed steps ≤ weight as arithmetic over all programs", "memory high-water marks of CatVec operations"]
ASSUMPTIONS = ["catvec: append/slice are O(log n) structure sharing; conversion to Vec is O(n)"]
EX = "melvm::executor::Executor::"


def _lower_bound(e):
    e = q.unwrap0(e)
    if not isinstance(e, tuple):
        return 0
    if e[0] == "const" and isinstance(e[2], int):
        return max(0, e[2])
    if e[0] == "cast":
        return 0 if "i" == e[3][0] and not e[2].startswith("u") else _lower_bound(e[1]) if e[2].startswith("u") else 0
    if e[0] == "call":
        n = e[1].split("::")[-1]
        if n in ("saturating_add", "wrapping_add", "checked_add") and len(e[2]) == 2:
            return _lower_bound(e[2][0]) + _lower_bound(e[2][1]) if n == "saturating_add" else 0
        if n in ("saturating_mul",) and len(e[2]) == 2:
            return _lower_bound(e[2][0]) * _lower_bound(e[2][1])
        if n in ("max",) and len(e[2]) == 2:
            return max(_lower_bound(e[2][0]), _lower_bound(e[2][1]))
        return 0
    if e[0] == "bin" and e[1] in ("Add", "AddWithOverflow"):
        return _lower_bound(e[2]) + _lower_bound(e[3])
    if e[0] == "field" and e[2] == "0" and e[1][0] == "bin":
        return _lower_bound(e[1])
    if e[0] == "phi":
        return min(_lower_bound(x) for x in e[1])
    return 0


import re
_TAIL = re.compile(r"^(Option::unwrap|Option::expect|try)\(core::slice::<impl \[T\]>::split_first\(\$1\)(, [^()]*)?\)\.1$|^core::slice::index::<impl std::ops::Index<I> for \[T\]>::index\(\$1, RangeFrom::RangeFrom\{start: 1\}\)$")


def _weight_table(ctx, r):
    b = ctx.body("melvm::opcode::opcodes_car_weight", r)
    adt = ctx.prog.adts.get("melvm::opcode::OpCode")
    variants = [v["name"] for v in adt["variants"]]
    FIRSTS = ("discr(Option::unwrap(core::slice::<impl [T]>::split_first($1)).0", "discr(try(core::slice::<impl [T]>::split_first($1)).0",
              "discr(Option::unwrap(core::slice::<impl [T]>::first($1))", "discr(try(core::slice::<impl [T]>::first($1))", "discr(Option::expect(core::slice::<impl [T]>::split_first($1)")
    sw = [(bi, t) for bi, t in b.iter_terms("switch") if sig(b.rec_operand(t["discr"], bi, "T")).startswith(FIRSTS) and len(t["targets"]) > 10]
    r.anchor(sw, "match on the first opcode in opcodes_car_weight")
    bi, t = sw[0]
    rets = q.ret_assignments(b)
    all_t = {tgt for v, tgt in t["targets"]}
    table = {}
    for val, tgt in t["targets"]:
        reach = b.reachable(tgt, removed=[x for x in all_t if x != tgt])
        mine = [x for x in rets if x[0] in reach]
        table[variants[int(val)]] = (tgt, mine)
    wt = b.term(t["otherwise"])
    return b, variants, table, (wt and wt["k"] == "unreachable")


def r1_min_weight(ctx):
    r = ctx.rule("R1", "every arm of opcodes_car_weight has a weight whose lower bound is ≥ 1; no wildcard arm")
    b, variants, table, nowild = _weight_table(ctx, r)
    r.check(nowild, "no-wildcard", "no wildcard arm", "opcodes_car_weight has a wildcard arm (new opcodes would get a default weight)")
    r.floor("weight arms", len(table), 49)
    for v in variants:
        if v not in table:
            r.violation("arm/%s/missing" % v, "no weight arm for %s" % v)
            continue
        tgt, rets = table[v]
        if len(rets) != 1 or rets[0][2][0] != "tuple":
            r.undecided("arm/" + v, "weight arm for %s not understood (%s)" % (v, [sig(x[2])[:80] for x in rets]), b.where(tgt))
            continue
        w = rets[0][2][1][0]
        lb = _lower_bound(w)
        r.check(lb >= 1, "arm/" + v, "weight(%s) ≥ %d" % (v, lb), "weight of %s is %s: lower bound %d — a zero-weight instruction executes for free" % (v, sig(w)[:100], lb), b.where(rets[0][0], rets[0][1]))
        # every instruction is weighed: the remainder handed back starts right after this opcode (for Loop: the body is part of it, or exactly the weighed body is cut off)
        rest = rets[0][2][1][1]
        rs = sig(rest)
        if _TAIL.match(rs):
            r.ok("rest/" + v, "remainder after %s is the whole tail" % v)
        elif q.is_call(rest, "index") and _TAIL.match(sig(rest[2][0])) and "RangeFrom{" in sig(rest[2][1]) and v != "Loop":
            r.violation("rest/" + v, "the %s arm hands back %s: the instructions cut off are never weighed although a branch can still reach them — they execute for free" % (v, rs[:160]), b.where(rets[0][0], rets[0][1]))
        else:
            r.undecided("rest/" + v, "remainder after %s not recognised: %s" % (v, rs[:160]), b.where(rets[0][0], rets[0][1]))


def r2_loop_weight(ctx):
    r = ctx.rule("R2", "Loop(iters, len) weighs weight(rest[..min(len, rest.len())])·iters + c with c ≥ 1")
    b, variants, table, nowild = _weight_table(ctx, r)
    r.anchor(table.get("Loop"), "Loop arm")
    tgt, rets = table["Loop"]
    w = rets[0][2][1][0] if rets and rets[0][2][0] == "tuple" else None
    r.anchor(w, "Loop weight expression")
    nf = q.strip_unwrap(q.arith_nf(w))
    FIRST = "core::slice::<impl [T]>::split_first($1)"
    ok = False
    detail = sig(nf)[:300]
    if nf[0] == "bin" and nf[1] == "Add":
        parts = [nf[2], nf[3]]
        c = [p for p in parts if p[0] == "const"]
        m = [p for p in parts if p[0] == "bin" and p[1] == "Mul"]
        if c and m and c[0][2] >= 1:
            f = [m[0][2], m[0][3]]
            iters = [x for x in f if sig(x) == "(%s.0 as Loop).0" % FIRST]
            body = [x for x in f if x[0] == "call" and x[1].endswith("opcodes_weight")]
            if iters and body:
                arg = sig(body[0][2][0])
                want = "core::slice::index::<impl std::ops::Index<I> for [T]>::index(%s.1, RangeTo::RangeTo{end: Ord::min(((%s.0 as Loop).1 as usize), core::slice::<impl [T]>::len(%s.1))})" % (FIRST, FIRST, FIRST)
                want2 = want.replace("Ord::min(((%s.0 as Loop).1 as usize), core::slice::<impl [T]>::len(%s.1))" % (FIRST, FIRST), "Ord::min(core::slice::<impl [T]>::len(%s.1), ((%s.0 as Loop).1 as usize))" % (FIRST, FIRST))
                ok = arg in (want, want2)
                detail = "body slice = %s" % arg[:200]
    r.check(ok, "shape", "weight(Loop) = weight(body)·iters + c", "Loop weight is %s" % detail, b.where(rets[0][0], rets[0][1]))


def _from_loop_state(b, e):
    """is the root variable of `x.begin` a loop state popped from / read off self.loop_state (whatever the local is called)?"""
    root = q.root_of(q.novers(e))
    if not isinstance(root, tuple) or root[0] != "var":
        return False
    return any("loop_state" in sig(d[1]) for d in q.var_def_exprs(b, root[1]))


def r3_forward_pc(ctx):
    r = ctx.rule("R3", "Executor.pc is only ever increased (by 1 or by a u16 operand) except for the guarded loop-back pc = state.begin with iterations_left −= 1")
    prog = ctx.prog
    ws = q.field_writers(prog, "melvm::executor::Executor", "pc", crates=("melvm",))
    n = 0
    for b, recs in sorted(ws.items(), key=lambda kv: kv[0].nname):
        ctx.analysed(b)
        for rec in recs:
            if rec[0] == "agg":
                r.check(b.nname == EX + "new", "ctor@" + b.nname.split("::")[-1], "constructor", "%s constructs an Executor" % b.nname)
                continue
            if rec[0] == "mutref":
                r.undecided("mutref@" + b.nname.split("::")[-1], "&mut pc escapes in %s" % b.nname, b.where(rec[1], rec[2]))
                continue
            n += 1
            st = b.blocks[rec[1]]["stmts"][rec[2]]
            v = b.rec_rvalue(st["rv"], rec[1], rec[2])
            nf = q.arith_nf(v)
            where = b.where(rec[1], rec[2])
            short = b.nname.replace("melvm::executor::", "").replace("{closure#", "c").replace("}", "")
            signed = [x for x in mir.walk(v) if x[0] == "cast" and (x[3].startswith("i") or x[2].startswith("i"))]
            if signed:
                r.violation("write@%s/signed-offset" % short, "pc is computed through a signed conversion (%s): a negative offset moves the program counter backwards" % sig(signed[0])[:120], where)
                continue
            if nf[0] == "bin" and nf[1] == "Add":
                terms = [nf[2], nf[3]]
                pcs = [t_ for t_ in terms if sig(q.novers(t_)).endswith(".pc")]
                inc = [t_ for t_ in terms if t_ not in pcs]
                if len(pcs) == 1 and len(inc) == 1:
                    i = inc[0]
                    if i[0] == "const" and i[2] == 1:
                        r.ok("inc@%s/+%d" % (short, i[2]), "pc += %d" % i[2], where)
                        continue
                    if i[0] == "const":
                        # 'instruction by instruction': the fetch advances by exactly one; +0 re-executes the instruction for ever, +2 skips every other one
                        r.violation("write@%s/step-not-1" % short, "the program counter is advanced by the constant %s, not by 1" % i[2], where)
                        continue
                    raw_inc = [x for x in (v[1][2], v[1][3])] if v[0] == "field" else []
                    s = sig(i)
                    if "(try(core::slice::<impl [T]>::get(^self.instrs, ^self.pc)) as Loop).0" in s:
                        r.violation("write@%s/skip-by-iterations" % short, "a skipped loop advances the program counter by the loop's iteration count, not by its body length", where)
                        continue
                    if "(try(core::slice::<impl [T]>::get(^self.instrs, ^self.pc)) as " in s and s.split(" as ")[-1][:4] in ("Bez)", "Bnz)", "Jmp)", "Loop"):
                        r.ok("inc@%s/+operand:%s" % (short, s.split(" as ")[-1].split(")")[0]), "pc += unsigned operand (%s)" % s[-30:], where)
                        continue
                r.violation("write@%s/other-add" % short, "pc := %s" % sig(nf)[:160], where)
            elif sig(q.novers(nf)).endswith(".begin") and ("state" in sig(q.novers(nf)) or "loop_state" in sig(q.novers(nf)) or _from_loop_state(b, nf)):
                # loop-back
                isgate = lambda c: ((c.startswith("Lt(0, ") or c.startswith("Ne(0, ")) and c.endswith(".iterations_left)")) or (c.startswith("Ne(") and c.endswith(".iterations_left, 0)"))   # unsigned: > 0 ⇔ != 0
                gates = [a for a in q.pick_atoms(b, isgate) if isgate(a[1])]     # `left > 0` or `!(left == 0)` / `left <= 0` negated
                r.check(len(gates) >= 1, "loopback/guard-present", "iterations_left > 0 is tested", "the loop-back is not guarded by iterations_left > 0", where)
                if gates:
                    f = force(b, {g[0]: 0 for g in gates})
                    r.check(rec[1] not in f.reach, "loopback/guarded", "unreachable when iterations_left == 0", "pc = state.begin is reachable with iterations_left == 0 (unbounded looping)", where)
                dec = [w for w in q.stmt_writes(b, "iterations_left") if w[0] == "assign"]
                okd = False
                for w in dec:
                    wn = q.arith_nf(w[4])
                    if wn[0] == "bin" and wn[1] == "Sub" and q.const_val(wn[3]) == 1 and sig(q.novers(wn[2])).endswith(".iterations_left"):
                        if w[1] == rec[1] or b.dominates(w[1], rec[1]) or b.dominates(rec[1], w[1]):
                            okd = True
                r.check(okd, "loopback/decrement", "accompanied by iterations_left −= 1", "the loop-back does not decrement iterations_left", where)
            else:
                r.violation("write@%s/other" % short, "pc := %s (neither an increment nor the guarded loop-back)" % sig(nf)[:160], where)
    r.floor("pc writes", n, 6)
    # update_pc_state re-pushes the decremented state
    u = ctx.body(EX + "update_pc_state", r)
    pushes = [sigv(e) for bi, e in q.call_exprs(u, "Vec::push")]
    r.check(len(pushes) == 2, "loopback/state-kept", "loop state is pushed back", "pushes: %s" % pushes)
    # the unwinding loop `while let Some(state) = loop_state.pop()` is left only when the stack is empty or after a state has been pushed back:
    # leaving it with a popped state dropped means the enclosing loops are not examined in this step (their iteration is lost)
    for (h, blocks, latches) in u.loops():
        t = u.term(h)
        if not (t and t["k"] == "call" and mir.callee_name(t).endswith("Vec::<T, A>::pop") or (t and t["k"] == "call" and mir.callee_name(t).split("::")[-1] == "pop")):
            continue
        pb = {bi for bi, e in q.call_exprs(u, "Vec::push")}
        entry = q.loop_entry(u, h, blocks)
        # from the point where a state has been popped, follow every path (inside and after the loop) that neither pushes a state back nor returns
        # to the header for the next pop: reaching the function's return on such a path drops the popped state with the outer loops unexamined
        seen, st = {entry}, [entry]
        while st:
            x = st.pop()
            if x in pb:
                continue
            for s_ in u.succs(x):
                if s_ not in seen and s_ != h:
                    seen.add(s_)
                    st.append(s_)
        dropped = [(x, x) for x in u.return_blocks() if x in seen]
        r.check(not dropped, "loopback/no-drop-exit", "the unwinding loop is left only through exhaustion or after a push-back",
                "update_pc_state can leave its unwinding loop with a popped loop state dropped (from bb%s): the enclosing loops are not examined, their pending iterations are lost"
                % sorted({x for x, _ in dropped}), u.where(h))
    # run_to_end: the only loop; bounded by pc < len
    rt = ctx.body(EX + "run_to_end", r)
    WANT = "Lt($1.pc, Vec::len($1.instrs))"
    conds = [a[1] for a in q.pick_atoms(rt, lambda c: c == WANT)]
    r.check(conds == [WANT], "run/cond", "runs while pc < instrs.len()", "run_to_end loops on %s" % conds)


def r4_nesting(ctx):
    r = ctx.rule("R4", "Loop: pushing a loop state is unreachable when the new loop's end exceeds the enclosing loop's end")
    st = ctx.body(EX + "step::{closure#0}", r)
    pushes = [(bi, e) for bi, e in q.call_exprs(st, "Vec::push") if "LoopState::LoopState{" in sig(e)]
    r.check(len(pushes) == 1, "push", "one loop-state push", "%d loop-state pushes" % len(pushes))
    LAST = "core::slice::<impl [T]>::last(^self.loop_state)"
    atoms = [a for a in q.cmp_atoms(st) if ("try(%s).end" % LAST) in a[1] and "Loop).1" in a[1]]
    if len(atoms) == 1:
        r.ok("check", "the new end is compared with the enclosing loop's end")
    else:
        # "no nesting check" needs the demonstrable absence of any comparison with a loop state's `end` from the instruction closure and everything nested in it
        # (helpers that are not in the baseline inventory are spliced in); a comparison that is there but spelled differently (through a newtype around the loop
        # stack, `is_some_and`, a `match` guard) is not read: undecided
        step_ = ctx.prog.body(EX + "step")
        near = [c_ for n_ in ([st] + [x for x in ctx.prog.all_nested(step_ if step_ is not None else st) if x is not st]) for _e, c_, _b in q.cmp_atoms(n_) if ".end" in c_]
        wrong = [c_ for c_ in near if "Loop).1" in c_ and "loop_state" in c_ and "last(" not in c_ and any(w_ in c_ for w_ in ("first(", "get(", "index(", "nth("))]
        if wrong:
            # positive: the new loop's end IS compared with a loop state's end — of another frame than the innermost one
            r.violation("check", "the new loop's end is compared with the end of a loop state that is not the innermost enclosing one (%s): a loop nested properly in its parent but overrunning an outer frame is refused, or the reverse" % wrong[0][:140])
        elif near or len(atoms) > 1:
            r.undecided("check", "no comparison of the form `new end ⋗ last(loop_state).end` was read, but the instruction code compares loop ends (%s): not decided" % ([x[:100] for x in near[:2]] or [a[1][:100] for a in atoms]))
        else:
            r.violation("check", "no comparison with the enclosing loop's end anywhere in Executor::step: improperly nested loops are not refused")
    if pushes and atoms:
        e, c, bi = atoms[0]
        op, L, R = q.as_cmp(e)
        this_is_L = "Loop).1" in sig(L)
        # hypothesis: this_end > previous_end
        truth = q.cmp_truth_given_lt(op, not this_is_L)
        has = [(b2, x) for b2, x in q.all_call_exprs(st) if sig(x) == LAST]
        tbl = {e: 1 if truth else 0}
        for b2, x in has:
            tbl[("discr", x)] = 1
            tbl[x] = V(1)
        f = force(st, tbl)
        r.check(pushes[0][0] not in f.reach, "exceeds=>fail", "a loop reaching beyond its enclosing loop is not started", "a loop whose end exceeds the enclosing loop's end is still pushed", st.where(bi))
        pe = pushes[0][1][2][1]
        fld = dict(pe[3]) if pe[0] == "agg" else {}
        INS = "(try(core::slice::<impl [T]>::get(^self.instrs, ^self.pc)) as Loop)"
        r.check(sig(fld.get("begin", ("unknown", ""))) == "^self.pc", "state/begin", "begin = pc (after the Loop instruction)", "begin = %s" % sig(fld.get("begin", ("unknown", ""))))
        r.check(q.arith_nf(fld.get("iterations_left", ("unknown", ""))) == q.B("Sub", ("vfield", ("try", ("call", "core::slice::<impl [T]>::get", (("field", ("upvar", "_ref__self"), "instrs"), ("field", ("upvar", "_ref__self"), "pc")))), "Loop", "0"), q.K(1)),
                "state/iterations", "iterations_left = iterations − 1", "iterations_left = %s" % sig(fld.get("iterations_left", ("unknown", "")))[:120])
        endnf = q.arith_nf(fld.get("end", ("unknown", "")))
        r.check(sig(endnf) == "Sub(Add(%s.1, ^self.pc), 1)" % INS or sig(endnf) == "Sub(Add(^self.pc, %s.1), 1)" % INS, "state/end", "end = pc + len − 1", "end = %s" % sig(endnf)[:140])
        ZW = ("Lt(0, %s.0)" % INS, "Ne(0, %s.0)" % INS, "Ne(%s.0, 0)" % INS)
        zero = [a for a in q.pick_atoms(st, lambda c: c in ZW) if a[1] in ZW]      # `iterations > 0`, `!= 0`, or `== 0` with the branches swapped
        r.check(len(zero) == 1, "zero-iterations/test", "iterations > 0 is tested", "no test for zero iterations")
        if zero:
            f0 = force(st, {zero[0][0]: 0})
            r.check(pushes[0][0] not in f0.reach, "zero-iterations/skipped", "a zero-iteration loop is skipped, not entered", "a zero-iteration loop is entered")
            # 'an improperly nested loop makes execution fail' — also when it is to run zero times: the nesting comparison must be made on that path too.  Otherwise
            # the skip over a body that crosses the end of the enclosing loop acts as a jump out of it, and the enclosing loop ends after one pass (D27)
            if bi not in f0.reach:
                r.violation("zero-iterations/nesting-unchecked", "with zero iterations the comparison of the new loop's end with the enclosing loop's end is never made: "
                            "[PushI 0, Loop(3,3), PushI 1, Add, Loop(0,2), Noop, Noop, Noop] yields Some(1) where Loop(1,2) in the same place fails", st.where(bi))
            else:
                r.ok("zero-iterations/nesting-checked", "the nesting comparison is made for zero-iteration loops too")
        # a loop state describes a non-empty range: begin = pc, end = pc + len − 1 needs len ≥ 1, otherwise end < begin, the loop-back `pc = begin` lands behind
        # `end` with the state still on the stack, and the bookkeeping of the ENCLOSING loop is skipped — its body runs once instead of the stated number of times (D26)
        LEN = "%s.1" % INS
        lens = [a for a in q.cmp_atoms(st) if LEN in a[1] and ("(0, " in a[1] or ", 0)" in a[1] or "(1, " in a[1] or ", 1)" in a[1]) and "try(%s)" % LAST not in a[1]]
        if lens:
            r.undecided("state/empty-body", "the body length is compared with a constant (%s): whether that keeps empty bodies from being pushed is not decided" % lens[0][1][:100])
        else:
            r.violation("state/empty-body", "Loop(n, 0) pushes a loop state with end = begin − 1 (no test of the body length): [PushI 0, Loop(3,3), PushI 1, Add, Loop(2,0), Noop, Noop] "
                        "yields 1 — the enclosing loop's body runs once instead of three times", st.where(pushes[0][0]))


def r5_length_guards(ctx):
    r = ctx.rule("R5", "every CatVec→Vec conversion in the interpreter is unreachable when the value's length exceeds its bound (guard before materialisation)")
    prog = ctx.prog
    st = ctx.body(EX + "step::{closure#0}", r)
    n = 0
    for c in prog.all_nested(st):
        for bi, t in c.calls():
            f_ = t["fn"]
            if not f_:
                continue
            g = f_["gargs"]
            nm = mir.norm_name(f_["path"])
            if nm in ("std::convert::Into::into", "std::convert::From::from") and len(g) >= 2 and any("catvec::CatVec<u8" in x for x in g[:1]) and any(x.startswith("std::vec::Vec<u8") for x in g[1:2]):
                n += 1
                arg = c.rec_operand(t["args"][0], bi, "T")
                s = sig(q.novers(arg))
                key = "%s@%s" % (c.nname.split("::")[-1].replace("{closure#", "c").replace("}", ""), s[:50])
                lens = [a for a in q.cmp_atoms(c) if "CatVec::len(%s)" % s in a[1]]
                if not lens:
                    r.violation("unguarded/" + key, "%s is converted to a Vec without any length test: an attacker-grown byte string is copied in full before it can be rejected" % s, c.where(bi))
                    continue
                ok = False
                for e, cn, ab in lens:
                    op, L, R = q.as_cmp(e)
                    len_is_L = "CatVec::len" in sig(L)
                    ni = q.narrowed_inner(L if len_is_L else R)
                    if ni is not None:
                        r.violation("guarded/" + key + "/reduced", "the length test before the conversion of %s is made on the length %s to %d bits: a longer string passes the bound and is "
                                    "materialised and processed in full for the price of the bound" % (s, ni[2], ni[1]), c.where(ab))
                        continue
                    # hypothesis: len exceeds the bound (len > bound)
                    for hyp_truth in ([q.cmp_truth_given_lt(op, not len_is_L)] if op not in ("Eq", "Ne") else [op == "Ne"]):
                        f = force(c, {e: 1 if hyp_truth else 0})
                        if bi not in f.reach and c.dominates(ab, bi):
                            ok = True
                r.check(ok, "guarded/" + key, "conversion unreachable when the length test fails", "%s is converted to a Vec before its length is checked" % s, c.where(bi))
    r.floor("CatVec→Vec conversions", n, 5)


def r6_linear_weighing(ctx):
    r = ctx.rule("R6", "opcodes_weight/opcodes_car_weight recursion: the slice weighed recursively is disjoint from the remainder returned to the caller")
    b, variants, table, nowild = _weight_table(ctx, r)
    prog = ctx.prog
    ow = ctx.body("melvm::opcode::opcodes_weight", r)
    edges, _ = prog.callgraph()
    cyc = b.id in edges.get(ow.id, ()) and ow.id in edges.get(b.id, ())
    r.check(cyc, "cycle", "opcodes_weight ↔ opcodes_car_weight recursion present", "the weighing recursion has changed shape")
    FIRST = "Option::unwrap(core::slice::<impl [T]>::split_first($1))"
    for v, (tgt, rets) in table.items():
        for x in rets:
            if x[2][0] != "tuple":
                continue
            w, rest = x[2][1]
            rec = [y for y in mir.walk(w) if y[0] == "call" and y[1].endswith("opcodes_weight")]
            for y in rec:
                arg = y[2][0]
                # prefix slice of the very remainder that is returned
                if q.is_call(arg, "index") and sig(arg[2][0]) == sig(rest) and "RangeTo{" in sig(arg[2][1]):
                    r.violation("loop-body-reweighed", "the %s arm weighs %s recursively and then returns the whole %s: the body is weighed again by the caller, so k nested loops are weighed 2^k times" %
                                (v, sig(arg)[:80], sig(rest)[:60]), b.where(x[0], x[1]))
                else:
                    r.ok("recursion@" + v, "recursive slice %s vs remainder %s" % (sig(arg)[:60], sig(rest)[:40]), b.where(x[0], x[1]))
    # other recursion cycles in melvm
    sccs = _sccs(prog, [bd.id for bd in prog.bodies if bd.crate == "melvm" and bd.kind != "Promoted"])
    other = [c for c in sccs if not set(c) <= {b.id, ow.id}]
    r.check(not other, "no-other-recursion", "no other recursion in melvm", "recursion cycles: %s" % [[prog.by_id[i].nname for i in c] for c in other])


def _sccs(prog, ids):
    edges, _ = prog.callgraph()
    idset = set(ids)
    index = {}
    low = {}
    st = []
    on = set()
    out = []
    cnt = [0]
    import sys
    sys.setrecursionlimit(10000)

    def strong(v):
        index[v] = low[v] = cnt[0]
        cnt[0] += 1
        st.append(v)
        on.add(v)
        for w in edges.get(v, ()):
            if w not in idset:
                continue
            if w not in index:
                strong(w)
                low[v] = min(low[v], low[w])
            elif w in on:
                low[v] = min(low[v], index[w])
        if low[v] == index[v]:
            comp = []
            while True:
                w = st.pop()
                on.discard(w)
                comp.append(w)
                if w == v:
                    break
            if len(comp) > 1 or v in edges.get(v, ()):
                out.append(comp)
    for v in ids:
        if v not in index:
            strong(v)
    return out


def r7_once_per_tx(ctx):
    r = ctx.rule("R7", "a covenant is charged once per transaction (Transaction::base_fee sums the weights of tx.covenants) — so it may run at most once per transaction: the set of "
                       "already validated covenant hashes is created before the loop over the inputs, a hit skips validate_tx_scripts, a successful validation is recorded", positional=False)
    from rules.props import c04
    b = ctx.body("melstf::state::applytx::check_tx_validity", r)
    mode = c04._input_mode(b)[0]
    loops = [l for l in q.loop_with_source(b, lambda s_: True) if sig(l[3]) == (c04.ENUM_SRC if mode == "enumerate" else c04.PLAIN_SRC)]
    r.anchor(loops, "input loop of check_tx_validity")
    h, blocks, latches, src = loops[0]
    val = [(bi, e) for bi, e in q.call_exprs(b, "validate_tx_scripts") if bi in blocks]
    r.anchor(val, "validate_tx_scripts call in the input loop")
    cache = [(bi, e) for bi, e in q.call_exprs(b, "HashSet::contains", "contains") if bi in blocks and ("covhash" in sig(e))]
    if not cache:
        r.undecided("once/cache", "no set of validated covenant hashes is consulted in the input loop: a covenant guarding k inputs runs k times; whether its weight is then "
                    "charged k times is not decided here", b.where(val[0][0]))
        return
    f = force(b, {e: 1 for bi, e in cache})
    r.check(not any(vb in f.reach for vb, _ in val), "once/hit=>skipped", "a covenant hash already validated for this transaction is not executed again",
            "validate_tx_scripts is still reached when the covenant hash is already in the set", b.where(cache[0][0]))
    recv = mir.strip(cache[0][1][2][0])
    defs = q.var_def_exprs(b, recv[1]) if recv[0] == "var" else []
    if len(defs) >= 1:
        inside = [d for d in defs if d[0][0] in blocks]
        r.check(not inside, "once/one-set", "the set is created once, before the loop over the inputs",
                "the set of validated covenant hashes is (re-)created inside the loop over the inputs: it is empty at every input, so a covenant guarding k inputs is executed k times "
                "while its weight is charged once", b.where(inside[0][0][0]) if inside else None)
    else:
        r.undecided("once/one-set", "the set consulted is %s: where it is created is not decided" % sig(recv)[:80], b.where(cache[0][0]))
    ins = [bi for bi, e in q.call_exprs(b, "HashSet::insert", "insert") if bi in blocks and "covhash" in sig(e) and sig(mir.strip(e[2][0])) == sig(recv)]
    if ins:
        ok = True
        for vb, ve in val:
            fz = force(b, {ve: V(0)})
            wo = fz.reach_from(vb, avoid=ins)
            if any(l in wo for l in latches):
                ok = False
        r.check(ok, "once/validated=>recorded", "after a successful validation the covenant hash is recorded before the next input",
                "a path from a successful validation to the next input does not record the covenant hash", b.where(val[0][0]))
    else:
        r.violation("once/validated=>recorded", "validated covenant hashes are never recorded in the set that is consulted: every input re-executes its covenant", b.where(val[0][0]))


def r8_weight_accumulates(ctx):
    """the weight of a program is the (saturating) sum of the weights of ALL its parts: opcodes_weight keeps weighing while instructions remain, adds
    every part's weight, moves on to what the part left over, and nothing in the two weighing functions wraps around"""
    r = ctx.rule("R8", "opcodes_weight: loops while instructions remain; every round adds the part's weight (saturating) and continues with the remainder; no wrapping arithmetic in the weighing functions", positional=False)
    w = ctx.body("melvm::opcode::opcodes_weight", r)
    car = ctx.body("melvm::opcode::opcodes_car_weight", r)
    loops = w.loops()
    r.check(len(loops) == 1, "loop", "one weighing loop", "%d loops in opcodes_weight" % len(loops))
    if len(loops) != 1:
        return
    h, blocks, latches = loops[0]
    rets = w.return_blocks()
    emp = [(bi, e) for bi, e in q.call_exprs(w, "is_empty") if bi in blocks]
    if len(emp) == 1:
        f1 = force(w, {emp[0][1]: 0})        # instructions remain
        r.check(not any(x in f1.reach_from(h) for x in rets), "loop/until-empty", "with instructions remaining the weight is not yet returned",
                "opcodes_weight can return while instructions remain: the rest of the program is not weighed", w.where(emp[0][0]))
        f0 = force(w, {emp[0][1]: 1})        # nothing remains
        r.check(not any(x in f0.reach_from(h) for x in latches), "loop/stops-when-empty", "nothing remaining ends the loop", "the loop goes on with nothing left to weigh", w.where(emp[0][0]))
    else:
        r.undecided("loop/until-empty", "loop condition not read (%d is_empty tests)" % len(emp))
    entry = q.loop_entry(w, h, blocks)
    cars = [bi for bi, e in q.call_exprs(w, "opcodes_car_weight") if bi in blocks]
    adds = [(bi, e) for bi, e in q.all_call_exprs(w) if bi in blocks and e[0] == "call" and e[1].split("::")[-1] in ("saturating_add", "checked_add") and "opcodes_car_weight" in sig(e)]
    if cars and adds:
        wo = w.reachable(entry, removed=[bi for bi, e in adds])
        r.check(not any(l in wo for l in latches), "sum/every-part", "every part's weight is added", "a round of the loop can finish without adding the part's weight", w.where(adds[0][0]))
    elif cars:
        plain = [t for bi, t in w.iter_terms("assert") if bi in blocks and t["msg"].startswith("Overflow(Add")]
        if plain:
            r.undecided("sum/every-part", "the part weights are added with a plain `+` (overflow is C09's business): not read")
        else:
            r.violation("sum/every-part", "the loop of opcodes_weight weighs the parts but never adds their weights to the sum", w.where(cars[0]))
    # the remainder: the loop variable that the condition tests is assigned the .1 of this round's opcodes_car_weight
    rest_w = [(bi, si) for bi, si, s_ in w.iter_stmts() if bi in blocks and s_["k"] == "assign" and not s_["place"]["p"]
              and sig(q.novers(w.rec_rvalue(s_["rv"], bi, si))).startswith("opcode::opcodes_car_weight(") and sig(q.novers(w.rec_rvalue(s_["rv"], bi, si))).endswith(").1")
              and w.locals[s_["place"]["l"]].get("name") not in (None, "new_rest")]
    if emp and len(emp) == 1:
        tested = sig(q.novers(emp[0][1][2][0]))
        moved = "opcodes_car_weight(" in tested and "phi(" in tested
        r.check(moved, "rest/advances", "the loop continues with what the weighed part left over", "the slice tested by the loop condition (%s) is not replaced by the remainder of each round: the loop never ends" % tested[:120], w.where(emp[0][0]))
    for b in (w, car):
        for bi, t in b.calls():
            nm = mir.callee_name(t)
            last = nm.split("::")[-1]
            if nm.startswith("core::num::<impl ") and last.startswith("wrapping_"):
                r.violation("wrap@%s|%s" % (b.nname.split("::")[-1], last), "%s in %s: a weight past 2^128 wraps around to a small one, and the fee with it" % (last, b.nname.split("::")[-1]), b.where(bi))


def r9_paid_before_run(ctx):
    """'a small, cheap transaction cannot make validators do unbounded work': the work a covenant may cause is bounded by its weight, and the weight is what the
    fee pays for — so a transaction that does not pay its minimum fee must be turned away BEFORE its covenants run.  (D22: apply_tx_batch_impl executed the
    covenants of the whole batch first and compared fee and minimum fee only afterwards, in create_next_state: a fee-0 transaction with a 77-byte covenant of
    weight 4·10^7 kept the validator busy for seconds and was then rejected, free of charge, as often as it was resubmitted.)"""
    r = ctx.rule("R9", "apply_tx_batch_impl: every batch member passes the fee gate (tx.fee < base_fee(tx, this.fee_multiplier, 0, weight) ⇒ Err) before check_tx_validity / DoscMint verification run", positional=False)
    impl = ctx.body("melstf::state::applytx::apply_tx_batch_impl", r)
    work = q.effect_sites(ctx.prog, impl, "check_tx_validity") + q.effect_sites(ctx.prog, impl, "validate_and_get_doscmint_speed")
    if not work:
        r.undecided("paid-before-run", "no call of check_tx_validity / validate_and_get_doscmint_speed found under apply_tx_batch_impl")
        return
    gates = [(e, c, bi) for e, c, bi in q.pick_atoms(impl, lambda c: c.startswith("Lt(") and ".fee" in c and "base_fee(" in c) if c.startswith("Lt(") and ".fee, " in c and "base_fee(" in c]
    if not gates:
        # "missing" needs the demonstrable absence of a minimum-fee computation from the function and everything nested in it: a gate spelled with adapters
        # (`txx.iter().map(|tx| (tx.fee, minimum_fee(..))).find(|(fee, min)| fee < min)`) computes and compares inside closures, which is not read here
        nested_fee = [n for n in ctx.prog.all_nested(impl) if n is not impl and (q.calls_to(n, "base_fee") or q.calls_to(n, "minimum_fee"))]
        if nested_fee:
            r.undecided("paid-before-run/missing", "no fee comparison in the body of apply_tx_batch_impl itself, but the minimum fee is computed in %s: a gate made of iterator adapters is not read" % nested_fee[0].nname.split("::")[-1], impl.where(work[0][0]))
            return
        r.violation("paid-before-run/missing", "apply_tx_batch_impl runs check_tx_validity (covenant execution) without having compared any transaction's fee with its minimum fee: "
                    "covenants of transactions that pay nothing are executed to the end before create_next_state rejects them", impl.where(work[0][0]))
        return
    g, c, gb = gates[0]
    loops = [l for l in q.loop_nest(impl) if gb in l[1]]
    src_ok = bool(loops) and sig(loops[0][3]) in ("$2", "core::slice::<impl [T]>::iter($2)")
    if not src_ok:
        r.undecided("paid-before-run/every-tx", "the fee gate is not inside a plain loop over the batch (%s)" % ([sig(l[3]) for l in loops] or "no loop"))
    else:
        h, blocks, latches, src = loops[0]
        entry = q.loop_entry(impl, h, blocks)
        wo = impl.reachable(entry, removed=[gb])
        r.check(not any(l in wo for l in latches), "paid-before-run/every-tx", "every batch member is compared with its minimum fee", "a batch member can pass without the fee comparison", impl.where(gb))
        around = impl.reachable(0, removed=[h])
        r.check(not any(w[0] in around for w in work), "paid-before-run/first", "validation runs only after the fee loop", "check_tx_validity can run without the fee loop having run", impl.where(work[0][0]))
    f = force(impl, {g: 1})
    after = f.reach_from(gb)
    r.check(not any(w[0] in after for w in work), "paid-before-run/underpaid=>rejected", "an underpaying transaction ends the batch before anything is executed", "with tx.fee < min_fee validation still runs", impl.where(gb))
    r.check("$1.fee_multiplier" in c and ", 0, " in c, "paid-before-run/min-fee", "minimum fee = base_fee(tx, this.fee_multiplier, 0, covenant weights)", "the gate compares with %s" % c[:200], impl.where(gb))


def shared(ctx):
    """'its weight — the quantity the spender is charged for': the fee is computed from covenant_weight_from_bytes, the bound on the executed steps from the weight of the
    decoded program; C12.T8 decides that the two are one number (whole-program weighing, not a sum over separately decoded pieces)."""
    from rules.engine import core
    from rules.props import c12
    core.import_rules(ctx, [c12.t8_one_weight], "X12")


RULES = [r1_min_weight, r2_loop_weight, r3_forward_pc, r4_nesting, r5_length_guards, r6_linear_weighing, r7_once_per_tx, r8_weight_accumulates, r9_paid_before_run, shared]
