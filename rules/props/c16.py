"""C16 — built-in pools always exist with reserves; liquidity tokens stay fully backed."""
from rules.engine import mir, q
from rules.engine.q import sig, sigv, force
from rules.props import c15

EXPLANATION = (
    "Decides the existence clause and the issuance provenance. R1 seal runs preseal_melmint before anything else and preseal_melmint starts with create_builtins. "
    "R2 create_builtins inserts MEL/SYM and MEL/ERG when absent unconditionally, ERG/SYM when absent under tip_902(), each with a PoolState that went through "
    "deposit(c, c) with a non-zero constant c; with the pool present nothing is overwritten. R3 no deletion: no SmtMapping::delete/clear on a pool mapping and every "
    "value inserted into a pool mapping has passed through deposit/swap_many/withdraw (never a bare new_empty()). R4 issuance/burn provenance: liquidity coins are "
    "multiply_frac(result of PoolState::deposit, share) and withdrawals burn exactly Σ of the liquidity coins consumed (shared with C15.R3d/R3w)."
    " R2 `preemptible`: a pool that becomes a built-in only under a TIP flag must receive unowned liquidity even when it already exists (recorded finding D19 for ERG/SYM). R5 tokens-only-from-deposits: a transaction kind that is exempt from the per-denomination balance check must not be free to name a Custom denomination in its outputs (recorded finding D21: Faucet). Imports C15.R6 (each pool processed once per block) and the activation table C06.R5."
    " R2 `insert/Any/Key/present=>kept`: also for an insertion whose key is not a literal (built-ins listed in a table, created in a loop) — with pools.get(that key) present the insertion is unreachable; which pools such a loop creates is undecided, not a violation. Imports C01.R8 (the protocol's own trades against the built-in pools go through swap_many)."
)
NOT_DECIDED = ["non-zero reserves after arbitrary swap sequences and 'tokens in coins ≤ recorded liquidity' over histories (PoolState arithmetic in the trusted base; sums over histories)"]
ASSUMPTIONS = ["PoolState::deposit(c, c) on an empty pool yields reserves (c, c) and c liquidity (melstructs 0.3.3)"]
MM = "melstf::state::melmint::"


def r1_builtins_first(ctx):
    r = ctx.rule("R1", "seal's first effect is preseal_melmint(self); preseal_melmint's innermost stage is create_builtins")
    seal = ctx.body("melstf::state::UnsealedState::seal", r)
    pm = q.call_exprs(seal, "preseal_melmint")
    r.check(len(pm) == 1, "seal/call", "seal calls preseal_melmint", "%d calls" % len(pm))
    for bi, e in pm:
        others = [cb for cb, t in seal.calls() if cb != bi and not t["exp"]]
        r.check(all(seal.dominates(bi, o) for o in others), "seal/first", "preseal_melmint dominates every other call of seal", "some call of seal is not preceded by preseal_melmint", seal.where(bi))
        r.check(sig(q.novers(e[2][0])) == "self" or sig(e[2][0]) == "$1", "seal/arg", "on self", "on %s" % sig(e[2][0]), seal.where(bi))
        d = q.var_def_exprs(seal, "self")
        r.check(any(q.is_call(x[1], "preseal_melmint") for x in d), "seal/rebinds", "self = preseal_melmint(self)", "the pre-sealed state is not used")
    b = ctx.body(MM + "preseal_melmint", r)
    rr = q.ret_assignments(b)
    s = sig(rr[0][2]) if rr else "?"
    r.check(s.endswith("(melmint::create_builtins($1)))))") and s.startswith("melmint::process_pegging("), "preseal/builtins-innermost", "create_builtins is applied first", "preseal_melmint returns %s" % s)


def r2_create_builtins(ctx):
    r = ctx.rule("R2", "create_builtins: absent MEL/SYM, MEL/ERG (always) and ERG/SYM (under tip_902) are inserted with a PoolState that went through deposit(c, c), c ≠ 0")
    b = ctx.body(MM + "create_builtins", r)
    ins = q.call_exprs(b, "SmtMapping::insert")
    want = {"PoolKey::new(Denom::Mel{}, Denom::Sym{})": False, "PoolKey::new(Denom::Mel{}, Denom::Erg{})": False, "PoolKey::new(Denom::Erg{}, Denom::Sym{})": True}
    alt = {"PoolKey::new(Denom::Sym{}, Denom::Mel{})": "PoolKey::new(Denom::Mel{}, Denom::Sym{})", "PoolKey::new(Denom::Erg{}, Denom::Mel{})": "PoolKey::new(Denom::Mel{}, Denom::Erg{})",
           "PoolKey::new(Denom::Sym{}, Denom::Erg{})": "PoolKey::new(Denom::Erg{}, Denom::Sym{})"}
    t902 = [e for bi, e in q.call_exprs(b, "UnsealedState::tip_902")]
    retb = b.return_blocks()
    seen = set()
    unreadable = []
    for bi, e in ins:
        k = sig(e[2][1])
        k = alt.get(k, k)
        where = b.where(bi)
        if k not in want:
            # a key the rule cannot name (the built-ins listed in a table and created in a loop): the clause "present ⇒ not overwritten" is still decidable —
            # with `pools.get(<that same key>)` forced to be present the insertion must be unreachable (a re-creation test that also looks at the reserves
            # re-seeds a drained pool out of nothing, block after block)
            kk = k
            tbl_abs_, tbl_pre_ = q.presence_tests(b, lambda sx: sx.endswith("%s)" % kk))
            if tbl_pre_:
                f2_ = force(b, tbl_pre_)
                r.check(bi not in f2_.reach, "insert/Any/Key/present=>kept", "present ⇒ not overwritten (key %s)" % k[:60],
                        "an existing pool is overwritten: with pools.get(key) present the insertion under that key is still reachable", where)
            if k.startswith("PoolKey::new(Denom::") and "elem(" not in k and "phi(" not in k:
                r.violation("insert/unexpected:" + k, "create_builtins inserts a pool under %s" % k, where)
            else:
                # the key is not a literal pair of denominations (an element of a table, a parameter of a helper): which pools are created is not read
                unreadable.append(k)
                r.undecided("insert/unreadable-key", "create_builtins inserts a pool under %s: the key is not a literal PoolKey::new(a, b), which built-ins are created is not decided" % k[:80], where)
            continue
        seen.add(k)
        short = k.replace("PoolKey::new(Denom::", "").replace("{}, Denom::", "/").replace("{})", "")
        r.check(sig(q.novers(e[2][0])) == "state.pools", "insert/%s/map" % short, "into state.pools", "into %s" % sig(e[2][0]), where)
        # absent ⇒ inserted on every path; present ⇒ not overwritten
        # every spelling of the presence test of pools.get(k): is_none()/is_some(), match / if let / matches!
        tbl_abs, tbl_pre = q.presence_tests(b, lambda sx: sx.endswith("%s)" % k) or alt.get(sx.split("state.pools, ")[-1][:-1], "") == k)
        if not tbl_abs:
            r.violation("insert/%s/untested" % short, "the pool's presence is not tested before inserting (an existing pool would be reset)", where)
            continue
        if want[k]:
            r.check(len(t902) >= 1, "insert/%s/gated" % short, "gated by tip_902()", "ERG/SYM creation is not gated by tip_902()", where)
            for x in t902:
                tbl_abs[x] = 1
            f_off = force(b, {x: 0 for x in t902})
            r.check(bi not in f_off.reach, "insert/%s/off-before-902" % short, "not created before TIP-902", "created before TIP-902", where)
        f = force(b, tbl_abs)
        wo = f.reach_from(0, avoid=[bi])
        r.check(not any(x in wo for x in retb), "insert/%s/absent=>created" % short, "absent ⇒ created on every path", "with the pool absent a path skips its creation", where)
        f2 = force(b, tbl_pre)
        r.check(bi not in f2.reach, "insert/%s/present=>kept" % short, "present ⇒ not overwritten", "an existing pool is overwritten", where)
        # "exists with non-zero reserves" needs liquidity nobody can withdraw.  A pool created by create_builtins has it (the initial deposit's tokens
        # are discarded).  The always-created pools cannot be pre-empted: they are inserted in the chain's first seal, before any request is processed (R1).
        # A pool that becomes a built-in only when a TIP activates can have been created by users before: then the present-branch leaves it wholly
        # user-owned, and its creator can withdraw it down to nothing.
        if want[k]:
            tp = dict(tbl_pre)
            for x in t902:
                tp[x] = 1
            f3 = force(b, tp)
            tops = [cb for cb, x in q.call_exprs(b, "PoolState::deposit") if cb in f3.reach_from(0) and not b.dominates(cb, 0) and any(cb in f3.reach_from(g) for g, _ in q.call_exprs(b, "SmtMapping::get"))
                    and sig(q.novers(x[2][0])) != sig(q.novers(e[2][2]))]
            # a clause of C16 itself ("exists with non-zero reserves"); importers (C09) use this rule for the pools that cannot be pre-empted and
            # decide the uses of this pool's reserves separately (C09 priced-pool), so for them it is information only
            (r.check if ctx.pid == "C16" or tops else (lambda c_, k_, a_, b_=None, w_=None: r.info(k_, b_ or a_, w_)))(bool(tops), "insert/%s/preemptible" % short, "an already existing pool is topped up with unowned liquidity when it becomes a built-in",
                    "%s becomes a built-in only under a TIP flag; when users created it earlier, create_builtins keeps it as it is — wholly user-owned — so it can be "
                    "withdrawn down to zero reserves afterwards" % short, where)
        # value went through deposit(c, c)
        v = e[2][2]
        deps = [(cb, x) for cb, x in q.call_exprs(b, "PoolState::deposit") if b.dominates(cb, bi) and q.novers(x[2][0]) == q.novers(v)]
        ok = False
        for cb, x in deps:
            c1, c2 = q.lin(x[2][1]), q.lin(x[2][2])
            ok = c1.is_const() and c2.is_const() and c1.const > 0 and c2.const > 0
            r.check(ok, "insert/%s/reserves" % short, "initial reserves (%s, %s)" % (c1.const, c2.const), "initial reserves are (%r, %r)" % (c1, c2), b.where(cb))
        if not deps:
            r.violation("insert/%s/empty" % short, "the inserted PoolState %s has not been through deposit(..): an empty pool" % sig(v), where)
        d = q.var_def_exprs(b, v[1]) if v[0] == "var" else []
        r.check(len(d) == 1 and sig(d[0][1]) == "PoolState::new_empty()", "insert/%s/fresh" % short, "starts from new_empty()", "starts from %s" % [sig(x[1]) for x in d], where)
    for k in want:
        if k not in seen:
            if unreadable:
                r.undecided("missing:" + k, "no insertion under the literal key %s, but %d insertion(s) under keys that are not literals" % (k, len(unreadable)))
            else:
                r.violation("missing:" + k, "create_builtins never creates %s" % k)


def r3_no_deletion(ctx):
    r = ctx.rule("R3", "no delete/clear on a pool mapping; every value inserted into a pool mapping has passed through deposit / swap_many / withdraw")
    prog = ctx.prog
    n_del = 0
    for b, bi, t in prog.call_sites(lambda n, p: n in ("melstf::smtmapping::SmtMapping::delete", "melstf::smtmapping::SmtMapping::clear")):
        e = b.rec_call(t, bi)
        g = (t["fn"] or {}).get("gargs", [])
        is_pool = "pools" in sig(e[2][0]) or any("PoolKey" in x for x in g)
        if is_pool:
            n_del += 1
            r.violation("delete@" + b.nname.split("::")[-1], "%s removes pool entries: %s" % (b.nname, sig(e)[:120]), b.where(bi))
    if n_del == 0:
        r.ok("no-delete", "no delete/clear call on a pool mapping in the workspace")
    n = 0
    for b, bi, t in prog.call_sites(lambda n_, p: n_ == "melstf::smtmapping::SmtMapping::insert"):
        g = (t["fn"] or {}).get("gargs", [])
        e = b.rec_call(t, bi)
        if not (".pools" in sig(e[2][0]) or any("PoolKey" in x for x in g)):
            continue
        n += 1
        v = e[2][2]
        key = "%s/%s" % (b.nname.replace(MM, "").split("::")[-1], sig(e[2][1])[:50])
        if v[0] != "var":
            r.check("new_empty" not in sig(v), "value@" + key, "value %s" % sig(v)[:60], "inserts %s" % sig(v)[:100], b.where(bi))
            continue
        touched = [cb for cb, x in q.all_call_exprs(b) if q.is_call(x, "PoolState::deposit", "PoolState::swap_many", "PoolState::withdraw") and q.novers(x[2][0]) == q.novers(v) and b.dominates(cb, bi)]
        defs = q.var_def_exprs(b, v[1])
        from_store = all(("SmtMapping::get(" in sig(d[1])) for d in defs) and bool(defs)
        r.check(bool(touched) or from_store, "value@" + key, "the stored PoolState was read from the mapping or updated by a PoolState operation",
                "a PoolState that was neither read from the mapping nor deposited into is stored (%s)" % [sig(d[1])[:60] for d in defs], b.where(bi))
    r.floor("pool insert sites", n, 8)


def r4_issuance(ctx):
    c15.r3_deposits(ctx)
    c15.r3_withdrawals(ctx)
    ctx.rules["R3d"].template = "R4 (issuance) " + ctx.rules["R3d"].template
    ctx.rules["R3w"].template = "R4 (burn) " + ctx.rules["R3w"].template


def r6_issued_is_recorded(ctx):
    """'the tokens held in coins never exceed the liquidity the pool records': what a deposit hands out must be what the pool's record GREW by.  The code hands out
    the return value of PoolState::deposit; melstructs 0.3.3 adds that value to `liqs` with a saturating add and returns it unclamped, so once `liqs` saturates the
    depositor receives more than was recorded (D31: custom tokens are free to create in any amount, so 2^120-sized deposits need no faucet).  Necessary: the amount
    distributed is read off the pool's record (liqs after − liqs before), or the saturation case is refused."""
    r = ctx.rule("R6", "the liquidity distributed by a deposit is the growth of the pool's recorded liquidity (liqs after − liqs before), not an unclamped return value", positional=False)
    b = ctx.prog.body("melstf::state::melmint::process_deposits_for_single_pool")
    if b is None:
        r.undecided("issued/recorded-growth", "process_deposits_for_single_pool not found")
        return
    deps = [(c, bi, e) for c in ctx.prog.all_nested(b) for bi, e in q.call_exprs(c, "PoolState::deposit")]
    if not deps:
        r.undecided("issued/recorded-growth", "no PoolState::deposit call")
        return
    reads_liqs = any(".liqs" in sig(e_) for c in ctx.prog.all_nested(b) for bi_, e_ in q.all_call_exprs(c)) or any(q.field_reads(c, "melstructs::PoolState", "liqs") for c in ctx.prog.all_nested(b))
    sat_guard = [cn for c in ctx.prog.all_nested(b) for e_, cn, b_ in q.cmp_atoms(c) if "MAX" in cn and ("liqs" in cn or "deposit(" in cn)]
    if reads_liqs or sat_guard:
        r.undecided("issued/recorded-growth", "the worker reads the pool's liqs / compares with MAX: whether the distributed amount is the recorded growth is not decided")
    else:
        r.violation("issued/recorded-growth", "the deposit worker distributes the return value of PoolState::deposit and never looks at the pool's recorded liquidity: deposit adds that value to `liqs` with a "
                    "saturating add (melstructs 0.3.3) and returns it unclamped, so two deposits of 2^120 units of a (freely created) custom token leave liqs at 2^128−1 while the coins hold 2^120 + 2^128−1 tokens",
                    deps[0][0].where(deps[0][1]))


def r5_tokens_only_from_deposits(ctx):
    r = ctx.rule("R5", "coins in a pool's liquidity-token denomination come into being only through a settled deposit: every other transaction is balanced per denomination, "
                       "and a transaction kind that is exempt from balancing must not be able to name a Custom denomination in its outputs", positional=False)
    prog = ctx.prog
    bal = ctx.body("melstf::state::applytx::check_tx_coins_balanced", r)
    # kinds exempt from the balance check wholesale: `if tx_kind != K { .. every comparison .. }`
    exempt = []
    for e, c, bi in q.pick_atoms(bal, lambda c: c.startswith("Eq(") and "TxKind::" in c):
        if not (c.startswith("Eq(") and "TxKind::" in c):
            continue
        kind = c.split("TxKind::")[1].split("{")[0]
        f = force(bal, {e: 1})
        others = [a for a in q.cmp_atoms(bal) if a[0] != (e[1] if e[0] == "not" else e) and "TxKind::" not in a[1]]
        if others and not any(a[2] in f.reach_from(bi) - {bi} for a in others):
            exempt.append(kind)
    r.check(True, "exempt-kinds", "kinds exempt from balancing: %s" % sorted(set(exempt)))
    scope = [prog.body("melstf::state::applytx::" + n) for n in ("handle_faucet_tx", "check_tx_validity", "load_relevant_coins", "create_next_state", "apply_tx_batch_impl")]
    scope = [x for b0 in scope if b0 is not None for x in prog.all_nested(b0)]
    for kind in sorted(set(exempt)):
        # is there, anywhere in the validation path, a test of an output's denomination?  (a restriction on what an exempt transaction may create)
        tests = []
        for b0 in scope:
            for e, c, bi in q.cmp_atoms(b0):
                if ".outputs" in c and ".denom" in c:
                    tests.append((b0.nname.split("::")[-1], c[:80]))
        r.check(bool(tests), "exempt/%s/any-denomination" % kind, "outputs of %s transactions are restricted in denomination: %s" % (kind, tests[:2]),
                "%s transactions are exempt from the balance check and nothing on the validation path looks at the denomination of their outputs: wherever they are admitted they can "
                "create coins of any denomination, a pool's liquidity token included — tokens that no deposit backs" % kind, "%s:%s" % (bal.file, bal.line))


def shared(ctx):
    """'liquidity tokens stay fully backed': every request counted in a batch total is settled (C15.R5: the burnt token coin is rewritten on every path; only selected
    requests touch coins), requests name their pool canonically (C15.R2) and only genuine requests are selected (C15.R1)."""
    from rules.engine import core
    from rules.props import c01
    # 'built-in pools keep non-zero reserves': the protocol's own trades against them (TIP-909 subsidies, the peg nudge) go through PoolState::swap_many, whose
    # payout is priced AFTER the incoming amount is credited and therefore never reaches the other reserve (C01.R8 reads the subsidy and peg stages)
    core.import_rules(ctx, [c01.r8_subsidy_peg], "X01")
    core.import_rules(ctx, [c01.r6_floor], "X01")          # shares rounded DOWN: rounded to nearest, the liquidity tokens handed out for one block can exceed what the pool records
    from rules.props import c06
    core.import_rules(ctx, [c06.r5_activation_table], "X06")          # "once enabled the ERG/SYM pool exists": enabled = TIP-902, in create_builtins and in the pegging step alike
    core.import_rules(ctx, [c15.r1_selection_atoms, c15.r2_canonical_keys, c15.r5_only_selected, c15.r6_stage_order], "X15")   # R6: each pool is processed once per block (keys sorted, then deduplicated): a pool processed twice burns the same tokens twice against its recorded liquidity


RULES = [r1_builtins_first, r2_create_builtins, r3_no_deletion, r4_issuance, r5_tokens_only_from_deposits, r6_issued_is_recorded, shared]
