"""C19 — faucets: never on mainnet, and at most once anywhere."""
from rules.engine import mir, q
from rules.engine.mir import show
from rules.engine.q import sig, force
from rules.engine.sccp import V

EXPLANATION = (
    "R1 in create_next_state a Faucet transaction passes handle_faucet_tx(..)? before any effect of its iteration (coin insert/remove, fee accounting, "
    "transaction-set insert), and a failing handle_faucet_tx cannot continue the loop. R2 in handle_faucet_tx: network == Mainnet ∧ hash ≠ the one grandfathered "
    "constant forces Err; the exception is an equality with that single constant. R3 dedup: marker present forces Err(DuplicateTx); on the normal path Ok is reached "
    "only through inserting the marker under the same key that was looked up; the marker is an unspendable zero-value coin. R4 marker permanence: "
    "faucet_dedup_pseudocoin is used only by handle_faucet_tx and no remove_coin is keyed by it."
    " The gate atoms are read from `==`/`!=` comparisons and from `matches!`/`match` on the enum (variant atoms)."
    " R3 `grandfathered/replayable`: with the grandfathered hash forced, Ok is reachable without a marker being inserted (recorded finding D24)."
    ' R3 `lookup/every-path`: no faucet reaches Ok around the marker lookup. R4b: a marker cannot be spent — check_tx_validity reaches Ok only through its loop over the inputs, for every kind of transaction.'
)
NOT_DECIDED = ["replay after restart relies on C08 (the marker lives in the persisted coin tree)",
               "that no transaction input can equal the marker's CoinID and pass its covenant (covenant hash zero has no preimage: hash assumption)"]
ASSUMPTIONS = ["a covenant hashing to the all-zero address cannot be produced"]

HF = "melstf::state::applytx::handle_faucet_tx"
KEY = "applytx::faucet_dedup_pseudocoin(Transaction::hash_nosigs($2))"


def _atoms(body):
    out = {"faucet": [], "mainnet": [], "bug": [], "present": []}
    for bi, e in q.all_call_exprs(body):
        s = sig(e)
        forms = q.atom_forms(e)
        if forms:
            hit = False
            for x, c in forms:          # the test as spelled, and its negation (`net != Mainnet` is the atom `net == Mainnet`, negated)
                if c in ("Eq($2.kind, TxKind::Faucet{})", "Eq(TxKind::Faucet{}, $2.kind)"):
                    out["faucet"].append((bi, x))
                elif c in ("Eq($1.network, NetID::Mainnet{})", "Eq(NetID::Mainnet{}, $1.network)"):
                    out["mainnet"].append((bi, x))
                elif "INFLATION_BUG_TX_HASH" in c and c.startswith("Eq("):
                    out["bug"].append((bi, x))
                else:
                    continue
                hit = True
                break
            if not hit and "network" in forms[0][1]:
                out.setdefault("othernet", []).append((bi, e))
        if s == "Option::is_some(CoinMapping::get_coin($1.coins, %s))" % KEY:
            out["present"].append((bi, e))
    # `matches!(state.network, NetID::Mainnet)` / `match tx.kind { TxKind::Faucet => .. }`: variant atoms (a switch on the enum's discriminant)
    for e, c, bi in q.variant_atoms(body):
        if c in ("Eq($2.kind, TxKind::Faucet{})", "Eq(TxKind::Faucet{}, $2.kind)"):
            out["faucet"].append((bi, e))
        elif c in ("Eq($1.network, NetID::Mainnet{})", "Eq(NetID::Mainnet{}, $1.network)"):
            out["mainnet"].append((bi, e))
        elif "network" in c:
            out.setdefault("othernet", []).append((bi, e))
    # `if let Some(_) = get_coin(marker)` / `match get_coin(marker)`: a switch on the lookup's discriminant (1 = present)
    if not out["present"]:
        for bi, t in body.iter_terms("switch"):
            d = body.rec_operand(t["discr"], bi, "T")
            if d[0] == "discr" and sig(d[1]) == "CoinMapping::get_coin($1.coins, %s)" % KEY:
                out["present"].append((bi, d))
    return out


def r1_faucet_first(ctx):
    r = ctx.rule("R1", "create_next_state: for a Faucet tx, handle_faucet_tx(state, tx)? precedes every effect of the iteration; its failure leaves the loop")
    body = ctx.body("melstf::state::applytx::create_next_state", r)
    loops = q.loop_with_source(body, lambda s: s[0] == "param")
    r.anchor(loops, "loop over the batch")
    h, blocks, latches, src = loops[0]
    EL = "elem($2)"
    hf = [(bi, e) for bi, e in q.call_exprs(body, "handle_faucet_tx") if bi in blocks]
    r.check(len(hf) >= 1, "call", "handle_faucet_tx is called in the loop", "create_next_state never calls handle_faucet_tx: faucets are neither restricted nor deduplicated")
    if not hf:
        return
    for bi, e in hf:
        got = [sig(q.novers(a)) for a in e[2]]
        r.check(got == ["next_state", EL], "args", "handle_faucet_tx(next_state, tx)", "handle_faucet_tx(%s)" % ", ".join(got), body.where(bi))
    kinds = [e for e, c, bi in q.cmp_atoms(body) if c in ("Eq(%s.kind, TxKind::Faucet{})" % EL, "Eq(TxKind::Faucet{}, %s.kind)" % EL)]
    effects = [bi for bi, e in q.all_call_exprs(body) if bi in blocks and (q.is_call(e, "CoinMapping::insert_coin", "CoinMapping::remove_coin", "TransactionSet::insert"))]
    effects += [w[1] for f_ in ("tips", "fee_pool") for w in q.stmt_writes(body, f_)]
    f = force(body, {k: 1 for k in kinds})
    entry = q.loop_entry(body, h, blocks)
    early = f.reach_from(entry, avoid=[bi for bi, e in hf])
    bad = sorted(set(x for x in effects + latches if x in early))
    r.check(not bad, "first", "no effect/latch is reachable for a Faucet tx without passing handle_faucet_tx", "for a Faucet tx bb%s is reachable without handle_faucet_tx" % bad, body.where(hf[0][0]))
    for bi, e in hf:
        f2 = force(body, {e: V(1)})
        after = f2.reach_from(bi)
        bad = sorted(set(x for x in effects + latches if x in after))
        r.check(not bad, "error-propagates", "a rejected faucet has no effect and ends the batch", "after handle_faucet_tx fails bb%s is still reachable" % bad, body.where(bi))


def r2_mainnet(ctx):
    r = ctx.rule("R2", "handle_faucet_tx: kind == Faucet ∧ network == Mainnet ∧ hash ≠ INFLATION_BUG_TX_HASH ⇒ Err; the exception is equality of hash_nosigs(tx) with that one constant")
    body = ctx.body(HF, r)
    a = _atoms(body)
    oks = [b for b, e in q.result_blocks(body)["Ok"]]
    r.anchor(oks, "Ok result of handle_faucet_tx")
    r.check(bool(a["faucet"]), "atom/faucet", "kind == Faucet is tested", "handle_faucet_tx does not test the kind")
    r.check(bool(a["mainnet"]), "atom/mainnet", "network == Mainnet is tested", "handle_faucet_tx does not test for mainnet")
    r.check(not a.get("othernet"), "atom/no-other-network", "no other network test", "unexpected network tests: %s" % [sig(e) for bi, e in a.get("othernet", [])])
    for bi, e in a["bug"]:
        s = sig(e)
        ok = "Transaction::hash_nosigs($2)" in s and s.count("INFLATION_BUG_TX_HASH") == 1
        r.check(ok, "exception/atom", "exception = (hash_nosigs(tx) == INFLATION_BUG_TX_HASH)", "exception test is %s" % s, body.where(bi))
    tbl = {e: 1 for bi, e in a["faucet"] + a["mainnet"]}
    tbl.update({e: 0 for bi, e in a["bug"]})
    f = force(body, tbl)
    alive = [b for b in oks if b in f.reach]
    r.check(not alive, "mainnet=>err", "a non-grandfathered faucet on mainnet cannot return Ok", "a non-grandfathered faucet on mainnet can return Ok (bb%s)" % alive)
    ins = [bi for bi, e in q.call_exprs(body, "CoinMapping::insert_coin")]
    r.check(not any(i in f.reach for i in ins), "mainnet=>no-marker", "and writes nothing", "and still writes a coin")
    # the constant itself is a 64-hex-digit hash (one transaction)
    consts = [it for it in ctx.prog.items if it["name"].endswith("INFLATION_BUG_TX_HASH")]
    r.check(len(consts) == 1, "exception/constant", "one grandfathered constant", "%d constants" % len(consts))


def r3_dedup(ctx):
    r = ctx.rule("R3", "marker present ⇒ Err(DuplicateTx); normal path: Ok only after insert_coin(marker) under the looked-up key; marker = zero-value coin with the zero covenant hash")
    body = ctx.body(HF, r)
    a = _atoms(body)
    oks = [b for b, e in q.result_blocks(body)["Ok"]]
    r.check(len(a["present"]) == 1, "lookup", "the marker is looked up under %s" % KEY, "marker lookups: %d (expected one under %s)" % (len(a["present"]), KEY))
    if not a["present"]:
        return
    base = {e: 1 for bi, e in a["faucet"]}
    tbl = dict(base)
    tbl.update({e: 1 for bi, e in a["present"]})
    f = force(body, tbl)
    after = f.reach_from(a["present"][0][0])
    r.check(not any(b in after for b in oks), "present=>err", "a present marker cannot lead to Ok", "with the marker present Ok is still reachable", body.where(a["present"][0][0]))
    # "at most once" needs the marker to be looked at for EVERY faucet: a faucet path to Ok that goes around the lookup (a fast path that
    # decides "no marker can exist" from something else — a count, a flag, a cache) accepts whatever that shortcut gets wrong.
    f0 = force(body, base)
    around = f0.reach_from(0, avoid=[a["present"][0][0]])
    r.check(not any(b in around for b in oks), "lookup/every-path", "every accepted faucet passes the marker lookup",
            "a faucet reaches Ok without the marker lookup being made (a path goes around it)", body.where(a["present"][0][0]))
    ins = q.call_exprs(body, "CoinMapping::insert_coin")
    r.check(len(ins) == 1, "insert/one", "one marker insertion", "%d insertions" % len(ins))
    tbl2 = dict(base)
    tbl2.update({e: 0 for bi, e in a["present"] + a["bug"] + a["mainnet"]})
    f2 = force(body, tbl2)
    wo = f2.reach_from(0, avoid=[bi for bi, e in ins])
    r.check(not any(b in wo for b in oks), "ok=>marked", "an accepted (non-grandfathered) faucet always inserts the marker", "Ok is reachable without inserting the marker")
    # the grandfathered transaction: 'accepted at most once' has no exception.  With "this is the grandfathered hash" forced and the marker absent, is Ok
    # reachable without the marker being inserted?  Then nothing remembers that it was applied: it is accepted again in the same block and in every later one
    # (its outputs are re-created and its fee — backed by no input — is credited to the fee pool each time).
    if a["bug"]:
        tbl3 = dict(base)
        tbl3.update({e: 0 for bi, e in a["present"]})
        tbl3.update({e: 1 for bi, e in a["bug"]})
        f3 = force(body, tbl3)
        wo3 = f3.reach_from(0, avoid=[bi for bi, e in ins])
        if any(b in wo3 for b in oks):
            r.violation("grandfathered/replayable", "the grandfathered faucet transaction is accepted without a marker being inserted, so it is never recognised as a duplicate: "
                        "it can be applied again in the same block and in every later block, on every network", body.where(a["bug"][0][0]))
        else:
            r.ok("grandfathered/replayable", "the grandfathered transaction is marked like any other")
    for bi, e in ins:
        where = body.where(bi)
        r.check(sig(e[2][1]) == KEY, "insert/key", "inserted under the looked-up key", "inserted under %s, looked up under %s" % (sig(e[2][1]), KEY), where)
        r.check(sig(e[2][0]) == "$1.coins", "insert/tree", "into state.coins", "into %s" % sig(e[2][0]), where)
        cdh = e[2][2]
        if cdh[0] == "agg":
            f_ = dict(cdh[3])
            cd = dict(f_["coin_data"][3]) if f_["coin_data"][0] == "agg" else {}
            r.check(sig(cd.get("covhash", ("unknown", ""))) in ("<tmelcrypt::HashVal as std::default::Default>::default()", "[0; 32]"), "marker/covhash", "marker covhash = zero",
                    "marker covhash = %s (spendable?)" % sig(cd.get("covhash", ("unknown", ""))), where)
            r.check(q.const_val(cd.get("value")) == 0, "marker/value", "marker value = 0", "marker value = %s" % sig(cd.get("value", ("unknown", ""))), where)
    fd = ctx.body("melstf::state::applytx::faucet_dedup_pseudocoin", r)
    rr = q.ret_assignments(fd)
    s = sig(rr[0][2]) if rr else "?"
    r.check(s == 'CoinID::new(tmelcrypt::hash_keyed(b"fdp", $1.0), 0)', "key/def", "marker id = CoinID{hash_keyed(\"fdp\", txhash), 0}", "marker id = %s" % s)


def r4_permanence(ctx):
    r = ctx.rule("R4", "faucet_dedup_pseudocoin is called only from handle_faucet_tx; no remove_coin is keyed by it")
    prog = ctx.prog
    fd = ctx.body("melstf::state::applytx::faucet_dedup_pseudocoin", r)
    hf = ctx.body(HF, r)
    callers = prog.callers_of(fd.id)
    r.check(callers == [hf.id], "callers", "only handle_faucet_tx derives marker ids", "marker ids are derived in %s" % callers)
    n = 0
    for b, bi, t in prog.call_sites(lambda n_, p: n_.endswith("CoinMapping::remove_coin")):
        n += 1
        e = b.rec_call(t, bi)
        r.check("faucet_dedup_pseudocoin" not in sig(e), "remove/%s" % b.nname.split("::")[-1], "remove_coin in %s is not keyed by a marker" % b.nname.split("::")[-1],
                "remove_coin in %s removes a faucet marker: %s" % (b.nname, sig(e)), b.where(bi))
    r.floor("remove_coin sites", n, 3)


def shared(ctx):
    from rules.engine import core
    from rules.props import c01
    core.import_rules(ctx, [c01.r2_exemption_table], "X01")
    # "over the whole life of the chain": the marker is an entry of the coin tree, so it lasts exactly as long as nothing but the spend of a coin (remove_coin of an
    # input, which a zero-address marker can never be) clears coin-tree entries — C20.R2: the tree is written only by insert_coin / remove_coin / insert_coin_count
    from rules.props import c20
    core.import_rules(ctx, [c20.r2_confinement], "X20")


def r4b_marker_unspendable(ctx):
    """a marker can never be the input of a transaction because its covenant hash (zero) has no covenant — as long as EVERY transaction, faucets included, has its
    inputs walked by check_tx_validity (the loop in which the covenant of each input is looked up and run).  A path to Ok around that loop lets a transaction name a
    marker as an input; create_next_state then removes it and the faucet it stood for is accepted again.  (The clause is C04.R1 `loop/every-path`; the rest of C04.R1 —
    the covenant-hash cache — does not concern markers and is not imported.)"""
    from rules.props import c04
    r = ctx.rule("R4b", "a marker cannot be spent: check_tx_validity reaches Ok only through its loop over the inputs (where the — non-existent — covenant of a marker would have to approve)")
    b = ctx.body(c04.AP + "check_tx_validity", r)
    loops = [l for l in q.loop_with_source(b, lambda s_: True) if sig(l[3]) == (c04.ENUM_SRC if c04._input_mode(b)[0] == "enumerate" else c04.PLAIN_SRC)]
    if not loops:
        r.undecided("inputs/every-tx-walked", "the loop over the inputs of check_tx_validity was not found")
        return
    h = loops[0][0]
    oks_ = [bb for bb, e in q.result_blocks(b)["Ok"]]
    around = b.reachable(0, removed=[h])
    r.check(not any(o in around for o in oks_), "inputs/every-tx-walked", "Ok is reached only through the loop over the inputs",
            "check_tx_validity can return Ok without walking the inputs (bb%s): a transaction taking that path can list a faucet's marker as an input and have it removed" % [o for o in oks_ if o in around], b.where(h))


RULES = [r1_faucet_first, r2_mainnet, r3_dedup, r4_permanence, r4b_marker_unspendable, shared]
