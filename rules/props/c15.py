"""C15 — Melswap settles only genuine requests, at one fair price, pro rata, on the right sides."""
from rules.engine import mir, q
from rules.engine.mir import show
from rules.engine.q import sigv, force
from rules.engine.q import sig as _sig0


def _N(s_):
    """the state captured by a closure is called `state` in a free function and `self` in a method: the name of the capture is a spelling"""
    return s_.replace("^self.", "^state.").replace("(^self)", "(^state)").replace("(^self,", "(^state,").replace(", ^self)", ", ^state)")


def sig(e, *a, **k):
    return _N(_sig0(e, *a, **k))


def _cmp_atoms(c, *a, **k):
    return [(e, _N(cn), bi) for e, cn, bi in q.cmp_atoms(c, *a, **k)]


def _pick_atoms(c, want):
    return [(e, _N(cn), bi) for e, cn, bi in q.pick_atoms(c, lambda cn: want(_N(cn)))]
from rules.engine.sccp import V, C

EXPLANATION = (
    "R1 selection atoms: in each of the three selection closures the kind test (Swap / LiqDeposit / LiqWithdraw), the pool-key parse, the unspent-output tests, "
    "the output-count test and the denomination tests are each necessary for selecting a transaction (forced constant propagation: atom false ⇒ Some(tx) unreachable). "
    "R2 canonical pool keys: every PoolKey::from_bytes call in melstf lies in a body where 'left.to_bytes() < right.to_bytes()' on its result is necessary for returning the key; "
    "all other parse sites go through that helper. R3/R4 side-denomination pairing and pro-rata provenance in the three single-pool workers: which total goes to which argument "
    "of swap_many/deposit/withdraw, which result component pays which side, which denomination each rewritten coin gets, and each payout = multiply_frac(side total paid, "
    "Ratio(own amount, side total)). R5 only outputs 0/1 of the selected transactions are rewritten; the legacy deposit rule (removing the coin id computed after mutation) is "
    "confined to Mainnet/Testnet below height 978392. R6 stage order builtins → swaps → deposits → withdrawals → pegging; pools processed in sorted, deduplicated order."
    " Imports C01.R6 (pro_rata / multiply_frac is exactly floor(x*mine/total)). R2 accepts the canonical-key requirement as `(l < r).then_some(k)`, as a negated early return, or as an Option::filter predicate. R6 is undecided when a stage no longer exists under its name."
    " R2 also requires that a key with a NewCustom side is refused (D23, repaired). R3 compares the pro-rata denominator on the expressions (the two side totals print alike). R3d reports what the bug-compatible deposit branch does inside its window (recorded finding D29). Shared: C01.R10."
    ' R5b (reads call structure, not parameter positions): a per-pool request list that lives outside the per-pool step (one buffer reused for all pools of a block) is emptied on every path before it is handed to the per-pool worker.'
)
NOT_DECIDED = ["the constant-product inequality, the 0.5% fee and exact reserve movements (PoolState arithmetic, melstructs, trusted base)",
               "multiply_frac's floor (C01.R6 checks the callee is floor)"]
ASSUMPTIONS = ["PoolState::{swap_many, deposit, withdraw} as read in melstructs 0.3.3", "PoolKey::from_bytes does not canonicalise the long form (melstructs 0.3.3)"]
MM = "melstf::state::melmint::"
IDX = "<std::vec::Vec<T, A> as std::ops::Index<I>>::index"
IDXM = "<std::vec::Vec<T, A> as std::ops::IndexMut<I>>::index_mut"
FOLD = "<std::iter::Map<I, F> as std::iter::Iterator>::fold"


def _sel(ctx, r, name):
    b = ctx.body(MM + name, r)
    cl = ctx.prog.closures_of(b)
    r.anchor(cl, "selection closure of " + name)
    c = cl[0]
    ctx.analysed(c)
    somes = [bb for bb, e in q.result_blocks(c)["Some"]]
    # also bool::then_some(cond, tx) as the final result
    finals = [(bi, e) for bi, e in q.call_exprs(c, "then_some") if bi in [x[0] for x in q.ret_assignments(c)] or any(ra[1] == "T" and ra[0] == bi for ra in q.ret_assignments(c))]
    return b, c, somes, finals


def _selected_unreachable(c, somes, finals, table):
    f = force(c, table)
    if any(s in f.reach for s in somes):
        return False
    for bi, e in finals:
        if bi in f.reach:
            # then_some(cond, tx): selected iff cond true
            v = f.arg_val(c.term(bi)["args"][0], bi)
            if v != ("c", 0):
                return False
    return True


def r1_selection_atoms(ctx):
    r = ctx.rule("R1", "selection closures: kind, key parse, unspent outputs, output count and denomination tests are each necessary for selecting a transaction")
    KEY = "try(melmint::pool_key_from_data($2.data))"
    KEY2 = "try(PoolKey::from_bytes($2.data))"
    spec = {
        "get_swap_transactions": dict(kind="Swap", atoms=["Eq($2.kind, TxKind::Swap{})"],
                                      calls=[("nonempty", "Vec::is_empty($2.outputs)", 1), ("unspent0", "CoinMapping::get_coin(^state.coins, Transaction::output_coinid($2, 0))", V(0)),
                                             ("key", "KEYCALL", V(0)), ("pool-exists", "SmtMapping::get(^state.pools, KEY)", V(0))],
                                      any_of=[["Eq(%s($2.outputs, 0).denom, PoolKey::left(KEY))" % IDX, "Eq(%s($2.outputs, 0).denom, PoolKey::right(KEY))" % IDX]]),
        "get_deposit_transactions": dict(kind="LiqDeposit", atoms=["Eq($2.kind, TxKind::LiqDeposit{})", "Le(2, Vec::len($2.outputs))",
                                                                    "Eq(%s($2.outputs, 0).denom, PoolKey::left(KEY))" % IDX, "Eq(%s($2.outputs, 1).denom, PoolKey::right(KEY))" % IDX],
                                         calls=[("unspent0", "CoinMapping::get_coin(^state.coins, Transaction::output_coinid($2, 0))", V(0)),
                                                ("unspent1", "CoinMapping::get_coin(^state.coins, Transaction::output_coinid($2, 1))", V(0)), ("key", "KEYCALL", V(0))], any_of=[]),
        "get_withdrawal_transactions": dict(kind="LiqWithdraw", atoms=["Eq($2.kind, TxKind::LiqWithdraw{})", "Eq(1, Vec::len($2.outputs))",
                                                                       "Eq(%s($2.outputs, 0).denom, PoolKey::liq_token_denom(KEY))" % IDX],
                                            calls=[("unspent0", "CoinMapping::get_coin(^state.coins, Transaction::output_coinid($2, 0))", V(0)),
                                                   ("key", "KEYCALL", V(0)), ("pool-exists", "SmtMapping::get(^state.pools, KEY)", V(0))], any_of=[]),
    }
    for name, sp in spec.items():
        b, c, somes, finals = _sel(ctx, r, name)
        where = "%s:%s" % (c.file, c.line)
        r.check(bool(somes) or bool(finals), name + "/result", "the closure can select", "no Some(tx) result found in %s" % name, where)
        atoms = {}
        for e0, cn0, bi in _cmp_atoms(c):
            for e, cn in [(x_, _N(c_)) for x_, c_ in q.atom_forms(e0)]:          # as spelled and negated: `if kind != Swap { return None }` is the atom kind == Swap
                atoms.setdefault(cn.replace(KEY, "KEY").replace(KEY2, "KEY"), []).append(e)
        calls = {}
        for bi, e in q.all_call_exprs(c):
            s = sig(e)
            keycall = s in ("melmint::pool_key_from_data($2.data)", "PoolKey::from_bytes($2.data)")
            calls.setdefault("KEYCALL" if keycall else s.replace(KEY, "KEY").replace(KEY2, "KEY"), []).append(e)
        for a in sp["atoms"]:
            a2 = a
            if a2 not in atoms:
                # Eq operands may be sorted the other way
                alt = [k for k in atoms if set(k.replace("Eq(", "").rstrip(")").split(", ")) == set(a2.replace("Eq(", "").rstrip(")").split(", "))]
                a2 = alt[0] if alt else a2
            if a2 not in atoms:
                r.violation("%s/missing:%s" % (name, a), "%s never tests %s: transactions failing it are still selected" % (name, a), where)
                continue
            ok = _selected_unreachable(c, somes, finals, {e: 0 for e in atoms[a2]})
            r.check(ok, "%s/necessary:%s" % (name, a), "%s false ⇒ not selected" % a, "with %s false the transaction is still selected" % a, where)
        for label, cs, val in sp["calls"]:
            if cs not in calls and cs.startswith("Option::is_some(") and val in (0, 1) and "Option::is_none(" + cs[len("Option::is_some("):] in calls:
                # `if x.is_none() { return None }` is the test `x.is_some()` spelled from the other side
                cs, val = "Option::is_none(" + cs[len("Option::is_some("):], 1 - val
            if cs not in calls:
                r.violation("%s/missing:%s" % (name, label), "%s never evaluates %s" % (name, cs), where)
                continue
            ok = _selected_unreachable(c, somes, finals, {e: val for e in calls[cs]})
            r.check(ok, "%s/necessary:%s" % (name, label), "%s failing ⇒ not selected" % label, "with %s failing the transaction is still selected" % label, where)
        for group in sp["any_of"]:
            es = []
            for a in group:
                for k in atoms:
                    if set(k.replace("Eq(", "").rstrip(")").split(", ")) == set(a.replace("Eq(", "").rstrip(")").split(", ")):
                        es += atoms[k]
            if not es:
                r.violation("%s/missing:side-test" % name, "%s never tests the first output's denomination against the pool's sides" % name, where)
                continue
            ok = _selected_unreachable(c, somes, finals, {e: 0 for e in es})
            r.check(ok, "%s/necessary:side-test" % name, "first output on neither side ⇒ not selected", "a first output on neither side of the pool is still selected", where)
        # the selection ranges over the whole transaction set, and what is selected is the transaction itself
        rr = q.ret_assignments(b)
        s = sig(rr[0][2]) if rr else "?"
        r.check(s == "Iterator::collect(Iterator::filter_map(TransactionSet::iter($1.transactions), closure[state=$1]))", name + "/source", "filter_map over all of state.transactions", "%s returns %s" % (name, s))
        for bb, e in q.result_blocks(c)["Some"]:
            pay = sig(dict(e[3])["0"])
            r.check(pay == "$2", name + "/payload", "selects the transaction itself", "selects %s" % pay)


def r2_canonical_keys(ctx):
    r = ctx.rule("R2", "every PoolKey::from_bytes result is returned only when left.to_bytes() < right.to_bytes(); all parse sites in melmint go through that helper")
    prog = ctx.prog
    sites = [(b, bi, t) for (b, bi, t) in prog.call_sites(lambda n, p: n.endswith("melstructs::PoolKey::from_bytes") or n == "melstructs::PoolKey::from_bytes") if b.crate == "melstf"]
    r.floor("from_bytes sites", len(sites), 1)
    helpers = set()
    for b, bi, t in sites:
        e = b.rec_call(t, bi)
        K = ("try", e)
        want = {"Lt(Denom::to_bytes(PoolKey::left(%s)), Denom::to_bytes(PoolKey::right(%s)))" % (sig(K), sig(K))}
        atoms = [a for a, cn, abi in _pick_atoms(b, lambda cn: cn in want) if cn in want]        # `left < right` required, or `left >= right ⇒ None`
        key = b.nname.replace(MM, "").replace("{closure#", "c").replace("}", "")
        where = b.where(bi)
        if not atoms:
            # `from_bytes(data).filter(|k| k.left().to_bytes() < k.right().to_bytes())`: the same requirement as a filter predicate
            flt = [(fb, fe) for fb, fe in q.call_exprs(b, "Option::filter") if len(fe[2]) == 2 and fe[2][0] == e and fe[2][1][0] == "closure"]
            rets = q.ret_assignments(b)
            if flt and len(rets) == 1 and rets[0][2] == flt[0][1]:
                c = prog.body(flt[0][1][2][1][1])
                CW = "Lt(Denom::to_bytes(PoolKey::left($2)), Denom::to_bytes(PoolKey::right($2)))"
                catoms = [a for a, cn, abi in _pick_atoms(c, lambda cn: cn == CW) if cn == CW] if c is not None else []
                if catoms:
                    v, _ = q.ret_value_under(c, {a: 0 for a in catoms})
                    okf = v == C(0)
                    r.check(okf, "canonical@" + key, "non-canonical key ⇒ filtered out (None)", "with left ≥ right the filter predicate can still be true", where)
                    if okf:
                        helpers.add(b.id)
                    continue
            r.violation("noncanonical@" + key, "%s uses PoolKey::from_bytes(..) without requiring left < right: a reversed or equal-sided long-form key is accepted "
                        "(MEL paid into the SYM side …)" % b.nname, where)
            continue
        somes = [bb for bb, x in q.result_blocks(b)["Some"]]
        finals = [(cb, ce) for cb, ce in q.call_exprs(b, "then_some") if any(ra[0] == cb and ra[1] == "T" for ra in q.ret_assignments(b))]
        ok = _selected_unreachable(b, somes, finals, {a: 0 for a in atoms})
        r.check(ok, "canonical@" + key, "non-canonical key ⇒ None", "with left ≥ right the key is still returned", where)
        if ok:
            helpers.add(b.id)
        # a pool side is a denomination that coins in the state can carry: NewCustom is only the placeholder for "the token this transaction creates" (the
        # coin tree stores Custom(txhash) instead), yet the empty string parses as the canonical key NewCustom/MEL.  A pool under such a key takes every freshly
        # minted token — exempt from balancing — for its left-hand asset and pays real MEL for it (D23).  Canonical keys have the smaller side on the left and
        # NewCustom's byte form is the smallest, so the left side decides.
        ncs = [(a, cn) for a, cn, abi in _pick_atoms(b, lambda cn: "Denom::NewCustom{}" in cn and "PoolKey::left(%s)" % sig(K) in cn and cn.startswith(("Eq(", "Ne(")))
               if "Denom::NewCustom{}" in cn and "PoolKey::left(%s)" % sig(K) in cn and cn.startswith(("Eq(", "Ne("))]
        other_eq = [cn for a, cn, abi in _pick_atoms(b, lambda cn: "PoolKey::left(%s)" % sig(K) in cn and cn.startswith(("Eq(", "Ne(")) and "PoolKey::right(" not in cn)
                    if "PoolKey::left(%s)" % sig(K) in cn and cn.startswith(("Eq(", "Ne(")) and "PoolKey::right(" not in cn]
        if not ncs and other_eq:
            r.undecided("newcustom-side@" + key, "the left side is compared with %s: whether that is NewCustom is not read" % other_eq[0][:100], where)
        elif not ncs:
            r.violation("newcustom-side@" + key, "%s returns a pool key without testing its sides against NewCustom: the empty string names the pool NewCustom/MEL, whose left side is credited with any "
                        "freshly created token (free to mint) and pays out real coins" % b.nname, where)
        else:
            a, cn = ncs[0]
            is_nc = 1 if cn.startswith("Eq(") else 0
            okn = _selected_unreachable(b, somes, finals, {a: is_nc})
            r.check(okn, "newcustom-side@" + key, "a key with a NewCustom side ⇒ None", "with left == NewCustom the key is still returned", where)
    # parse sites: callers of the helper(s)
    n = 0
    for hid in helpers:
        hb = prog.by_id[hid]
        for cid in prog.callers_of(hid):
            cb = prog.by_id[cid]
            for bi, t in cb.calls():
                if mir.callee_id(t) == hid:
                    n += 1
                    e = cb.rec_call(t, bi)
                    r.check(sig(e[2][0]).endswith(".data"), "parse-site@" + cb.nname.replace(MM, "").replace("{closure#", "c").replace("}", ""),
                            "parses the transaction's data", "parses %s" % sig(e[2][0]), cb.where(bi))
    if helpers:
        r.floor("parse sites through the helper", n, 5)


def _worker(ctx, r, name):
    b = ctx.body(MM + name, r)
    cls = ctx.prog.closures_of(b)
    for c in cls:
        ctx.analysed(c)
    return b, cls


def _resolve(parent, c, e):
    caps = q.closure_captures(parent, c.nname)
    return q.subst(e, {}, caps)


def r3_swaps(ctx):
    r = ctx.rule("R3", "process_swaps_for_single_pool: left requests → swap_many arg 1, paid from result.1 in pool.right(); right requests symmetric; pro rata by own/total; pool written back")
    b, cls = _worker(ctx, r, "process_swaps_for_single_pool")
    # totals: by role — what is handed to swap_many as (lefts, rights) — not by the name of a local
    sm0 = q.call_exprs(b, "PoolState::swap_many")
    r.anchor(sm0, "call of PoolState::swap_many in process_swaps_for_single_pool")
    tl = [(sm0[0][0], mir.strip(sm0[0][1][2][1]))]
    tr = [(sm0[0][0], mir.strip(sm0[0][1][2][2]))]

    def side_total(defs, side):
        e = defs[0][1]
        if not (q.is_call(e, "fold") and q.is_call(e[2][0], "Iterator::map") and sig(e[2][0][2][0]) == "$3" and q.const_val(e[2][1]) == 0 and e[2][0][2][1][0] == "closure" and e[2][2][0] == "closure"):
            return "shape:" + sig(e)[:120]
        mc = ctx.prog.body(e[2][0][2][1][1])
        fc = ctx.prog.body(e[2][2][1])
        atoms = _cmp_atoms(mc)
        # the side test, with captured variables replaced by what the closure captured where it was built (directly `pool`, or a `denom`
        # parameter of a helper that was called with pool.left() / pool.right())
        caps = dict(e[2][0][2][1][2]) if len(e[2][0][2][1]) > 2 else {}
        caps.update({k.replace("_ref__", ""): v for k, v in list(caps.items())})

        def resolved(a):
            cm = q.as_cmp(a[0])
            return q.canon_cmp(cm[0], q.subst_simplify(q.novers(cm[1]), {}, caps), q.subst_simplify(q.novers(cm[2]), {}, caps)) if cm else a[1]
        want = "Eq(%s($2.outputs, 0).denom, PoolKey::%s($1))" % (IDX, side)
        if [resolved(a) for a in atoms] != [want]:
            return "term-condition:%s" % [resolved(a) for a in atoms]
        f = force(mc, {atoms[0][0]: 1})
        vals = {sig(x[2]) for x in q.ret_assignments(mc) if x[0] in f.reach}
        if vals != {"%s($2.outputs, 0).value" % IDX}:
            return "term-value:%s" % vals
        f = force(mc, {atoms[0][0]: 0})
        vals = {q.const_val(x[2]) for x in q.ret_assignments(mc) if x[0] in f.reach}
        if vals != {0}:
            if None in vals:
                return "shape:the term's value for the other side is not a constant (%s)" % [sig(x[2])[:60] for x in q.ret_assignments(mc) if x[0] in f.reach]
            return "term-else:%s" % vals
        fr = q.ret_assignments(fc)
        if not fr or q.arith_nf(fr[0][2]) != q.B("Add", ("param", 2, "a"), ("param", 3, "b")):
            return "fold-op:%s" % (sig(fr[0][2]) if fr else "?")
        return None
    for nm, defs, side in (("total_lefts", tl, "left"), ("total_rights", tr, "right")):
        bad = side_total(defs, side)
        if bad is not None and bad.startswith("shape:"):
            r.undecided("totals/" + side, "the %s-side total handed to swap_many is not a map/fold over the batch (%s): its composition is not decided" % (side, bad[6:]))
            continue
        r.check(bad is None, "totals/" + side, "%s = Σ value of requests whose denom is pool.%s()" % (nm, side), "%s is not the sum of the %s-side requests (%s)" % (nm, side, bad))
    sm = q.call_exprs(b, "PoolState::swap_many")
    r.check(len(sm) == 1, "swap_many/one", "one swap_many", "%d swap_many calls" % len(sm))
    for bi, e in sm:
        # (order of the two arguments: decided by totals/left and totals/right above — argument 1 must be the left-side sum, argument 2 the right-side sum)
        r.check(sig(q.novers(e[2][0])) == "pool_state" and q.var_sig(b, "pool_state") == "Option::unwrap(SmtMapping::get($2.pools, $1))", "swap_many/pool", "on the named pool's state", "on %s" % sig(e[2][0]), b.where(bi))
    ins = q.call_exprs(b, "SmtMapping::insert")
    r.check(len(ins) == 1 and sig(q.novers(ins[0][1])) == "SmtMapping::insert($2.pools, $1, pool_state)" and all(b.dominates(s[0], ins[0][0]) for s in sm), "pool-written-back",
            "pools.insert(pool, pool_state) after swap_many", "the pool state is not written back after swap_many (%s)" % [sig(i[1]) for i in ins])
    # the rewriting closure
    fe = [c for c in cls if q.calls_to(c, "CoinMapping::insert_coin")]
    if not fe and q.calls_to(b, "CoinMapping::insert_coin"):
        # the per-request step is written as a `for` loop in the worker itself instead of a closure handed to for_each: same operations, a shape
        # this rule does not read — no verdict on the per-request clauses (the batch-level clauses above were decided)
        r.undecided("rewrite/closure", "the per-request rewriting step is a loop in the worker, not a closure: per-request clauses not decided", "%s:%s" % (b.file, b.line))
        return
    r.check(len(fe) == 1, "rewrite/closure", "one rewriting closure", "%d rewriting closures" % len(fe))
    if not fe:
        return
    c = fe[0]
    caps = q.closure_captures(b, c.nname)
    SW = sig(q.novers(sm[0][1])) if sm else "?"
    side_atoms = [a for a in _cmp_atoms(c) if a[1] == "Eq(%s($2.outputs, 0).denom, PoolKey::left(^pool))" % IDX]
    r.check(len(side_atoms) == 1, "rewrite/side-test", "branches on denom == pool.left()", "side tests: %s" % [a[1] for a in _cmp_atoms(c)])
    if not side_atoms:
        return
    for is_left in (1, 0):
        f = force(c, {side_atoms[0][0]: is_left})
        ws = [w for w in q.writes_in(c) if w[0] in f.reach]
        den = [sig(w[3]) for w in ws if sig(w[2]).endswith(".denom")]
        vals = [w[3] for w in ws if sig(w[2]).endswith(".value")]
        lab = "left-request" if is_left else "right-request"
        want_den = "PoolKey::right(^pool)" if is_left else "PoolKey::left(^pool)"
        r.check(den == [want_den], "rewrite/%s/denom" % lab, "a %s is paid in %s" % (lab, want_den), "a %s gets denomination %s" % (lab, den))
        comp, tot = ("1", "total_lefts") if is_left else ("0", "total_rights")
        ok = False
        if len(vals) == 1:
            v = q.subst(vals[0], {}, caps)
            want = "Ord::min(melmint::multiply_frac(%s.%s, Ratio::new(%s($2.outputs, 0).value.0, %s)), MAX_COINVAL)" % (
                SW, comp, IDX, sig(q.novers((tl if is_left else tr)[0][1])))
            got = sig(q.novers(v))
            want2 = "Ord::min(melmint::pro_rata(%s.%s, %s($2.outputs, 0).value.0, %s), MAX_COINVAL)" % (
                SW, comp, IDX, sig(q.novers((tl if is_left else tr)[0][1])))
            ok = got in (want, want2) or got in (want.replace("Ord::min(", "").replace(", MAX_COINVAL)", ""), want2.replace("Ord::min(", "").replace(", MAX_COINVAL)", ""))
            # `sig` prints every closure as `closure[captures]`: the two side totals (folds over the same batch with different term closures) look alike in it.
            # Which total divides is decided on the expressions themselves.
            mine_total, other_total = (tl, tr) if is_left else (tr, tl)
            if ok and q.novers(mine_total[0][1]) != q.novers(other_total[0][1]):
                dens = []
                q.contains(q.novers(v), lambda y: (dens.append(y[2][2]) if q.is_call(y, "melmint::pro_rata") and len(y[2]) == 3 else
                                                   dens.append(y[2][1]) if q.is_call(y, "Ratio::new", "new") and len(y[2]) == 2 else None) and False)
                if dens and all(q.novers(mir.strip(d)) == q.novers(other_total[0][1]) for d in dens):
                    ok = False
        r.check(bool(ok), "rewrite/%s/value" % lab, "payout = multiply_frac(swap_many.%s, own/%s)" % (comp, tot),
                "payout of a %s is %s" % (lab, sig(q.novers(q.subst(vals[0], {}, caps)))[:260] if vals else "missing"))
    for bi, e in q.call_exprs(c, "CoinMapping::insert_coin"):
        got = sig(e)
        want = "CoinMapping::insert_coin(^state.coins, Transaction::output_coinid($2, 0), CoinDataHeight::CoinDataHeight{coin_data: %s($2.outputs, 0), height: ^state.height}" % IDX
        r.check(got.startswith(want) and "@" not in sigv(e[2][1]), "rewrite/coin", "rewrites output 0 of the request (id computed before mutation) at the state's height", "insert_coin: %s" % got[:200], c.where(bi))


def r3_deposits(ctx):
    r = ctx.rule("R3d", "process_deposits_for_single_pool: outputs[0]/[1] ↔ deposit(lefts, rights); liquidity coin = multiply_frac(total_liqs, own √(l·r)/total); output 1 removed")
    b, cls = _worker(ctx, r, "process_deposits_for_single_pool")
    tl, tr = q.var_def_exprs(b, "total_lefts"), q.var_def_exprs(b, "total_rights")
    r.anchor(tl and tr, "totals")
    for nm, defs, idx in (("total_lefts", tl, 0), ("total_rights", tr, 1)):
        e = defs[0][1]
        term = q.sum_over(ctx.prog, b, e)
        r.check(term in ("%s(@.outputs, %d).value.0" % (IDX, idx), "%s(@.outputs, %d).value" % (IDX, idx)), "totals/%d" % idx, "%s = Σ outputs[%d].value" % (nm, idx), "%s is %s (summand %s)" % (nm, sig(e)[:150], term))
    deps = q.call_exprs(b, "PoolState::deposit")
    r.check(len(deps) >= 1, "deposit/call", "PoolState::deposit is called", "no deposit call")
    for bi, e in deps:
        ok = q.novers(e[2][1]) == q.novers(tl[0][1]) and q.novers(e[2][2]) == q.novers(tr[0][1])
        r.check(ok, "deposit/args@bb%d" % 0, "deposit(total_lefts, total_rights)", "deposit arguments are not (total_lefts, total_rights)", b.where(bi))
    ins = q.call_exprs(b, "SmtMapping::insert")
    r.check(len(ins) == len(deps) and all(sig(q.novers(i[1])).startswith("SmtMapping::insert($2.pools, $1, pool_state") for i in ins), "pool-written-back",
            "every deposited-into pool state is written back under the pool key", "pool writes: %s" % [sig(i[1]) for i in ins])
    fe = [c for c in cls if q.calls_to(c, "CoinMapping::insert_coin")]
    if not fe and q.calls_to(b, "CoinMapping::insert_coin"):
        # the per-request step is written as a `for` loop in the worker itself instead of a closure handed to for_each: same operations, a shape
        # this rule does not read — no verdict on the per-request clauses (the batch-level clauses above were decided)
        r.undecided("rewrite/closure", "the per-request rewriting step is a loop in the worker, not a closure: per-request clauses not decided", "%s:%s" % (b.file, b.line))
        return
    r.check(len(fe) == 1, "rewrite/closure", "one rewriting closure", "%d" % len(fe))
    if not fe:
        return
    c = fe[0]
    caps = q.closure_captures(b, c.nname)
    ws = q.writes_in(c)
    den = [sig(w[3]) for w in ws if sig(w[2]).endswith(".denom")]
    r.check(den == ["PoolKey::liq_token_denom(^pool)"], "rewrite/denom", "the liquidity coin's denomination is pool.liq_token_denom()", "denominations written: %s" % den)
    vals = [w[3] for w in ws if sig(w[2]).endswith(".value")]
    SQ = "<u128 as num::integer::Roots>::sqrt"
    my = "core::num::<impl u128>::saturating_mul(%s(%s($2.outputs, 0).value.0), %s(%s($2.outputs, 1).value.0))" % (SQ, IDX, SQ, IDX)
    if len(vals) == 1:
        got = sig(q.novers(vals[0]))
        # read through the captures: what is handed out, the request's weight and the batch total are identified by their role in the share, not by the
        # names of the variables that carry them into the closure (a struct bundling amount and total reads the same)
        cm = dict(caps)
        cm.update({k.replace("_ref__", ""): v for k, v in list(cm.items())})
        ge = q.unwrap0(q.subst_simplify(q.novers(vals[0]), {}, cm))          # `CoinValue(x)` / `x.into()`: the wrapper of the integer newtype is spelling
        A = W = T = None
        if q.is_call(ge, "melmint::pro_rata") and len(ge[2]) == 3:
            A, W, T = ge[2]
        elif q.is_call(ge, "melmint::multiply_frac") and len(ge[2]) == 2 and q.is_call(ge[2][1], "Ratio::new") and len(ge[2][1][2]) == 2:
            A, (W, T) = ge[2][0], ge[2][1][2]
        ok = A is not None and sig(q.novers(W)) == my
        r.check(ok, "rewrite/value", "liquidity = multiply_frac(total_liqs, own_mtsqrt/total_mtsqrt)", "liquidity value = %s" % got[:300])
        if A is None:
            A, T = caps.get("_ref__total_liqs", ("unknown", "")), caps.get("_ref__total_mtsqrt", ("unknown", ""))
        tqe = mir.strip(A)
        alts = list(tqe[1]) if tqe[0] == "phi" else [tqe]
        tq = sig(q.novers(tqe))
        r.check(all(q.is_call(mir.strip(a), "PoolState::deposit") for a in alts), "rewrite/total_liqs", "total_liqs = result of PoolState::deposit (every branch)", "total_liqs = %s" % tq[:260])
        # "pro rata": the shares Σ floor(total_liqs·wᵢ/W) add up to at most total_liqs only if W = Σ wᵢ — the denominator must be the sum, over the same
        # batch, of the very expression used as the numerator (a denominator computed another way, e.g. √Σl·√Σr, can be smaller than Σ √lᵢ·√rᵢ)
        tme = mir.strip(T)
        term = q.sum_over(ctx.prog, b, tme)
        okd = term is not None and term == my.replace("$2", "@")
        why = "denominator = %s" % sig(q.novers(tme))[:160] if term is None else "denominator sums %s, the numerator is %s" % (term[:120], my[:120])
        # a VIOLATION needs both sides to be read: the denominator as a sum whose term differs from the numerator's expression, or as something that is no sum at
        # all (a product of roots of the side totals — D16).  Weights computed once, kept in a vector and zipped back to the requests (numerator = an element of
        # that vector, denominator = its sum) are the same numbers by construction of the zip, which this rule does not follow: undecided.
        wsig = sig(q.novers(W)) if W is not None else ""
        w_readable = W is not None and "$2" in wsig and "elem(" not in wsig and "unknown" not in wsig
        t_is_sum = tme[0] == "call" and tme[1].split("::")[-1] in ("fold", "sum", "try_fold", "reduce")
        if okd or (term is not None and w_readable) or (term is None and not t_is_sum and tme[0] == "call"):
            r.check(okd, "rewrite/denominator", "the pro-rata denominator is Σ over the batch of the numerator expression √(lᵢ)·√(rᵢ)",
                    "the pro-rata denominator is not the sum of the numerators over the batch (%s): the shares can add up to more than total_liqs, i.e. more liquidity tokens than the pool records" % why)
        else:
            r.undecided("rewrite/denominator", "numerator weight %s / denominator %s: not both read as expressions over the request" % (wsig[:100], sig(q.novers(tme))[:100]))
    else:
        r.violation("rewrite/value", "%d value writes" % len(vals))
    # coins: insert output 0 (id before mutation), remove output 1; legacy rule confined
    for bi, e in q.call_exprs(c, "CoinMapping::insert_coin"):
        got = sigv(e)
        r.check(got.startswith("CoinMapping::insert_coin(^state.coins, Transaction::output_coinid($2, 0), CoinDataHeight::CoinDataHeight{coin_data: %s($2@" % IDX),
                "rewrite/coin0", "the liquidity coin replaces output 0 (id of the original transaction)", "insert_coin: %s" % got[:200], c.where(bi))
    rem = q.call_exprs(c, "CoinMapping::remove_coin")
    # each test in whichever polarity it is spelled (`height < K && net ∈ {..}` or `!(net ∈ {..}) || height >= K` with the branches swapped)
    MN = ("Eq(NetID::Mainnet{}, ^state.network)", "Eq(^state.network, NetID::Mainnet{})")
    TN = ("Eq(NetID::Testnet{}, ^state.network)", "Eq(^state.network, NetID::Testnet{})")
    isH = lambda cn: cn.startswith("Lt(^state.height.0, ")
    legacy = {"h": [a for a in _pick_atoms(c, isH) if isH(a[1])],
              "m": [a for a in _pick_atoms(c, lambda cn: cn in MN) if a[1] in MN],
              "t": [a for a in _pick_atoms(c, lambda cn: cn in TN) if a[1] in TN]}
    r.check([a[1] for a in legacy["h"]] == ["Lt(^state.height.0, 978392)"], "legacy/height", "legacy deposit rule: height < 978392", "legacy height atoms %s" % [a[1] for a in legacy["h"]])
    for label, tbl in (("other-networks", {a[0]: 0 for a in legacy["m"] + legacy["t"]}), ("height>=978392", {a[0]: 0 for a in legacy["h"]})):
        f = force(c, tbl)
        # recovered along the paths this case leaves: `let id = if legacy {..} else {..}; remove_coin(id)` reads as the one alternative that is live
        with c.restricted(f.reach):
            live = [sigv(e2) for bi2, e2 in q.call_exprs(c, "CoinMapping::remove_coin") if bi2 in f.reach]
        r.check(live == ["CoinMapping::remove_coin(^state.coins, Transaction::output_coinid($2, 1), UnsealedState::tip_906(^state))"], "remove/" + label,
                "on %s output 1 of the original transaction is removed" % label, "on %s the coins removed are %s" % (label, live))
    r.check(len(rem) >= 1, "remove/present", "output 1 is removed", "the second deposited coin is never removed (value duplicated)")
    # inside the legacy window the property does not hold, and the code says so itself: there the coin removed is output 1 of the transaction AFTER its first
    # output was rewritten (`$2@k` with k > 0: another transaction hash, a coin id that names nothing), so the deposited right-hand coin stays unspent while the
    # pool is credited with it (D29).  The window is part of the state machine for every Mainnet/Testnet chain below its height, a fresh Testnet included.
    if legacy["h"] and (legacy["m"] or legacy["t"]):
        tblw = {a[0]: 1 for a in legacy["h"]}
        tblw.update({a[0]: 1 for a in legacy["t"]})
        tblw.update({a[0]: 0 for a in legacy["m"]})
        f = force(c, tblw)
        with c.restricted(f.reach):
            livew = [sigv(e2) for bi2, e2 in q.call_exprs(c, "CoinMapping::remove_coin") if bi2 in f.reach]
        good = "CoinMapping::remove_coin(^state.coins, Transaction::output_coinid($2, 1), UnsealedState::tip_906(^state))"
        if livew and good not in livew:
            r.violation("legacy/right-coin-kept", "on Testnet (and Mainnet) below height 978392 a deposit removes %s — the id computed after output 0 was rewritten, which names no coin: "
                        "the right-hand coin is credited to the pool and stays unspent (every deposit there duplicates its right-hand side)" % livew[0][:120])
        elif livew:
            r.ok("legacy/right-coin-kept", "inside the legacy window the right-hand coin is removed as well")


def r3_withdrawals(ctx):
    r = ctx.rule("R3w", "process_withdrawals_for_single_pool: (left,right) = withdraw(Σ liqs); coin 0 → pool.left() share, synthesized coin 1 → pool.right() share, same owner")
    b, cls = _worker(ctx, r, "process_withdrawals_for_single_pool")
    tq = q.var_def_exprs(b, "total_liqs")
    r.anchor(tq, "total_liqs")
    e = tq[0][1]
    if len(tq) > 1:
        # accumulator spelling: `let mut total_liqs = 0; for tx in batch { total_liqs = total_liqs + .. }`
        upd = [d[1] for d in tq if q.const_val(d[1]) is None]
        e = mir.mk_phi([("const", "u128", 0)] + upd[:1]) if upd else e
    term = q.sum_over(ctx.prog, b, e)
    r.check(term in ("%s(@.outputs, 0).value.0" % IDX, "%s(@.outputs, 0).value" % IDX), "total", "total_liqs = Σ outputs[0].value", "total_liqs = %s (summand %s)" % (sig(e)[:150], term))
    wd = q.call_exprs(b, "PoolState::withdraw")
    wt = q.sum_over(ctx.prog, b, wd[0][1][2][1]) if len(wd) == 1 else None
    r.check(len(wd) == 1 and (q.novers(wd[0][1][2][1]) == q.novers(e) or (wt is not None and wt == term) or sig(q.novers(mir.strip(wd[0][1][2][1]))) == "total_liqs"), "withdraw/args", "withdraw(total_liqs)",
            "withdraw calls: %s" % [sig(w[1])[:100] for w in wd])
    ins = q.call_exprs(b, "SmtMapping::insert")
    r.check(len(ins) == 1 and sig(q.novers(ins[0][1])) == "SmtMapping::insert($2.pools, $1, pool_state)", "pool-written-back", "pool state written back", "pool writes: %s" % [sig(i[1]) for i in ins])
    fe = [c for c in cls if q.calls_to(c, "CoinMapping::insert_coin")]
    if not fe and q.calls_to(b, "CoinMapping::insert_coin"):
        # the per-request step is written as a `for` loop in the worker itself instead of a closure handed to for_each: same operations, a shape
        # this rule does not read — no verdict on the per-request clauses (the batch-level clauses above were decided)
        r.undecided("rewrite/closure", "the per-request rewriting step is a loop in the worker, not a closure: per-request clauses not decided", "%s:%s" % (b.file, b.line))
        return
    r.check(len(fe) == 1, "rewrite/closure", "one rewriting closure", "%d" % len(fe))
    if not fe or not wd:
        return
    c = fe[0]
    caps = q.closure_captures(b, c.nname)
    WD = sig(q.novers(wd[0][1]))
    ws = q.writes_in(c)
    # captures resolved in the worker's own terms, aggregates bundling the captured values (a `Redemption { pool, liqs, lefts, rights }`) read through
    RSV = lambda x: q.subst_simplify(x, {}, caps)
    den = [sig(q.novers(RSV(w[3]))) for w in ws if sig(w[2]).endswith(".denom")]
    r.check(den in (["PoolKey::left(^pool)"], ["PoolKey::left($1)"]), "coin0/denom", "coin 0 gets pool.left()", "coin 0 denominations: %s" % den)
    vals = [RSV(w[3]) for w in ws if sig(w[2]).endswith(".value")]
    TQ = sig(q.novers(e))
    own = "%s($2.outputs, 0).value.0" % IDX
    w0 = {"melmint::multiply_frac(%s.0, Ratio::new(%s, %s))" % (WD, own, TQ), "melmint::pro_rata(%s.0, %s, %s)" % (WD, own, TQ)}
    w1 = {x.replace(WD + ".0", WD + ".1") for x in w0}
    r.check(len(vals) == 1 and sig(q.novers(vals[0])) in w0, "coin0/value", "coin 0 value = share of withdraw().0", "coin 0 value = %s" % [sig(q.novers(v))[:200] for v in vals])
    inserts = q.call_exprs(c, "CoinMapping::insert_coin")
    r.check(len(inserts) == 2, "coins/two", "two coins are written", "%d coins are written" % len(inserts))
    for bi, ie in inserts:
        idx = sig(ie[2][1])
        cd = ie[2][2]
        if idx == "Transaction::output_coinid($2, 0)":
            r.check(sigv(cd).startswith("CoinDataHeight::CoinDataHeight{coin_data: %s($2@" % IDX), "coin0/data", "coin 0 = rewritten output 0", "coin 0 data = %s" % sigv(cd)[:120], c.where(bi))
        elif idx == "Transaction::output_coinid($2, 1)":
            f = dict(dict(cd[3])["coin_data"][3]) if cd[0] == "agg" and dict(cd[3])["coin_data"][0] == "agg" else {}
            d1 = sig(q.novers(RSV(f.get("denom", ("unknown", "")))))
            r.check(d1 in ("PoolKey::right(^pool)", "PoolKey::right($1)"), "coin1/denom", "coin 1 gets pool.right()", "coin 1 denom = %s" % d1, c.where(bi))
            v1 = RSV(f.get("value", ("unknown", "")))
            r.check(sig(q.novers(v1)) in w1, "coin1/value", "coin 1 value = share of withdraw().1", "coin 1 value = %s" % sig(q.novers(v1))[:200], c.where(bi))
            r.check(sigv(f.get("covhash", ("unknown", ""))).startswith("%s($2" % IDX) and sig(f.get("covhash")).endswith(".covhash"), "coin1/owner", "coin 1 belongs to the withdrawer",
                    "coin 1 covhash = %s" % sig(f.get("covhash", ("unknown", ""))), c.where(bi))
        else:
            r.violation("coins/other", "a coin keyed %s is written" % idx, c.where(bi))
        # ids computed before mutation
        r.check("@" not in sigv(ie[2][1]), "coins/id-before-mutation@%s" % idx[-3:-1], "coin id computed from the unmodified transaction", "coin id %s computed after mutation" % sigv(ie[2][1]), c.where(bi))


def r5_only_selected(ctx):
    r = ctx.rule("R5", "every coin write in melmint's pool processing is keyed by output 0/1 of a member of the selected list for that pool")
    prog = ctx.prog
    n = 0
    for b, bi, t in prog.call_sites(lambda nm, p: nm in ("melstf::state::coins::CoinMapping::insert_coin", "melstf::state::coins::CoinMapping::remove_coin")):
        if not b.nname.startswith(MM):
            continue
        n += 1
        e = b.rec_call(t, bi)
        k = sig(e[2][1])
        r.check(k in ("Transaction::output_coinid($2, 0)", "Transaction::output_coinid($2, 1)", "Transaction::output_coinid(elem($3), 0)", "Transaction::output_coinid(elem($3), 1)"),
                "key@%s/%s" % (b.nname.replace(MM, "").replace("{closure#", "c").replace("}", ""), k[-3:-1]),
                "keyed by %s of the closure's element" % k, "a coin keyed by %s is written during pool processing" % k, b.where(bi))
    r.floor("coin writes in pool processing", n, 6)
    # every selected request is settled: the per-request closures of the three workers rewrite output 0 on every path (a request that is counted in the
    # totals — and so moves the reserves / burns or mints liquidity — but keeps its original coin leaves value or liquidity tokens unaccounted for)
    for wname in ("process_swaps_for_single_pool", "process_deposits_for_single_pool", "process_withdrawals_for_single_pool"):
        wb = prog.body(MM + wname)
        if wb is None:
            continue
        for c in prog.closures_of(wb):
            ins0 = [bi for bi, e in q.call_exprs(c, "CoinMapping::insert_coin") if sig(e[2][1]) == "Transaction::output_coinid($2, 0)"]
            if not ins0:
                continue
            wo = c.reachable(0, removed=ins0)
            r.check(not any(x in wo for x in c.return_blocks()), "settled@%s" % wname.replace("process_", "").replace("_for_single_pool", ""),
                    "every request of the batch has its output 0 rewritten", "a request counted in the batch totals can leave the per-request step without its output 0 being rewritten "
                    "(its share of the reserves / its liquidity tokens stay unaccounted for)", c.where(ins0[0]))
    # the lists: process_X closures pass transactions_for_pool(selected, pool)
    for name, sel, worker in (("process_swaps", "get_swap_transactions", "process_swaps_for_single_pool"), ("process_deposits", "get_deposit_transactions", "process_deposits_for_single_pool"),
                              ("process_withdrawals", "get_withdrawal_transactions", "process_withdrawals_for_single_pool")):
        b = ctx.body(MM + name, r)
        reqs = sorted({sig(q.novers(e)) for l, sites in b.defs().items() for s in sites for e in [b.rec_def(s)] if q.is_call(e, sel)})
        r.check(reqs == ["melmint::%s(state)" % sel], name + "/selected", "requests = %s(state)" % sel, "requests: %s" % reqs)
        # one worker call per pool of extract_pool_keys_sorted(selected), on transactions_for_pool(selected, that pool) — the per-pool step may be
        # a closure handed to for_each or the body of a `for` loop
        wk = [(c, bi, e) for c in prog.all_nested(b) for bi, e in q.call_exprs(c, worker)]
        r.check(len(wk) == 1, name + "/worker", "one worker call per pool", "%d worker calls" % len(wk))
        for c, bi, e in wk:
            lst = mir.strip(e[2][2])
            dd = q.var_def_exprs(c, lst[1]) if lst[0] == "var" else []
            le = mir.strip(dd[0][1]) if len(dd) == 1 else lst
            pool_arg = mir.strip(e[2][0])
            if c is b:
                lsrc = [l for l in q.loop_with_source(b, lambda s_: True) if bi in l[1]]
                okp = bool(lsrc) and pool_arg == ("elem", lsrc[0][3]) and (q.is_call(mir.strip(lsrc[0][3]), "extract_pool_keys_sorted") or
                                                                         any(q.is_call(mir.strip(d[1]), "extract_pool_keys_sorted") for d in (q.var_def_exprs(b, lsrc[0][3][1]) if lsrc[0][3][0] == "var" else [])))
                r.check(okp, name + "/pools", "iterates extract_pool_keys_sorted(selected)", "the worker's pool argument %s is not the element of a loop over extract_pool_keys_sorted(..)" % sig(pool_arg)[:80], b.where(bi))
                okl = q.is_call(le, "transactions_for_pool") and sig(q.novers(mir.strip(le[2][1]))) == sig(q.novers(pool_arg)) and \
                    any(q.is_call(mir.strip(d[1]), sel) for d in (q.var_def_exprs(b, mir.strip(le[2][0])[1]) if mir.strip(le[2][0])[0] == "var" else [])) or \
                    (q.is_call(le, "transactions_for_pool") and q.is_call(mir.strip(le[2][0]), sel) and sig(q.novers(mir.strip(le[2][1]))) == sig(q.novers(pool_arg)))
                r.check(okl, name + "/list", "worker list = transactions_for_pool(selected, pool)", "worker list = %s" % sig(le)[:120], b.where(bi))
            else:
                s_ = sig(le)
                caps = q.closure_captures(b, c.nname)
                if le[0] == "upvar" and le[1] in caps and not any(q.is_call(mir.strip(d[1]), sel) for d in (q.var_def_exprs(b, caps[le[1]][1]) if caps[le[1]][0] == "var" else [])):
                    # a buffer living outside the per-pool step: decided by R5b (list/carried-over); its contents are not read here
                    r.undecided(name + "/list", "worker list is a reused buffer %s filled by a helper: contents not read" % sig(le), c.where(bi))
                    continue
                capn = [k for k in q.closure_captures(b, c.nname) if "req" in k]
                r.check(bool(capn) and s_ == "melmint::transactions_for_pool(^%s, $2)" % capn[0].replace("_ref__", ""), name + "/list",
                        "worker list = transactions_for_pool(selected, pool)", "worker list = %s" % s_, c.where(bi))
                r.check(sig(e[2][0]) == "$2", name + "/pool", "for the iterated pool", "pool arg = %s" % sig(e[2][0]), c.where(bi))
                fe = q.call_exprs(b, "for_each")
                r.check(len(fe) == 1 and q.is_call(fe[0][1][2][0], "extract_pool_keys_sorted"), name + "/pools", "iterates extract_pool_keys_sorted(selected)", "iterates %s" % [sig(x[1][2][0])[:80] for x in fe])
    tfp = ctx.body(MM + "transactions_for_pool", r)
    c = prog.closures_of(tfp)[0]
    rr = q.ret_assignments(c)
    s = sig(rr[0][2]) if rr else "?"
    r.check(s in ("<std::option::Option<T> as std::cmp::PartialEq>::eq(Option::Some{0: ^pool_key}, melmint::pool_key_from_data($2.data))",
                  "<std::option::Option<T> as std::cmp::PartialEq>::eq(Option::Some{0: ^pool_key}, PoolKey::from_bytes($2.data))"),
            "transactions_for_pool", "keeps the requests whose data names this pool", "filter is %s" % s)


def r5b_per_pool_list(ctx):
    """each pool is settled against the requests naming THAT pool: a list that outlives the per-pool step (one buffer reused for all pools of the block)
    must be emptied on every path before it is handed to the per-pool worker"""
    r = ctx.rule("R5b", "the per-pool request list does not carry requests over from the previous pool of the block (a reused buffer is emptied on every path to the worker)", positional=False)
    prog = ctx.prog
    for name, sel, worker in (("process_swaps", "get_swap_transactions", "process_swaps_for_single_pool"), ("process_deposits", "get_deposit_transactions", "process_deposits_for_single_pool"),
                              ("process_withdrawals", "get_withdrawal_transactions", "process_withdrawals_for_single_pool")):
        b = prog.body(MM + name)
        if b is None:
            r.undecided(name + "/list/carried-over", "%s not found" % name)
            continue
        wk = [(c, bi, e) for c in prog.all_nested(b) for bi, e in q.call_exprs(c, worker)]
        if not wk:
            r.undecided(name + "/list/carried-over", "no call of %s under %s" % (worker, name))
            continue
        for c, bi, e in wk:
            if len(e[2]) < 3:
                r.undecided(name + "/list/carried-over", "worker call has %d arguments" % len(e[2]), c.where(bi))
                continue
            lst = mir.strip(e[2][-1])
            if c is b or lst[0] != "upvar":
                # the list is a value of the per-pool step itself (a fresh `let` inside the closure / loop body): nothing is carried over.
                # (a loop-body buffer declared before a `for` loop is not read here: undecided, never a violation)
                if c is b and lst[0] == "var":
                    loops = [l for l in q.loop_with_source(b, lambda s_: True) if bi in l[1]]
                    dsites = [s_ for s_ in b.defs().get(lst[1], [])] if hasattr(b, "defs") else []
                    inside = bool(loops) and any(s_[0] in loops[0][1] for s_ in dsites)
                    if loops and not inside:
                        r.undecided(name + "/list/carried-over", "the worker's list is declared outside the per-pool loop: not read", b.where(bi))
                        continue
                r.ok(name + "/list/carried-over", "the worker's list is built inside the per-pool step")
                continue
            caps = q.closure_captures(b, c.nname)
            cap = caps.get(lst[1])
            if cap is not None and cap[0] == "var" and any(q.is_call(mir.strip(d[1]), sel) for d in q.var_def_exprs(b, cap[1])):
                r.ok(name + "/list/carried-over", "the worker is handed the selected requests themselves")
                continue
            clears = [bj for bj, ce in q.all_call_exprs(c) if ce[0] == "call" and ce[1].split("::")[-1] in ("clear", "truncate", "drain") and ce[2] and mir.strip(ce[2][0]) == lst]
            stale = c.reachable(0, removed=clears)
            if bi in stale:
                r.violation(name + "/list/carried-over", "the per-pool list %s outlives the per-pool step and reaches %s without being emptied: requests collected for an "
                            "earlier pool of the block are settled again against this pool's reserves" % (sig(lst), worker), c.where(bi))
            else:
                r.ok(name + "/list/carried-over", "the reused buffer is emptied on every path to the worker")


def r6_stage_order(ctx):
    r = ctx.rule("R6", "preseal_melmint = process_pegging(process_withdrawals(process_deposits(process_swaps(create_builtins(state))))); pool keys sorted and deduplicated")
    b = ctx.body(MM + "preseal_melmint", r)
    rr = q.ret_assignments(b)
    s = sig(rr[0][2]) if rr else "?"
    want = "melmint::process_pegging(melmint::process_withdrawals(melmint::process_deposits(melmint::process_swaps(melmint::create_builtins($1)))))"
    gone = [n for n in ("process_pegging", "process_withdrawals", "process_deposits", "process_swaps", "create_builtins") if ctx.prog.body(MM + n) is None]
    if s != want and gone:
        # a stage no longer exists under its name (renamed / turned into a method / merged): the chain cannot be read off the names
        r.undecided("chain", "stage function(s) %s not found under their names; preseal_melmint returns %s: order not decided" % (gone, s[:200]))
    else:
        r.check(s == want, "chain", "stages in order", "preseal_melmint returns %s" % s)
    e = ctx.body(MM + "extract_pool_keys_sorted", r)
    cl = ctx.prog.all_nested(e)        # the sort/dedup may sit in a closure (`.pipe(|mut v| ..)`) or in the function itself
    srt = [c for c in cl if q.calls_matching(c, lambda n, p: n.split("::")[-1].startswith("sort"))]
    r.check(len(srt) == 1, "sorted", "pool keys are sorted", "pool keys are not sorted")
    for c in srt:
        dd = q.calls_to(c, "Vec::dedup")
        r.check(len(dd) == 1, "dedup", "and deduplicated", "not deduplicated")
        so = q.calls_matching(c, lambda n, p: n.split("::")[-1].startswith("sort"))
        if dd and so:
            r.check(c.dominates(so[0][0], dd[0][0]), "sort-before-dedup", "sort before dedup", "dedup before sort")


def shared(ctx):
    """'each participant receives their pro-rata share rounded down': the share helper pro_rata / multiply_frac is exactly floor(x·mine/total) (C01.R6)"""
    from rules.engine import core
    from rules.props import c01
    core.import_rules(ctx, [c01.r6_floor, c01.r10_no_wraparound], "X01")   # a batch total that wraps prices the whole batch against almost nothing


RULES = [r1_selection_atoms, r2_canonical_keys, r3_swaps, r3_deposits, r3_withdrawals, r5_only_selected, r5b_per_pool_list, r6_stage_order, shared]
