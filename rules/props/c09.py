"""C09 — validation is total: hostile input is rejected, never a crash or hang."""
import re

from rules.engine import mir, q, panics
from rules.engine.q import sig, force
from rules.engine.sccp import V
from rules.props import c11

EXPLANATION = (
    "R1 may-panic inventory: every MIR assertion (overflow, division by zero, bounds), every call to a panicking std function (unwrap/expect/index/panic!) and every call to an "
    "external function with a known panic condition (summary table written from the pinned dependency sources), in every body reachable from the public entry points of the three "
    "crates, is either auto-discharged (D1 constants, D2 infallible producers, D3 dominated presence/length test incl. forced-length enumeration, D4 width-bounded operands, D6 guarded "
    "subtraction/division) or matched by the reviewed site table below — each entry names the invariant or stated assumption that discharges it, or marks it as a finding. An unlisted, "
    "undischarged site is a violation: that is how `saturating_add`→`+`, `ok_or(..)?`→`unwrap()`, `get(0)`→`[0]` or a new division show up. R2 recursion: the only call-graph cycle is the "
    "weight recursion (owned by C11.R6). R3 loops: every natural loop is an iterator `for`/adapter loop or is in the confirmed table with its progress measure."
    " Table verdicts that are evaluated rather than quoted: totals-gate (C01.R9), weights-capped (C05.R1), guarded-swap, priced-pool (every use of the reserves of a built-in pool as a divisor is unreachable when either reserve of that pool is zero - all three pools), guarded-withdraw (0 < total <= recorded liquidity), selected (C15 selection lengths). Imports C20.R3 and the activation table C06.R5."
    " K8 panic sites (`assert!`) are keyed by the asserted condition. R4: the nesting depth of a MelVM value is bounded or its drop is iterative (today neither: recorded finding D25)."
    ' R2 `weight-cycle/depth-unbounded`: the weight recursion must carry a depth bound — its depth is one level per nested Loop, i.e. chosen by the sender (recorded finding D33: 15 KB of nested loops abort the validator).'
)
NOT_DECIDED = ["aborts from memory exhaustion in general (C11.R5 covers the known materialisation sites)", "termination and panic-freedom of trusted-base code beyond the summarised conditions",
               "the assumptions marked 'assume' in the site table: bounded horizon (heights, epochs, per-covenant coin counts below 2^64; halving index below 128), the work bound of MelPoW "
               "(difficulty ≤ 64 once verify succeeded; reward·inflator < 2^128), and PoolState's own arithmetic (a swap never drains a side to zero)"]
ASSUMPTIONS = ["block height stays below TIP-909 + 1.28e8 and u64::MAX; epochs and per-covenant coin counts stay below 2^64 (bounded horizon)",
               "a successful melpow::Proof::verify implies difficulty ≤ 64 (melpow 0.1.2); a DoscMint reward times the inflator stays below 2^128 (needs ≈ 2^90 sequential hashes)",
               "PoolState::swap_many never drains a side of a pool with non-zero reserves to zero (melstructs 0.3.3, read, not proved)",
               "melpow 0.1.2, melstructs 0.3.3, num-rational panic conditions as summarised in rules/engine/panics.py",
               "NOT assumed any more (each was false on networks that admit Faucet transactions, see D20/D21): a bounded coin supply, non-zero reserves of built-in pools, liquidity tokens in coins ≤ recorded liquidity"]

# (regex on the site key `body|kind|what|operands`, verdict, reason)   verdict ∈ inv | assume | finding
TABLE = [
    (r"^Covenant::to_bytes\|unwrap\|unwrap\|OpCode::encode", "inv", "encode fails only for PushB literals > 255 bytes; covenants arriving as bytes are built by from_bytes (length byte ≤ 255); from_ops with a longer literal is misuse by the embedding program, not attacker input"),
    (r"^(SealedState::apply_block|UnsealedState::seal|melmint::preseal_melmint|melmint::process_pegging)\|panic\|panic\|(Ge\(Iterator::count\(SmtMapping::val_iter\(.*pools\)\), 2\)|Gt\(Iterator::count\(SmtMapping::val_iter\(.*pools\)\), 1\))$", "inv", "assert!(pools ≥ 2): create_builtins runs first in every seal (C16.R1/R2) and pools are never deleted (C16.R3)"),
    (r"^SealedState::apply_tip_906_for_next_state\|assert\|Overflow\(Add\)\|CoinMapping::coin_count", "assume", "a covenant's coin count stays below 2^64"),
    (r"^SealedState::apply_tip_906_for_next_state\|assert\|Overflow\(Sub\)\|phi\(", "inv", "progress counter starts at tree.count() and is decremented once per iterated entry of the same tree"),
    (r"^SealedState::apply_tip_906_for_next_state\|unwrap\|expect\|stdcode::deserialize\(elem\(Tree::iter", "inv", "before TIP-906 the coin tree holds only CoinDataHeight entries: count entries are written only when the flag handed to insert_coin is set (C20.R1) and that flag is tip_906() of the state at every call site (C20.R3)"),
    # (removed with repair e9bdbb6, D20) the voting-power sums saturate; a plain `.sum()` / `+` over syms_staked is an unlisted site again: SYM can be minted by faucets on every network but mainnet
    (r"^SealedState::header(::c0)?\|unwrap\|unwrap\|SmtMapping::get\((\^inner|\$1\.0)\.history", "inv", "next_unsealed inserts the header of height h−1 before a state of height h exists (C07.R2)"),
    (r"^SealedState::next_unsealed\|extern\|<melstructs::BlockHeight as std::ops::AddAssign>::add_assign", "assume", "height < u64::MAX (bounded horizon)"),
    (r"^StakeSet::post_tip911\|assert\|Overflow\(Add\)\|\$2,1", "assume", "epoch < u64::MAX"),
    (r"^Tip911::calculate_merkle::c0\|index\|index\|\^self\.stakes,RangeToInclusive", "inv", "k ranges over 0..stakes.len()"),
    (r"^UnsealedState::apply_tip_909\|assert\|Overflow\(Shr\)\|1048576,Div\(", "assume", "halving index < 128, i.e. height < TIP-909 + 1.28e8 (bounded horizon; latent afterwards)"),
    (r"^UnsealedState::apply_tip_909\|assert\|Overflow\(Sub\)\|Shr\(1048576", "inv", "x − (x >> k) and x − x/2 cannot underflow"),
    # (removed with repair e9bdbb6, D20) fee_pool + MEL taken from the pool: saturating now; the plain `+=` is an unlisted site again
    (r"^UnsealedState::apply_tip_909\|extern\|swap_many\|", "priced-pool", "every use of a built-in pool's reserves as a divisor is behind a test that both reserves are non-zero (evaluated here): ERG/SYM can be pre-empted before TIP-902 and emptied (D19), and on faucet-enabled networks any pool can be emptied with forged liquidity tokens (D21)"),
    (r"^UnsealedState::apply_tip_909\|unwrap\|unwrap\|SmtMapping::get\((\$1|self)\.pools, PoolKey::new\(Denom::(Mel|Erg)\{\}, Denom::Sym\{\}\)\)", "inv", "create_builtins dominates in seal (C16.R1/R2); ERG/SYM exists because TIP-902 (180000) activates before TIP-909 (950000) and both use the same activation rule"),
    # (removed with repair e9bdbb6, D20) fee_pool/65536 + tips: saturating now; the plain `+` is an unlisted site again (tips of faucet transactions are minted)
    (r"^UnsealedState::collect_proposer_action_fee\|extern\|<melstructs::CoinValue as std::ops::SubAssign>::sub_assign\|(self|\$1)\.fee_pool,Shr\((self|\$1)\.fee_pool\.0, 16\)", "inv", "x − (x >> 16) cannot underflow"),
    (r"^applytx::check_tx_validity\|(extern\|<&u128 as std::ops::Add<u128>>::add|assert\|Overflow\(Add\))\|(Option::unwrap_or\(HashMap::get|Entry::or_insert\(HashMap::entry)\(in_coins, ", "finding", "D20: the sum of the inputs of one denomination is a plain u128 `+`; distinct existing coins bound it by the supply, which is below 2^127 on mainnet but unbounded wherever Faucet transactions are admitted — the repository's own test `overflow_coins` (#[should_panic]) pins the abort, so it cannot be repaired with the suite unedited"),
    (r"^applytx::compute_doscmint_speed\|assert\|DivisionByZero\|", "inv", "called after this.history.get(coin.height)? succeeded (C18.R1): history holds only past headers, so coin.height < this.height"),
    (r"^applytx::compute_doscmint_speed\|extern\|<melstructs::BlockHeight as std::ops::Sub>::sub\|\$3,\$4", "inv", "coin.height < this.height (same reason)"),
    (r"^applytx::compute_doscmint_speed\|(assert\|Overflow\(Mul\)|extern\|pow)\|", "after-verify", "reached only after Proof::verify returned true, which in melpow 0.1.2 requires difficulty ≤ 64 (larger values panic inside verify: finding D11)"),
    (r"^melmint::calculate_reward\|extern\|pow\|2,\$3", "after-verify", "same: difficulty ≤ 64 once verification succeeded"),
    (r"^applytx::extract_input_coins\|unwrap\|unwrap\|HashMap::get\(ParallelIterator::collect", "inv", "the cache is built from exactly the inputs that are looked up (C02.R2 cache closures)"),
    # melpow::Proof::verify: identified by callee and hasher, not by the function that happens to host the call (see `_verify_finding`)
    (r"^[A-Za-z_0-9:]+\|extern\|verify\|.*LegacyMelPowHash", "finding", "D10/D11"),
    (r"^[A-Za-z_0-9:]+\|extern\|verify\|.*Tip910MelPowHash", "finding", "D10/D11"),
    (r"^applytx::validate_and_get_doscmint_speed\|assert\|Overflow\(Sub\)\|\$1\.height\.0,1", "inv", "the history lookup at the coin's height succeeded before, so height ≥ 1"),
    (r"^applytx::validate_and_get_doscmint_speed\|extern\|<melstructs::BlockHeight as std::ops::Sub>::sub\|\$1\.height,", "inv", "a coin is never newer than the state applying the batch (C02.R4: height = this.height)"),
    (r"^applytx::(create_next_state|apply_tx_batch_impl)\|extern\|base_fee\|", "weights-capped", "every weight handed to base_fee is capped at u128::MAX / (covenants + 1), so the sum inside base_fee cannot overflow (C05.R1, re-evaluated here)"),
    (r"^applytx::(check_tx_validity|check_dosc_total_output)\|extern\|total_outputs\|", "totals-gate", "every batch member passed load_relevant_coins' output_totals_fit gate (checked sums of the outputs per denomination and of the fee) before anything calls total_outputs on it (C01.R9, re-evaluated here)"),
    (r"^applytx::validate_and_get_doscmint_speed\|unwrap\|(expect|unwrap)\|core::slice::<impl \[T\]>::get\(\$3\.inputs, 0\)", "inv", "runs after check_tx_validity accepted the tx: total_outputs always has a MEL entry, so balancing demands a MEL input (C01.R3 missing=>err)"),
    (r"^coins::CoinMapping::(coin_count|get_coin|remove_coin)\|unwrap\|unwrap\|stdcode::deserialize\(Tree::get\(\$1\.inner", "inv", "coin keys and count keys are domain-separated and written only by this module with stdcode of the matching type (C20.R1/R2)"),
    (r"^coins::CoinMapping::insert_coin\|assert\|Overflow\(Add\)\|CoinMapping::coin_count", "assume", "coin count < 2^64"),
    (r"^coins::CoinMapping::remove_coin\|assert\|Overflow\(Sub\)\|CoinMapping::coin_count", "inv", "an existing coin of that covenant implies count ≥ 1 (C20.R1); overwriting a coin with a different covenant hash is not done by the state machine"),
    (r"^executor::Executor::step::c0\|assert\|Overflow\(Add\)\|\^self\.pc,", "inv", "pc ≤ instrs.len() and the operand is a u16: usize addition cannot overflow"),
    (r"^executor::Executor::step::c0\|assert\|Overflow\(Sub\)\|AddWithOverflow\(", "inv", "pc was incremented before (pc ≥ 1)"),
    (r"^executor::Executor::step::c0::c(20::c0|29)\|extern\|slice_into\|", "inv", "guarded by end ≤ len ∧ begin ≤ end (verified by forcing in C10.R3)"),
    (r"^executor::Executor::step::c0::c2[35]\|extern\|insert\|vec#2,0,", "inv", "CatVec::insert at index 0"),
    (r"^melmint::create_builtins\|extern\|deposit\|def,", "inv", "deposit into PoolState::new_empty(): the liqs == 0 branch does not divide"),
    (r"^melmint::dosc_to_erg\|unwrap\|unwrap\|BigInt::to_biguint", "inv", "product of non-negative ratios"),
    (r"^melmint::dosc_to_erg\|unwrap\|expect\|<T as std::convert::TryInto<U>>::try_into", "after-verify", "reward·inflator < 2^128 for a difficulty that passed verification (needs ≈2^90 sequential hashes)"),
    (r"^melmint::microergs_per_dosc::c0\|assert\|Overflow\(Add\)\|", "assume", "inflator table stays below 2^128 (≈1.5e8 blocks) and height < u64::MAX"),
    (r"^melmint::microergs_per_dosc::c0\|index\|index\|tab,", "inv", "the loop above fills the table up to height"),
    (r"^melmint::microergs_per_dosc::c0\|unwrap\|unwrap\|core::slice::<impl \[T\]>::last\(tab\)", "inv", "the table is non-empty after the initial push"),
    (r"^melmint::multiply_frac\|extern\|new\|Ratio::numer\(\$2\),Ratio::denom\(\$2\)", "inv", "the denominator of an existing Ratio is non-zero"),
    (r"^melmint::process_(swaps|deposits|withdrawals)_for_single_pool(::c\d)?\|index\|index(_mut)?\|(\$2|elem\(\$3\))\.outputs,[01]$", "selected", "members of the list passed the selection closure, which requires enough outputs (verified here by forcing the selection's length tests)"),
    (r"^melmint::process_deposits_for_single_pool\|extern\|deposit\|pool_state", "assume", "both deposited totals are > 0 (guard) and a pool with outstanding liquidity has non-zero reserves"),
    (r"^melmint::process_pegging\|extern\|(<num::rational::Ratio<T> as std::ops::Div>::div|implied_price|recip|swap_many)\|", "priced-pool", "the inflator is positive; every price is used only behind a test that both reserves of its pool are non-zero (evaluated here: D19, D21)"),
    (r"^melmint::process_pegging\|unwrap\|unwrap\|SmtMapping::get\(state\.pools, PoolKey::new\(", "inv", "create_builtins ran first in preseal_melmint (same tip_902 condition for ERG/SYM)"),
    (r"^melmint::process_swaps_for_single_pool\|extern\|swap_many\|pool_state", "guarded-swap", "both sides are non-zero after adding the inputs (verified here by forcing the guard)"),
    (r"^melmint::process_(swaps|withdrawals)_for_single_pool\|unwrap\|unwrap\|SmtMapping::get\(\$2\.pools, \$1\)", "inv", "the pool key comes from selected requests, whose selection requires state.pools.get(key) (C15.R1 pool-exists); pools are never deleted (C16.R3)"),
    (r"^melmint::process_withdrawals_for_single_pool\|extern\|withdraw\|pool_state", "guarded-withdraw", "PoolState::withdraw asserts liqs ≤ self.liqs and divides by self.liqs: reached only with 0 < total_liqs ≤ pool_state.liqs (evaluated here; liquidity tokens can exceed what the pool issued wherever Faucet transactions can mint them: D21)"),
    (r"^opcode::OpCode::(decode|encode)\|assert\|Overflow\(Sub\)\|32,", "inv", "at most 32 leading zero bytes"),
    (r"^smtmapping::SmtMapping::(get|get_with_proof|val_iter::c0)\|unwrap\|(expect|unwrap)\|stdcode::deserialize\(", "inv", "a typed mapping only stores stdcode(V) (C07.R4)"),
    (r"^executor::Executor::update_pc_state\|assert\|Overflow\(Sub\)", "inv", "dominated by iterations_left > 0"),
    (r"^executor::Executor::step::c0::c4\|assert\|Overflow\(Add\)", "inv", "u8 widened to u16"),
]


def _scope(prog):
    entries = [b for b in prog.bodies if b.kind in ("Fn", "AssocFn") and b.vis.startswith("Public")]
    skip = ("serde", "Serialize", "Deserialize", "fmt::Debug", "fmt::Display", "std_mainnet", "std_testnet", "<impl genesis", "as std::error::Error", "thiserror")
    entries = [b for b in entries if not any(x in b.nname for x in skip)]
    ids = prog.reach_from([b.id for b in entries])
    bodies = [prog.by_id[i] for i in sorted(ids)]
    bodies = [b for b in bodies if not any(x in b.nname for x in skip)]
    return entries, bodies


def _selected_ok(prog, site):
    """outputs[i] inside a single-pool worker: the matching selection closure selects nothing when len(outputs) ≤ i"""
    from rules.props import c15
    m = re.match(r"melmint::process_(swaps|deposits|withdrawals)_for_single_pool", site.key)
    sel = {"swaps": "get_swap_transactions", "deposits": "get_deposit_transactions", "withdrawals": "get_withdrawal_transactions"}[m.group(1)]
    b = prog.body("melstf::state::melmint::" + sel)
    if b is None:
        return False
    cls_ = prog.closures_of(b)
    if not cls_:
        return None          # the selection is not a filter_map closure (loop spelling): not decided here
    c = cls_[0]
    somes = [bb for bb, e in q.result_blocks(c)["Some"]]
    finals = [(cb, ce) for cb, ce in q.call_exprs(c, "then_some") if any(ra[0] == cb and ra[1] == "T" for ra in q.ret_assignments(c))]
    i = q.const_val(site.operands[1])
    atoms = panics._len_atoms(c, "$2.outputs")
    if not atoms or i is None:
        return False
    for n in range(i + 1):
        if not c15._selected_unreachable(c, somes, finals, {a: (1 if fn(n) else 0) for a, fn in atoms}):
            return False
    return True


def _is_ergsym(s_):
    return "Denom::Erg{}, Denom::Sym{}" in s_ or "Denom::Sym{}, Denom::Erg{}" in s_


def _resolved_sig(b, e):
    """sig of e with local variables replaced by what they were initialised with (one level)"""
    out = sig(e)
    for x in mir.walk(e):
        if x[0] == "var":
            ds = q.var_def_exprs(b, x[1])
            if len(ds) >= 1:
                out += " <" + " | ".join(sig(d[1]) for d in ds[:2]) + ">"
    return out


def _pools_named(s_):
    """built-in pools a resolved signature names: subset of {'MS', 'ME', 'ES'}"""
    out = set()
    if "Denom::Erg{}, Denom::Sym{}" in s_ or "Denom::Sym{}, Denom::Erg{}" in s_ and "Denom::Mel{}, elem(array(Denom::Sym{}, Denom::Erg{}))" not in s_:
        out.add("ES")
    if "Denom::Mel{}, Denom::Sym{}" in s_ or "Denom::Sym{}, Denom::Mel{}" in s_:
        out.add("MS")
    if "Denom::Mel{}, Denom::Erg{}" in s_ or "Denom::Erg{}, Denom::Mel{}" in s_:
        out.add("ME")
    if "Denom::Mel{}, elem(array(Denom::Sym{}, Denom::Erg{}))" in s_ or "Denom::Mel{}, elem(array(Denom::Erg{}, Denom::Sym{}))" in s_:
        out |= {"MS", "ME"}          # `for other in [Sym, Erg] { pools.get(PoolKey::new(Mel, other)) .. }`
    return out


def _priced_pool_ok(site):
    """True: every use this site makes of a built-in pool's reserves as a divisor is unreachable when either reserve of that pool is zero.
    False: some pool is used unguarded.  The pools a site depends on: those it names; in process_pegging, where everything after the price
    computation depends on the prices, all pools read under the TIP-902 setting in force."""
    b = site.body
    full = _resolved_sig(b, site.expr) if site.expr is not None else " ".join(_resolved_sig(b, o) for o in site.operands)
    named = _pools_named(full)
    pegging = b.nname.endswith("process_pegging")
    want = lambda c: c.startswith("Eq(0, ") and (c.endswith(".lefts)") or c.endswith(".rights)"))
    def _groups():
        g = {}
        for e, c, bi in q.pick_atoms(b, want):
            if not want(c):
                continue
            cm = q.as_cmp(e[1] if e[0] == "not" else e)
            if not cm:
                continue
            subj = cm[2] if q.const_val(cm[1]) == 0 else cm[1]
            for pk in _pools_named(_resolved_sig(b, subj)):
                g.setdefault(pk, {}).setdefault("lefts" if c.endswith(".lefts)") else "rights", []).append(e)
        return g
    groups0 = _groups()
    t902 = [e for bi, e in q.call_exprs(b, "UnsealedState::tip_902")]
    for flag in ((1, 0) if t902 else (None,)):
        base = {e: flag for e in t902} if flag is not None else {}
        fb = force(b, base)
        if site.bb not in fb.reach:
            continue                                    # not executed under this TIP-902 setting
        # which pool a tested reserve belongs to, read along the paths this setting leaves (`let pool = if tip_902 { ES } else { ME }; if pool.lefts == 0 ..`
        # names one pool per setting); atoms are the same objects, so the two readings are merged
        groups = {k: {s_: list(v_) for s_, v_ in d.items()} for k, d in groups0.items()}
        if flag is not None:
            # the forcing itself is evaluated on the unrestricted expressions: an atom found along the restricted paths is forced through the comparison
            # evaluated in the same block
            zero_u = {}
            for e_u, c_u, bi_u in q.pick_atoms(b, lambda c: c.startswith("Eq(0, ")):
                if c_u.startswith("Eq(0, "):
                    zero_u.setdefault(bi_u, e_u)
            with b.restricted(fb.reach):
                found = []
                for e_r, c_r, bi_r in q.pick_atoms(b, want):
                    if not want(c_r):
                        continue
                    cm = q.as_cmp(e_r[1] if e_r[0] == "not" else e_r)
                    if not cm:
                        continue
                    subj = cm[2] if q.const_val(cm[1]) == 0 else cm[1]
                    found.append((bi_r, "lefts" if c_r.endswith(".lefts)") else "rights", _pools_named(_resolved_sig(b, subj))))
            for bi_r, side_, pks in found:
                if bi_r in zero_u and bi_r in fb.reach:
                    for pk in pks:
                        cur = groups.setdefault(pk, {}).setdefault(side_, [])
                        if zero_u[bi_r] not in cur:
                            cur.append(zero_u[bi_r])
        # pools read at all under this setting (a value joined from both branches names the pools of both; only one branch runs)
        used = set()
        for gb, ge in q.call_exprs(b, "SmtMapping::get"):
            if gb in fb.reach:
                used |= _pools_named(sig(ge))
        need = set(named) & used if t902 else set(named)
        if pegging:
            need |= ({"ES"} if flag == 1 else {"MS", "ME"})
        for pk in sorted(need):
            sides = groups.get(pk, {})
            if set(sides) != {"lefts", "rights"}:
                return False
            for side, es in sides.items():
                tbl = dict(base)
                tbl.update({e: 1 for e in es})
                if site.bb in force(b, tbl).reach:
                    return False
    return True


def _withdraw_guard_ok(site):
    """the call pool.withdraw(n) is unreachable when n > pool.liqs and when n == 0"""
    b = site.body
    if site.expr is None or site.expr[0] != "call" or len(site.expr[2]) < 2:
        return False
    pool, n = sig(q.novers(site.expr[2][0])), sig(q.novers(site.expr[2][1]))
    over = "Lt(%s.liqs, %s)" % (pool, n)
    zero = ("Eq(0, %s)" % n, "Eq(%s, 0)" % n)
    got = {"over": [], "zero": []}
    for e, c, bi in q.pick_atoms(b, lambda c: sig_novers_str(c) == over or sig_novers_str(c) in zero):
        cs = sig_novers_str(c)
        if cs == over:
            got["over"].append(e)
        elif cs in zero:
            got["zero"].append(e)
    if not got["over"] or not got["zero"]:
        return False
    for es in got.values():
        if site.bb in force(b, {e: 1 for e in es}).reach:
            return False
    return True


def sig_novers_str(c):
    return re.sub(r"@\d+", "", c)


def _swap_guard_ok(site):
    b = site.body
    PFX = "Eq(0, core::num::<impl u128>::saturating_add(pool_state."
    atoms = [a for a in q.pick_atoms(b, lambda c: c.startswith(PFX)) if a[1].startswith(PFX)]   # `== 0` or `!= 0` spelling
    sides = {("lefts" if ".lefts" in a[1] else "rights") for a in atoms}
    if sides != {"lefts", "rights"}:
        return False
    # each side's test is about that side AFTER this batch's input was added: reserve.lefts + (what is handed to swap_many as lefts), and likewise for rights
    # (compared on the expressions: the two totals are folds that print alike)
    if site.expr is not None and site.expr[0] == "call" and len(site.expr[2]) >= 3:
        want = {"lefts": q.novers(mir.strip(site.expr[2][1])), "rights": q.novers(mir.strip(site.expr[2][2]))}
        for a in atoms:
            side = "lefts" if ".lefts" in a[1] else "rights"
            adds = []
            q.contains(a[0] if a[0][0] != "not" else a[0][1], lambda y: (adds.append(y) if q.is_call(y, "saturating_add") and len(y[2]) == 2 else None) and False)
            if adds and not any(q.novers(mir.strip(x[2][1])) == want[side] or q.novers(mir.strip(x[2][0])) == want[side] for x in adds):
                return False
    for a in atoms:
        f = force(b, {a[0]: 1})
        if site.bb in f.reach:
            return False
    return True


def r1_inventory(ctx):
    r = ctx.rule("R1", "every may-panic site reachable from the public entry points is auto-discharged or listed in the reviewed table (invariant / stated assumption / finding)")
    prog = ctx.prog
    entries, bodies = _scope(prog)
    for b in bodies:
        ctx.analysed(b)
    sites = panics.inventory(prog, bodies)
    r.floor("entry points", len(entries), 60)
    r.floor("bodies in scope", len(bodies), 200)
    r.floor("may-panic sites", len(sites), 200)
    counts = {}
    seen = set()
    used = set()
    nverify = {}
    for s in sites:
        if s.exp:
            counts["logging"] = counts.get("logging", 0) + 1
            continue
        d = panics.auto_discharge(prog, s)
        if d:
            counts[d[0]] = counts.get(d[0], 0) + 1
            if (d[0], s.key) not in seen and counts[d[0]] <= 6:
                r.ok("auto/%s/%s" % (d[0], s.key[:100]), d[1], s.where())
            seen.add((d[0], s.key))
            continue
        key = s.key
        hit = None
        for k_ in [key] + ([s.parent_key] if s.parent_key else []):
            for i, (pat, verdict, why) in enumerate(TABLE):
                if re.search(re.sub(r"::c\d+", r"::c\\d+", pat), k_):   # closure numbering is not part of a site's identity
                    hit = (i, verdict, why)
                    break
            if hit:
                break
        if hit is None:
            r.violation("site/" + key[:150], "possible panic: %s %s on (%s) is neither auto-discharged nor covered by a reviewed invariant — a transaction/block must be rejected, never abort the validator"
                        % (s.kind, s.what, ", ".join(sig(q.novers(o))[:70] for o in s.operands)), s.where())
            continue
        i, verdict, why = hit
        used.add(i)
        counts[verdict] = counts.get(verdict, 0) + 1
        if key in seen:
            continue
        seen.add(key)
        if verdict == "finding":
            if s.what == "verify":
                hs = sig(s.operands[-1]).split("::")[0] if s.operands else "?"
                nverify[hs] = nverify.get(hs, 0) + 1
                # the n-th unguarded verification with this hasher: the first one is the recorded finding wherever the call is hosted,
                # a further one is a new site
                fkey = "finding/melpow::Proof::verify|%s|#%d" % (hs, nverify[hs])
            else:
                fkey = "finding/" + re.sub(r"\|(extern\|<&u128 as std::ops::Add<u128>>::add|assert\|Overflow\(Add\))\|.*", "|input-total-overflow", key)[:150]
            r.violation(fkey, "reachable panic in the trusted base without a guard: %s (%s)" % (s.what, why), s.where())
        elif verdict == "after-verify":
            # "the difficulty is at most 64 / the reward fits" holds for a difficulty that PASSED Proof::verify — so the arithmetic on it must come after a
            # successful verification, on every path (evaluated: in validate_and_get_doscmint_speed, with spliced helpers, every call of the site's function is
            # dominated by proof_is_tip910(..) and unreachable when that call fails).  A "cheap pre-check" on the difficulty the transaction merely claims breaks it.
            vb = prog.body("melstf::state::applytx::validate_and_get_doscmint_speed")
            fn_short = s.body.nname.split("::")[-1] if s.body.kind != "Closure" else prog.by_id[s.body.parent].nname.split("::")[-1]
            okv = None
            if vb is not None:
                pv = q.call_exprs(vb, "proof_is_tip910")
                tgt = [bi_ for bi_, e_ in q.all_call_exprs(vb) if e_[0] == "call" and e_[1].split("::")[-1] in (fn_short, "check_dosc_total_output" if fn_short in ("dosc_to_erg", "calculate_reward") else fn_short)]
                tgt += [bi_ for bi_, e_ in q.call_exprs(vb, fn_short)]
                if pv and tgt:
                    fv = force(vb, {pv[0][1]: V(1)})
                    aft = fv.reach_from(pv[0][0])
                    okv = all(vb.dominates(pv[0][0], t_) and t_ != pv[0][0] for t_ in set(tgt)) and not any(t_ in aft for t_ in set(tgt))
            if okv is None:
                r.undecided("site/" + key[:150], "whether %s runs only after a successful proof verification is not decided (call structure not read)" % fn_short, s.where())
            else:
                r.check(okv, "site/" + key[:150], "assume (evaluated: only after proof_is_tip910(..)? succeeded): " + why,
                        "%s is reached with a difficulty that has not passed Proof::verify (a call of it in validate_and_get_doscmint_speed is not behind a successful proof_is_tip910): "
                        "the difficulty a transaction merely claims (up to u32::MAX) overflows 2^difficulty, or saturates the reward and trips the `expect` in dosc_to_erg" % fn_short, s.where())
        elif verdict == "selected":
            ok = _selected_ok(prog, s)
            if ok is None:
                r.undecided("site/" + key[:150], "the selection that guarantees enough outputs is not a filter_map closure: length guarantee not decided", s.where())
                continue
            r.check(ok, "site/" + key[:150], "inv: " + why, "outputs[%s] in a pool worker is no longer protected by the selection's length test" % sig(s.operands[1]), s.where())
        elif verdict == "weights-capped":
            from rules.props import c05 as _c05
            capped = _c05._weigher_cap(prog, s.body, s.expr[2][3]) if s.expr is not None and s.expr[0] == "call" and len(s.expr[2]) > 3 else "weigher not found"
            r.check(capped is True, "site/" + key[:150], "inv: " + why, "Transaction::base_fee is called with uncapped covenant weights (%s): their sum can overflow" % capped, s.where())
        elif verdict == "totals-gate":
            from rules.props import c01 as _c01
            n0 = len([x for x in r.instances if x.verdict == "violation"]) if hasattr(r, "instances") else None
            _c01.totals_gate(ctx, r, "site/" + key[:150])
        elif verdict == "priced-pool":
            okp = _priced_pool_ok(s)
            if okp is None:
                r.undecided("site/" + key[:150], "use of a pool's price: guard not decided", s.where())
            else:
                r.check(okp, "site/" + key[:150], "inv: " + why, "%s uses the reserves of the ERG/SYM pool as a divisor with no test that they are non-zero: a pool pre-empted by a user before TIP-902 "
                        "and then emptied makes every later seal panic (%s)" % (s.body.nname.split("::")[-1], s.what), s.where())
        elif verdict == "guarded-withdraw":
            okw = _withdraw_guard_ok(s)
            r.check(okw, "site/" + key[:150], "inv: " + why, "PoolState::withdraw can be reached with more liquidity tokens than the pool has issued (its assertion aborts sealing): "
                    "the withdrawal step does not compare the batch total with the pool's recorded liquidity", s.where())
        elif verdict == "guarded-swap":
            ok = _swap_guard_ok(s)
            r.check(ok, "site/" + key[:150], "inv: " + why, "swap_many can be reached with an empty side (division by zero in PoolState::swap_many)", s.where())
        else:
            r.ok("site/" + key[:150], "%s: %s" % (verdict, why), s.where())
    ctx.extra["site_counts"] = counts
    ctx.extra["table_entries"] = len(TABLE)
    ctx.extra["table_entries_unused"] = [TABLE[i][0] for i in range(len(TABLE)) if i not in used]


def r2_recursion(ctx):
    r = ctx.rule("R2", "the only call-graph cycle among the workspace bodies is opcodes_weight ↔ opcodes_car_weight")
    prog = ctx.prog
    ids = [b.id for b in prog.bodies if b.kind != "Promoted"]
    sccs = c11._sccs(prog, ids)
    names = [sorted(prog.by_id[i].nname for i in c) for c in sccs]
    allowed = [["melvm::opcode::opcodes_car_weight", "melvm::opcode::opcodes_weight"]]
    other = [n for n in names if n not in allowed and not all("serde" in x or "Deserialize" in x or "Serialize" in x for x in n)]
    r.check(not other, "cycles", "no recursion besides the weight function", "new recursion cycle(s): %s" % other)
    r.check(allowed[0] in names, "weight-cycle", "the weight recursion is present (it terminates: the body handed down is a proper sub-slice, see C11.R6)", "the weight recursion changed shape: %s" % names)
    # Terminating is not enough for 'never a crash': the recursion goes one level down per Loop whose body holds the next Loop, so its DEPTH is bounded only by the
    # number of instructions of the covenant — which the sender chooses (a transaction has no size limit here).  A stack overflow is not a panic, the process aborts.
    # Necessary: the recursive functions carry a depth / budget (an integer parameter that the recursive call changes and a comparison stops on), or there is no recursion.
    if allowed[0] in names:
        fns = [prog.body(n) for n in allowed[0]]
        intparams = []
        for b in fns:
            if b is None:
                continue
            for i, pt in enumerate(mir.param_types(b) or []):
                if re.fullmatch(r"(u|i)(8|16|32|64|128|size)", pt.replace("&", "").replace("mut ", "").strip()):
                    intparams.append((b.nname.split("::")[-1], "$%d: %s" % (i + 1, pt)))
        if not intparams:
            b0 = prog.body("melvm::opcode::opcodes_car_weight")
            r.violation("weight-cycle/depth-unbounded", "opcodes_weight ↔ opcodes_car_weight recurse once per nested Loop and carry no depth bound (their only parameter is the "
                        "instruction slice): n consecutive `Loop(0, 0xffff)` (5n bytes) recurse n deep while being weighed — at n = 3000 the thread stack overflows and the "
                        "validator aborts, before any fee is looked at", "%s:%s" % (b0.file, b0.line) if b0 is not None else None)
        else:
            r.undecided("weight-cycle/depth-unbounded", "the weight recursion carries integer parameter(s) %s: whether they bound the depth is not decided" % intparams[:3])
    else:
        r.ok("weight-cycle/depth-unbounded", "the weight is not computed by recursion")


LOOP_TABLE = {
    # body → progress measure
    "melstf::state::melmint::microergs_per_dosc::{closure#0}": "table length grows by one per iteration up to height+1",
    "melvm::opcode::opcodes_weight": "`rest` shrinks by at least one opcode per iteration (opcodes_car_weight returns a proper suffix)",
    "melvm::Covenant::from_bytes": "decode consumes at least one byte or fails",
    "melvm::executor::Executor::run_to_end": "bounded by the weight argument of C11 (forward-only pc, counted loops)",
    "melvm::executor::Executor::update_pc_state": "pops one loop state per iteration",
    "melvm::executor::Executor::step::{closure#0}::{closure#4}": "e >>= 1 and the bit budget k decreases (C10.R7)",
    "melstf::state::melmint::<impl melpow::HashFunction for state::melmint::Tip910MelPowHash>::hash": "fixed 99 iterations (range)",
}


def r3_loops(ctx):
    r = ctx.rule("R3", "every natural loop is an iterator-driven loop or has a confirmed progress measure")
    prog = ctx.prog
    entries, bodies = _scope(prog)
    n = 0
    for b in bodies:
        for (h, blocks, latches) in b.loops():
            n += 1
            t = b.term(h)
            is_iter = False
            # the loop is driven by Iterator::next somewhere in its header chain
            for x in [h] + [s for s in b.succs(h)]:
                tx = b.term(x)
                if tx and tx["k"] == "call" and mir.callee_path(tx) in ("std::iter::Iterator::next", "std::iter::DoubleEndedIterator::next_back"):
                    is_iter = True
            for x in blocks:
                tx = b.term(x)
                if tx and tx["k"] == "call" and mir.callee_path(tx) == "std::iter::Iterator::next" and x in (h,) + tuple(b.succs(h)):
                    is_iter = True
            short = b.nname
            if is_iter:
                r.ok("for@%s#bb%d" % (short.split("::")[-1], 0), "iterator-driven loop in %s" % short, b.where(h))
            elif short in LOOP_TABLE or any(short.endswith(k.split("::", 1)[-1]) for k in LOOP_TABLE):
                r.ok("loop@" + short.split("melstf::state::")[-1], "progress: " + LOOP_TABLE.get(short, "confirmed"), b.where(h))
            else:
                r.undecided("loop@" + short.split("melstf::state::")[-1], "loop in %s without an iterator and without a confirmed progress measure" % short, b.where(h))
    r.floor("loops inspected", n, 20)


def shared(ctx):
    """termination of covenant execution and weighing (C11) is part of 'never fail to terminate'"""
    from rules.engine import core
    core.import_rules(ctx, [c11.r3_forward_pc, c11.r4_nesting, c11.r5_length_guards, c11.r6_linear_weighing], "X11")
    # the invariants quoted by the reviewed-site table are rules of other properties: a site discharged "because C01.R3 holds" is only
    # discharged while that rule holds, so those rules are re-evaluated here
    from rules.props import c01, c02, c07, c15, c16, c18, c20
    core.import_rules(ctx, [c01.r3_equality], "X01")
    core.import_rules(ctx, [c02.r2_input_resolution, c02.r4_output_construction], "X02")
    core.import_rules(ctx, [c07.r2_chain_step, c07.r4_key_agreement], "X07")
    core.import_rules(ctx, [c15.r1_selection_atoms], "X15")
    core.import_rules(ctx, [c16.r1_builtins_first, c16.r2_create_builtins, c16.r3_no_deletion], "X16")
    core.import_rules(ctx, [c18.r1_gate_chain], "X18")
    core.import_rules(ctx, [c20.r1_protocol, c20.r2_confinement, c20.r3_flag_provenance, c20.r4_activation], "X20")
    from rules.props import c06
    core.import_rules(ctx, [c06.r5_activation_table], "X06")          # ERG/SYM exists where it is unwrapped because creation and use ask the same predicate (tip_902)


def r4_value_nesting(ctx):
    """Recursion that the call graph of the workspace does not show: the drop glue of a recursive data type.  `Value::Vector(CatVec<Value>)` nests without a
    bound — VPush / VCons wrap the value on the stack into a new vector at a cost of 10 weight units per level — and dropping an n-deep value recurses n
    levels deep (catvec's and the compiler's drop glue).  A stack overflow is not a panic: the process aborts (SIGABRT), nothing can catch it.  Necessary for
    'never a crash': the nesting depth of a Value is bounded by a check in the interpreter, or Value drops its contents iteratively (a `Drop` impl in the
    interpreter crate).  Neither exists today (D25)."""
    r = ctx.rule("R4", "a MelVM value cannot nest deeper than the stack can unwind: depth bounded by a check, or dropped iteratively", positional=False)
    adt = ctx.prog.adts.get("melvm::value::Value") or ctx.prog.adts.get("melvm::Value")
    if not adt:
        r.undecided("value-nesting", "ADT melvm::Value not found")
        return
    rec = [v["name"] for v in adt["variants"] for f in v["fields"] if "Value" in f["ty"].replace("melvm::", "")]
    if not rec:
        r.ok("value-nesting/type", "Value is not a recursive type any more")
        return
    drops = [b for b in ctx.prog.bodies if b.crate == "melvm" and "Value as std::ops::Drop>::drop" in b.nname]
    st = ctx.prog.body("melvm::executor::Executor::step")
    guards = []
    if st is not None:
        for c in ctx.prog.all_nested(st):
            guards += [cn for e, cn, bi in q.cmp_atoms(c) if "depth" in cn.lower() or "nesting" in cn.lower()]
    if drops:
        r.ok("value-nesting/iterative-drop", "Value has its own Drop (%s)" % drops[0].nname)
    elif guards:
        r.undecided("value-nesting", "the interpreter compares something called depth/nesting (%s): whether it bounds the nesting of values is not decided" % guards[:2])
    else:
        r.violation("value-nesting/unbounded", "Value::%s holds Values, nothing bounds how deep they nest (no depth check in Executor::step) and Value has no iterative Drop: "
                    "`VEmpty; Loop(n,2); VEmpty; VPush` (8 bytes, weight 14n+19) builds an n-deep vector whose drop overflows the stack — the validator process aborts" % "/".join(rec),
                    "%s:%s" % (st.file, st.line) if st is not None else None)


def r5_append_length(ctx):
    """The other unbounded growth: BAppend / VAppend concatenate lazily (catvec keeps a tree of chunks), so `Dup; BAppend` doubles a byte string at a constant
    cost of weight; after 64 doublings its length no longer fits in usize and catvec's length bookkeeping overflows — a panic with overflow checks, a wrapped
    length without (D32).  Necessary: an append is guarded by a bound on the resulting length.  None exists today."""
    r = ctx.rule("R5", "a MelVM append (BAppend / VAppend) is guarded by a bound on the resulting length", positional=False)
    st = ctx.prog.body("melvm::executor::Executor::step")
    if st is None:
        r.undecided("append-length", "Executor::step not found")
        return
    sites = []
    for c in ctx.prog.all_nested(st):
        for bi, e in q.all_call_exprs(c):
            if e[0] == "call" and e[1].split("::")[-1] == "append" and "CatVec" in e[1]:
                guards = [cn for e_, cn, b_ in q.cmp_atoms(c) if "len(" in cn and ("Lt(" in cn or "Le(" in cn or "Gt(" in cn or "Ge(" in cn)]
                sites.append((c, bi, guards))
    if not sites:
        r.undecided("append-length", "no CatVec::append in the interpreter")
        return
    r.floor("append sites", len(sites), 2)
    bad = [(c, bi) for c, bi, g in sites if not g]
    if bad:
        r.violation("append-length/unbounded", "%d of %d CatVec::append sites in Executor::step have no length test: `PushB [1]; Loop(70,2){Dup; BAppend}` (10 bytes, weight 996) "
                    "doubles a byte string 70 times and overflows catvec's length arithmetic — the validator panics (overflow checks) or carries a wrapped length" % (len(bad), len(sites)), bad[0][0].where(bad[0][1]))
    else:
        r.undecided("append-length", "the appends are preceded by length comparisons: whether they bound the result is not decided")


RULES = [r1_inventory, r2_recursion, r3_loops, r4_value_nesting, r5_append_length, shared]


def thorough_extra(ctx):
    """E5: clippy's restriction lints as a completeness cross-check of the K8 extractor (no verdict of its own)"""
    from rules.engine import thorough
    prog = ctx.prog
    entries, bodies = _scope(prog)
    # the cross-check compares against *all* bodies of the analysed files, reachable or not
    allb = [b for b in prog.bodies if b.kind != "Promoted"]
    sites = panics.inventory(prog, allb)
    res = thorough.clippy_crosscheck(prog, sites)
    ctx.extra["clippy_crosscheck"] = res
    r = ctx.rule("E5", "completeness cross-check: every clippy unwrap_used/expect_used/indexing_slicing/panic site in the analysed files is a site of the K8 inventory")
    if res["rc"] != 0 and res["clippy_sites"] == 0:
        r.undecided("clippy", "cargo clippy did not run")
    elif res["n_gaps"]:
        r.undecided("gaps", "%d clippy sites are not in the inventory (extractor gap?): %s" % (res["n_gaps"], res["gaps"][:8]))
    else:
        r.ok("complete", "%d clippy sites in scope, all known to the inventory" % res["in_scope"])
    print("  thorough/E5: clippy %d sites (%d in scope), %d not in the K8 inventory" % (res["clippy_sites"], res["in_scope"], res["n_gaps"]))
