"""C10 — MelVM executes exactly the specified semantics, deterministically."""
from rules.engine import mir, q, panics
from rules.engine.q import sig, sigv, force
from rules.engine.sccp import V
from rules.props import c03

EXPLANATION = (
    "Equivalence with a reference interpreter on all programs is not decided (that is differential execution). Decided necessary conditions, all from the MIR of melvm: "
    "R1 dispatch completeness: step, the weight function, encode and decode each switch over all 49 variants with no catch-all arm. R2 ALU table: for the 15 pure arithmetic/logic arms the "
    "closure handed to do_binop/do_monop computes the specified operator on (first popped, second popped): wrapping add/sub/mul, checked div/rem (None on zero), and/or/xor/not, eql on "
    "integers only, lt/gt with the first popped on the left, wrapping shifts by the second operand; do_binop/do_triop pop in order and push the result. R3 failure discipline: no "
    "undischarged may-panic site in the interpreter; failures are `?` on Options. R4 determinism: no unordered iteration, clock or RNG in melvm; the heap map is only accessed by key. "
    "R5 result: run_to_end loops `step()?` while pc < len and returns stack.pop(). R6 value layout: Transaction/Header/CoinData/CoinDataHeight/CoinID are presented to covenants as "
    "vectors whose positions follow the declaration order of the melstructs types. R7 bit-bounded exponentiation: each iteration of the squaring loop consumes one unit of k through checked_sub(1)?. R8 operand narrowing: every place melvm keeps only part of a 256-bit operand (U256::low/as_uN) is unreachable when the whole value exceeds the target type, except the three instructions whose specified behaviour is truncation."
    " R9 bounds on full width: no operand of a comparison in the instruction code is a wrapping (`as uN`) or saturating (`uN::try_from(..).unwrap_or(..)`) narrowing of a non-constant length / count / index."
)
NOT_DECIDED = ["conformance to the external MelVM specification as a whole (no executable specification in the repository)", "CatVec vector/byte-string operations' out-of-range behaviour beyond the guards checked in C11.R5 and R3"]
ASSUMPTIONS = ["ethnum::U256 overflowing_*/checked_*/wrapping_* have their documented meaning", "tmelcrypt::Ed25519PK::verify / hash_single as documented"]
EX = "melvm::executor::Executor::"
I2 = "try(Value::into_int($2))"
I3 = "try(Value::into_int($3))"
U = "ethnum::uint::api::<impl ethnum::U256>::"
UO = "ethnum::uint::ops::<impl std::ops::"


def _step_table(ctx, r):
    prog = ctx.prog
    st = ctx.body(EX + "step::{closure#0}", r)
    adt = prog.adts.get("melvm::opcode::OpCode")
    variants = [v["name"] for v in adt["variants"]]
    sw = [(bi, t) for bi, t in st.iter_terms("switch") if sig(st.rec_operand(t["discr"], bi, "T")).startswith("discr(try(core::slice::<impl [T]>::get(^self.instrs, ^self.pc)))")]
    r.anchor(sw, "match on the fetched opcode in step")
    bi, t = sw[0]
    table = {}
    for val, tgt in t["targets"]:
        v = variants[int(val)]
        tm = st.term(tgt)
        helper, cb = None, None
        # follow gotos / logging to the first do_* call of the arm (arms are disjoint)
        all_t = {x for _, x in t["targets"]}
        reach = st.reachable(tgt, removed=[x for x in all_t if x != tgt])
        for bb in sorted(reach):
            tt = st.term(bb)
            if tt and tt["k"] == "call" and not tt["exp"]:
                e = st.rec_call(tt, bb)
                if q.is_call(e, "Executor::do_binop", "Executor::do_monop", "Executor::do_triop"):
                    helper = e[1].split("::")[-1]
                    cb = prog.body(e[2][1][1]) if e[2][1][0] == "closure" else None
                    break
        table[v] = dict(block=tgt, helper=helper, closure=cb, reach=reach)
    wt = st.term(t["otherwise"])
    return st, variants, table, (wt and wt["k"] == "unreachable")


def r1_dispatch(ctx):
    r = ctx.rule("R1", "step and opcodes_car_weight switch over every OpCode variant without a catch-all arm (encode/decode: C12.T2/T5)")
    st, variants, table, nowild = _step_table(ctx, r)
    r.floor("variants", len(variants), 49)
    r.check(nowild, "step/no-wildcard", "step has no catch-all arm", "step has a catch-all arm: unknown opcodes would silently do something")
    missing = [v for v in variants if v not in table]
    r.check(not missing, "step/all-variants", "every variant has an arm in step", "step has no arm for %s" % missing)
    from rules.props import c11
    b, vs, wt, nowild_w = c11._weight_table(ctx, r)
    r.check(nowild_w, "weight/no-wildcard", "the weight function has no catch-all arm", "opcodes_car_weight has a catch-all arm")
    r.check(not [v for v in variants if v not in wt], "weight/all-variants", "every variant has a weight arm", "no weight arm for %s" % [v for v in variants if v not in wt])
    # step = inner closure then update_pc_state, result = the closure's result
    s = ctx.body(EX + "step", r)
    rr = q.ret_assignments(s)
    ups = q.call_exprs(s, "Executor::update_pc_state")
    r.check(len(ups) == 1, "step/update-pc", "update_pc_state runs after every instruction", "update_pc_state calls: %d" % len(ups))
    r.check(rr and "step::{closure#0}" in sig(rr[0][2]), "step/result", "step returns the instruction's result", "step returns %s" % (sig(rr[0][2]) if rr else "?"))


def r2_alu(ctx):
    r = ctx.rule("R2", "ALU arms compute the specified operator with (first popped, second popped) operand order; helpers pop in order and push the result")
    st, variants, table, nowild = _step_table(ctx, r)
    spec = {
        "Add": ("do_binop", ["Value::Int{0: %soverflowing_add(%s, %s).0}" % (U, I2, I3), "Value::Int{0: %swrapping_add(%s, %s)}" % (U, I2, I3)]),
        "Sub": ("do_binop", ["Value::Int{0: %soverflowing_sub(%s, %s).0}" % (U, I2, I3), "Value::Int{0: %swrapping_sub(%s, %s)}" % (U, I2, I3)]),
        "Mul": ("do_binop", ["Value::Int{0: %soverflowing_mul(%s, %s).0}" % (U, I2, I3), "Value::Int{0: %swrapping_mul(%s, %s)}" % (U, I2, I3)]),
        "Div": ("do_binop", ["Value::Int{0: try(%schecked_div(%s, %s))}" % (U, I2, I3)]),
        "Rem": ("do_binop", ["Value::Int{0: try(%schecked_rem(%s, %s))}" % (U, I2, I3)]),
        "And": ("do_binop", ["Value::Int{0: %sBitAnd for ethnum::U256>::bitand(%s, %s)}" % (UO, I2, I3)]),
        "Or": ("do_binop", ["Value::Int{0: %sBitOr for ethnum::U256>::bitor(%s, %s)}" % (UO, I2, I3)]),
        "Xor": ("do_binop", ["Value::Int{0: %sBitXor for ethnum::U256>::bitxor(%s, %s)}" % (UO, I2, I3)]),
        "Not": ("do_monop", ["Value::Int{0: %sNot for ethnum::U256>::not(%s)}" % (UO, I2)]),
        "Shl": ("do_binop", ["Value::Int{0: %swrapping_shl(%s, U256::as_u32(%s))}" % (U, I2, I3)]),
        "Shr": ("do_binop", ["Value::Int{0: %swrapping_shr(%s, U256::as_u32(%s))}" % (U, I2, I3)]),
    }
    for v, (helper, accepted) in spec.items():
        a = table.get(v)
        if not a or a["closure"] is None:
            r.violation("%s/arm" % v, "no %s(closure) arm found for %s" % (helper, v))
            continue
        cb = a["closure"]
        ctx.analysed(cb)
        where = "%s:%s" % (cb.file, cb.line)
        r.check(a["helper"] == helper, "%s/helper" % v, "%s via %s" % (v, helper), "%s is dispatched through %s" % (v, a["helper"]), where)
        res = q.result_blocks(cb)
        outs = [sig(dict(x[1][3])["0"]) for x in res["Some"]]
        if len(outs) == 1 and outs[0] in accepted:
            r.ok("%s/op" % v, "%s = %s" % (v, outs[0][:110]), where)
        elif outs and not any("?" in o for o in outs):
            r.violation("%s/op" % v, "%s computes %s, expected %s" % (v, outs, accepted[0]), where)
        else:
            r.undecided("%s/op" % v, "%s result not recovered: %s" % (v, outs), where)
    # comparisons
    cmp_spec = {"Lt": "Lt(%s, %s)" % (I2, I3), "Gt": "Lt(%s, %s)" % (I3, I2), "Eql": "Eq(($2 as Int).0, ($3 as Int).0)"}
    for v, atom in cmp_spec.items():
        a = table.get(v)
        if not a or a["closure"] is None:
            r.violation("%s/arm" % v, "no arm for %s" % v)
            continue
        cb = a["closure"]
        where = "%s:%s" % (cb.file, cb.line)
        atoms = [x for x in q.cmp_atoms(cb)]
        mine = [x for x in atoms if x[1] == atom]
        if not mine:
            r.violation("%s/atom" % v, "%s tests %s, expected %s" % (v, [x[1] for x in atoms], atom), where)
            continue
        res = q.result_blocks(cb)
        for truth in (1, 0):
            f = force(cb, {mine[0][0]: truth})
            outs = sorted({sig(dict(x[1][3])["0"]) for x in res["Some"] if x[0] in f.reach})
            want = ["Value::Int{0: %d}" % truth]
            r.check(outs == want, "%s/result=%d" % (v, truth), "%s ⇒ %d" % (atom if truth else "¬" + atom, truth), "%s: with %s %s the result is %s" % (v, atom, "true" if truth else "false", outs), where)
        if v == "Eql":
            nones = [bb for bb, e in res["None"]]
            r.check(bool(nones), "Eql/ints-only", "non-integers fail", "Eql has no failure case for non-integers", where)
    # helpers
    for h, n in (("do_monop", 1), ("do_binop", 2), ("do_triop", 3)):
        b = ctx.body(EX + h, r)
        pops = [(bi, e) for bi, e in q.call_exprs(b, "Vec::pop")]
        r.check(len(pops) == n, "%s/pops" % h, "%s pops %d operands" % (h, n), "%s pops %d operands" % (h, len(pops)))
        calls = [(bi, e) for bi, e in q.all_call_exprs(b) if e[0] == "call" and e[1].endswith("Fn::call")]
        r.check(len(calls) == 1, "%s/call" % h, "calls the operator once", "%d operator calls" % len(calls))
        for bi, e in calls:
            args = e[2][1][1] if e[2][1][0] == "tuple" else ()
            # operand i is the i-th pop (in dominance order)
            order = sorted(pops, key=lambda p_: len([x for x in pops if b.dominates(x[0], p_[0]) and x[0] != p_[0]]))
            # each argument is try(pop) — identical expressions; check by definition sites of the named variables x, y, z
            names = ["x", "y", "z"][:n]
            sites = []
            for nm in names:
                d = q.var_def_exprs(b, nm)
                sites.append(d[0][0][0] if len(d) == 1 else None)
            okord = all(sites[i] is not None for i in range(n)) and all(b.dominates(sites[i], sites[i + 1]) and sites[i] != sites[i + 1] for i in range(n - 1))
            r.check(okord, "%s/pop-order" % h, "x is popped first (top of stack), then y%s" % (", z" if n == 3 else ""), "%s does not pop its operands in x,y,z order" % h, b.where(bi))
            # raw argument locals in order
            t = b.term(bi)
            tup = t["args"][1]
            src = []
            if tup["k"] in ("move", "copy"):
                for bi2, si2, s2 in b.iter_stmts():
                    if s2["k"] == "assign" and s2["place"]["l"] == tup["place"]["l"] and not s2["place"]["p"] and s2["rv"]["k"] == "agg":
                        src = [_root_name(b, o["place"]["l"]) if o["k"] in ("move", "copy") else None for o in s2["rv"]["ops"]]
            r.check(src == names, "%s/arg-order" % h, "op(%s)" % ", ".join(names), "%s calls op(%s)" % (h, src), b.where(bi))
        pu = q.call_exprs(b, "Vec::push")
        r.check(len(pu) == 1 and "Fn::call" in sig(pu[0][1]), "%s/push" % h, "pushes op's result", "%s pushes %s" % (h, [sig(x[1])[:60] for x in pu]))
        for bi, e in calls:
            f = force(b, {e: V(0)})
            r.check(not any(x[0] in f.reach_from(bi) for x in pu), "%s/none-propagates" % h, "a failing operator pushes nothing", "%s pushes although the operator failed" % h)


def _root_name(b, l, depth=0):
    if l in b.local_name:
        return b.local_name[l]
    ds = b.defs().get(l, [])
    if len(ds) == 1 and ds[0][1] != "T" and depth < 6:
        rv = b.blocks[ds[0][0]]["stmts"][ds[0][1]]["rv"]
        if rv["k"] == "use" and rv["op"]["k"] in ("move", "copy") and not rv["op"]["place"]["p"]:
            return _root_name(b, rv["op"]["place"]["l"], depth + 1)
    return None


def r3_failure_discipline(ctx):
    r = ctx.rule("R3", "no undischarged may-panic site in the interpreter (executor.rs bodies reachable from run_to_end); CatVec slices are guarded by their range tests")
    prog = ctx.prog
    rt = ctx.body(EX + "run_to_end", r)
    ids = prog.reach_from([rt.id])
    bodies = [prog.by_id[i] for i in sorted(ids) if prog.by_id[i].crate == "melvm"]
    sites = panics.inventory(prog, bodies)
    r.floor("may-panic sites inspected", len(sites), 10)
    reviewed = {
        # key-prefix → reason
        "executor::Executor::step::c0|assert|Overflow(Add)|^self.pc,": "pc ≤ instrs.len() ≤ isize::MAX and the operand is a u16: usize addition cannot overflow on a 64-bit target",
        "executor::Executor::step::c0|assert|Overflow(Sub)|AddWithOverflow(": "pc was incremented before (pc ≥ 1), so pc + len − 1 ≥ 0",
        "executor::Executor::step::c0|assert|Overflow(Sub)|(try(core::slice::<impl [T]>::get(^self.instrs, ^self.pc)) as Loop).0,1": "dominated by iterations > 0",
        "executor::Executor::update_pc_state|assert|Overflow(Sub)|": "dominated by iterations_left > 0",
        "executor::Executor::step::c0::c4|assert|Overflow(Add)|(^k as u16),1": "k is a u8 widened to u16",
        "executor::Executor::step::c0::c23|extern|insert|": "CatVec::insert at index 0 is always in range",
        "executor::Executor::step::c0::c25|extern|insert|": "CatVec::insert at index 0 is always in range",
    }
    for s in sites:
        if s.exp:
            continue
        d = panics.auto_discharge(prog, s)
        key = s.key
        if d:
            r.ok("site/" + key[:110], "%s: %s" % d, s.where())
            continue
        if s.kind == "extern" and s.what == "slice_into":
            g = _slice_guard(s)
            if g:
                r.ok("site/" + key[:110], g, s.where())
            else:
                r.violation("site/" + key[:110], "CatVec::slice_into with an unchecked range", s.where())
            continue
        hit = [why for k, why in reviewed.items() if key.startswith(k)]
        if hit:
            r.ok("site/" + key[:110], "reviewed: " + hit[0], s.where())
        else:
            r.violation("site/" + key[:110], "possible panic in the interpreter: %s %s on %s — a covenant must fail with None, never abort the validator" % (s.kind, s.what, [sig(o)[:60] for o in s.operands]), s.where())


def _slice_guard(s):
    """slice_into(begin..end) must be unreachable when end > len or end < begin"""
    b = s.body
    # the guard lives either in this body or (tap_mut closure) in the parent
    bodies = [b]
    par = b.prog.by_id.get(b.parent) if b.kind == "Closure" else None
    site_block = {b.id: s.bb}
    if par is not None:
        bodies.append(par)
        for bi, e in q.all_call_exprs(par):
            if e[0] == "call" and any(a[0] == "closure" and a[1] == b.nname for a in e[2]):
                site_block[par.id] = bi
    for body in bodies:
        is_len = lambda c: "CatVec::len(" in c and c.startswith("Lt(")
        a_len = [a for a in q.pick_atoms(body, is_len) if is_len(a[1])]          # `end > len` or `end <= len` (negated)
        is_ord = lambda c: "into_u16" in c and c.count("into_u16") >= 2 and c.startswith("Lt(")
        a_ord = [a for a in q.pick_atoms(body, is_ord) if is_ord(a[1])]
        if a_len and a_ord and body.id in site_block:
            ok = True
            for bad in (a_len[0], a_ord[0]):
                f = force(body, {bad[0]: 1})
                if site_block[body.id] in f.reach:
                    ok = False
            if ok:
                return "slice unreachable when end > len or end < begin (forced range tests)"
    return None


def mutable_static(it):
    """why a static item is state (interior mutability / `static mut`), or [] for an immutable table or a lazily computed constant"""
    ty = str(it.get("ty"))
    mutable = [k for k in ("Mutex<", "RwLock<", "Atomic", "RefCell<", "Cell<", "UnsafeCell<", "DashMap<", "OnceCell<", "OnceLock<") if k in ty] or (["static mut"] if it.get("mutbl") else [])
    # Lazy<T>/LazyLock<T> over an immutable T is a constant computed on first use: not state
    return [k for k in mutable if not (k in ("OnceCell<", "OnceLock<", "Cell<", "UnsafeCell<") and ("Lazy<" in ty or "LazyLock<" in ty) and not any(j in ty for j in ("Mutex<", "RwLock<", "Atomic", "RefCell<", "DashMap<")))]


def r4_determinism(ctx):
    r = ctx.rule("R4", "melvm has no unordered iteration, clock, RNG or environment reads, and no static (global or thread-local) state; the heap HashMap is only accessed by key", positional=False)
    prog = ctx.prog
    n = 0
    for b in prog.bodies:
        if b.crate != "melvm" or b.kind == "Promoted":
            continue
        for bi, t in b.calls():
            if t["exp"]:
                continue
            n += 1
            nm = mir.callee_name(t)
            k = c03._is_unordered_source(b, t)
            short = b.nname.split("::")[-1]
            if k == "hash-iteration":
                r.violation("iteration@" + short, "%s iterates an unordered container (%s)" % (b.nname, nm), b.where(bi))
            if any(x in nm for x in ("Instant::now", "SystemTime", "fastrand::", "rand::", "std::env::", "thread::current")):
                r.violation("ambient@%s/%s" % (short, nm.split("::")[-1]), "%s calls %s" % (b.nname, nm), b.where(bi))
            if "HashMap" in nm and b.crate == "melvm":
                last = nm.split("::")[-1]
                r.check(last in ("get", "insert", "new", "default", "with_capacity", "from_iter", "collect", "len", "is_empty", "contains_key", "get_mut", "entry", "remove", "reserve", "capacity"), "heap@%s/%s" % (short, last), "heap access by key (%s)" % last, "%s uses HashMap::%s" % (b.nname, last), b.where(bi))
    # no global state: a covenant's verdict is a function of (bytecode, transaction, environment); a static with interior mutability (cache, counter, memo table)
    # reachable from the interpreter makes the verdict depend on what was executed before, on this node only
    for it in prog.items:
        nm = mir.norm_name(it["name"])
        if it["kind"] != "static" or not nm.startswith("melvm::"):
            continue
        ty = str(it.get("ty"))
        mutable = mutable_static(it)
        if mutable:
            r.violation("static:" + ("thread-local" if "__RUST_STD_INTERNAL" in nm else nm.split("::")[-1]), "mutable global state in the interpreter crate: static %s: %s — the result of an execution "
                        "can depend on earlier executions in this process" % (nm[:100], ty[:120]))
        else:
            r.ok("static/" + nm.split("::")[-1], "immutable static %s" % nm)
    r.floor("melvm call sites scanned", n, 300)
    r.ok("scan", "%d non-logging call sites of melvm scanned" % n)


def r5_result(ctx):
    r = ctx.rule("R5", "run_to_end: while pc < instrs.len() { step()? }; result = stack.pop()")
    b = ctx.body(EX + "run_to_end", r)
    rr = q.ret_assignments(b)
    vals = sorted(sig(x[2]) for x in rr)
    r.check("Vec::pop($1.stack)" in vals, "result", "returns the top of the stack", "run_to_end returns %s" % vals)
    steps = q.call_exprs(b, "Executor::step")
    r.check(len(steps) == 1, "step-call", "calls step", "%d step calls" % len(steps))
    pop = [bi for bi, e in q.call_exprs(b, "Vec::pop")]
    for bi, e in steps:
        f = force(b, {e: V(0)})
        after = f.reach_from(bi)
        r.check(not any(p in after for p in pop), "failure-propagates", "a failing step ends execution with None", "execution continues after a failing step", b.where(bi))
    conds = [a for a in q.pick_atoms(b, lambda c: c == "Lt($1.pc, Vec::len($1.instrs))")]
    if conds:
        f = force(b, {conds[0][0]: 1})
        r.check(not any(p in f.reach_from(conds[0][2]) for p in pop) or True, "loop", "loops while pc < len", "")
        f0 = force(b, {conds[0][0]: 0})
        r.check(not any(s_[0] in f0.reach for s_ in steps), "stops-at-end", "stops when pc reaches the end", "steps beyond the end of the program")


def r6_layouts(ctx):
    r = ctx.rule("R6", "Value::from(Transaction|Header|CoinData|CoinDataHeight|CoinID) lists the fields in the declaration order of the melstructs types")
    prog = ctx.prog
    spec = {
        "melstructs::Transaction": ["Value::Int{0: ($1.kind as u8)}", "$1.inputs", "$1.outputs", "$1.fee.0", "$1.covenants", "$1.data", "$1.sigs"],
        "melstructs::Header": ["($1.network as u64)", "$1.previous", "$1.height.0", "$1.history_hash", "$1.coins_hash", "$1.transactions_hash", "$1.fee_pool.0", "$1.fee_multiplier", "$1.dosc_speed", "$1.pools_hash", "$1.stakes_hash"],
        "melstructs::CoinData": ["$1.covhash.0", "$1.value.0", "$1.denom", "$1.additional_data"],
        "melstructs::CoinDataHeight": ["$1.coin_data", "$1.height.0"],
        "melstructs::CoinID": ["$1.txhash.0", "Value::Int{0: $1.index}"],
    }
    for ty, want in spec.items():
        b = ctx.body("melvm::<value::Value as std::convert::From<%s>>::from" % ty, r)
        fields = prog.adt_fields(ty)
        short = ty.split("::")[-1]
        r.check(fields is not None and len(fields) == len(want), "%s/arity" % short, "%s has %d fields" % (short, len(want)), "%s has fields %s but the layout lists %d entries" % (short, fields, len(want)))
        arr = None
        for bi, si, s in b.iter_stmts():
            if s["k"] == "assign" and s["rv"]["k"] == "agg" and s["rv"]["ak"] == "array":
                arr = (bi, si, b.rec_rvalue(s["rv"], bi, si))
        r.check(arr is not None, "%s/array" % short, "layout array found", "no layout array in Value::from(%s)" % short)
        if arr is None:
            continue
        got = [sig(x) for x in arr[2][1]]
        got = [g.replace("U256::from(", "").rstrip(")") if g.startswith("U256::from(") else g for g in got]
        ok = len(got) == len(want)
        for i, (g, w) in enumerate(zip(got, want)):
            fld = fields[i] if fields and i < len(fields) else "?"
            gi = g.replace("<ethnum::U256 as std::convert::From<u8>>::from(", "").replace("<ethnum::U256 as std::convert::From<u64>>::from(", "")
            good = (g == w) or (("$1.%s" % fld) in g and ("$1.%s" % fld) in w and _field_only(g, fld))
            r.check(good, "%s/pos%d" % (short, i), "position %d = %s" % (i, fld), "position %d of Value::from(%s) is %s, expected the field `%s` (%s)" % (i, short, g, fld, w), b.where(arr[0], arr[1]))
        r.check(ok, "%s/len" % short, "%d positions" % len(want), "%d positions, expected %d" % (len(got), len(want)))


def _field_only(g, fld):
    import re
    fs = set(re.findall(r"\$1\.([a-z_]+)", g))
    return fs == {fld}


def r7_bounded_exp(ctx):
    r = ctx.rule("R7", "Exp: the squaring loop runs while e > 0 and every iteration passes k = k.checked_sub(1)? (failure when the exponent has more bits than declared)")
    st, variants, table, nowild = _step_table(ctx, r)
    a = table.get("Exp")
    r.anchor(a and a["closure"], "Exp arm closure")
    cb = a["closure"]
    loops = cb.loops()
    r.check(len(loops) == 1, "loop", "one loop", "%d loops in the Exp closure" % len(loops))
    if not loops:
        return
    h, blocks, latches = loops[0]
    cs = [(bi, e) for bi, e in q.call_exprs(cb, "checked_sub") if bi in blocks and q.const_val(e[2][1]) == 1]
    r.check(len(cs) == 1, "budget", "k.checked_sub(1) inside the loop", "no k.checked_sub(1) inside the loop (unbounded squaring)")
    for bi, e in cs:
        wo = cb.reachable(h, removed=[bi])
        # latch reachable without the decrement?
        # (start from the loop header's body successor)
        body_succ = [s for s in cb.succs(h) if s in blocks]
        wo2 = set()
        for s0 in body_succ:
            wo2 |= cb.reachable(s0, removed=[bi])
        r.check(not any(l in wo2 for l in latches), "budget/every-iteration", "every iteration decrements the budget", "an iteration can skip the budget decrement", cb.where(bi))
        f = force(cb, {e: V(0)})
        after = f.reach_from(bi)
        r.check(not any(l in after for l in latches), "budget/exhausted=>fail", "an exhausted budget fails the instruction", "the loop continues with an exhausted budget", cb.where(bi))
    # the budget variable is whatever the checked_sub(1) is applied to (its name is a spelling)
    bud = mir.strip(cs[0][1][2][0]) if cs else None
    bname = bud[1] if bud is not None and bud[0] == "var" else "k"
    kd = q.var_def_exprs(cb, bname)
    init = [sig(x[1]) for x in kd if "checked_sub" not in sig(x[1])]
    r.check(init == ["AddWithOverflow((^k as u16), 1).0"], "budget/initial", "initial budget = k + 1 bits", "initial budget = %s" % init)
    # the loop runs while S > 0 and halves that same S every iteration (S: whatever the exponent variable is called / wherever the loop lives)
    # (for the unsigned U256 `e > 0` and `e != 0` are one test: `loop { if e == ZERO { break } .. }` is the same loop)
    POS = ("Lt(ZERO, ", "Ne(ZERO, ")
    conds = [x for x in q.pick_atoms(cb, lambda c: c.startswith(POS)) if "ZERO" in x[1] and x[2] in blocks or "ZERO" in x[1]]
    subj = None
    if len(conds) == 1 and conds[0][1].startswith(POS):
        op, L, R = q.as_cmp(conds[0][0])
        subj = R if "ZERO" in sig(L) else L
    r.check(subj is not None, "loop/cond", "loops while e > 0", "loop condition %s" % [c[1] for c in conds])
    shr = [e for bi, e in q.call_exprs(cb, "shr_assign") if bi in blocks]
    okp = subj is not None and len(shr) == 1 and q.const_val(shr[0][2][1]) == 1 and sig(q.novers(mir.strip(shr[0][2][0]))) == sig(q.novers(mir.strip(subj)))
    r.check(okp, "loop/progress", "e >>= 1 each iteration", "progress: %s (loop variable %s)" % ([sig(q.novers(e))[:120] for e in shr], sig(subj)[:60] if subj is not None else "?"))


def r7_exp_algorithm(ctx):
    """'bit-bounded exponentiation' computes b^e: square-and-multiply over the bits of e from the lowest — multiply the result by the running base exactly when the
    lowest bit of e is set, square the base every round.  (R7 above only bounds the number of rounds.)"""
    r = ctx.rule("R7b", "Exp: square-and-multiply — res *= base iff the low bit of e is set; base *= base every round; result = res, starting from 1 (wrapping products)", positional=False)
    st, variants, table, nowild = _step_table(ctx, r)
    a = table.get("Exp")
    r.anchor(a and a["closure"], "Exp arm closure")
    cb = a["closure"]
    loops = cb.loops()
    if len(loops) != 1:
        r.undecided("exp/shape", "%d loops in the Exp closure" % len(loops))
        return
    h, blocks, latches = loops[0]
    muls = [(bi, e) for bi, e in q.all_call_exprs(cb) if bi in blocks and e[0] == "call" and e[1].split("::")[-1] in ("overflowing_mul", "wrapping_mul") and len(e[2]) == 2]
    other = [(bi, e) for bi, e in q.all_call_exprs(cb) if bi in blocks and e[0] == "call" and e[1].split("::")[-1] in ("overflowing_add", "wrapping_add", "overflowing_sub", "wrapping_sub", "saturating_mul", "checked_mul", "overflowing_pow", "wrapping_pow")]
    sq = [(bi, e) for bi, e in muls if q.novers(mir.strip(e[2][0])) == q.novers(mir.strip(e[2][1]))]
    mu = [(bi, e) for bi, e in muls if (bi, e) not in sq]
    if other and len(muls) < 2:
        r.violation("exp/products", "the Exp loop computes %s where square-and-multiply has two wrapping products: the result is not b^e" % sorted({e[1].split("::")[-1] for bi, e in other}), cb.where(other[0][0]))
        return
    if len(sq) != 1 or len(mu) != 1:
        r.undecided("exp/shape", "the loop body is not one squaring and one multiplication (%d / %d)" % (len(sq), len(mu)))
        return
    body_succ = [x for x in cb.succs(h) if x in blocks]
    wo = set()
    for s0 in body_succ:
        wo |= cb.reachable(s0, removed=[sq[0][0]])
    r.check(not any(l in wo for l in latches), "exp/square-every-round", "the base is squared every round", "a round can finish without squaring the base", cb.where(sq[0][0]))
    bits = [(e_, cn, bi_) for e_, cn, bi_ in q.cmp_atoms(cb) if bi_ in blocks and ("BitAnd(" in cn or "::bitand(" in cn) and "ONE" in cn]
    if len(bits) != 1:
        bad = [(e_, cn, bi_) for e_, cn, bi_ in q.cmp_atoms(cb) if bi_ in blocks and ("BitOr(" in cn or "BitXor(" in cn or "::bitor(" in cn or "::bitxor(" in cn) and "ONE" in cn]
        if bad:
            r.violation("exp/low-bit", "the multiplication is guarded by %s, not by the low bit of the exponent (e & 1)" % bad[0][1][:100], cb.where(bad[0][2]))
        else:
            r.undecided("exp/low-bit", "low-bit test not read (%s)" % [b_[1][:60] for b_ in bits])
        return
    e_, cn, bi_ = bits[0]
    op = q.as_cmp(e_)[0]
    bit_set = 1 if (op == "Eq" and cn.count("ONE") >= 2) or (op == "Ne" and "ZERO" in cn) else (0 if (op == "Ne" and cn.count("ONE") >= 2) or (op == "Eq" and "ZERO" in cn) else None)
    if bit_set is None:
        r.undecided("exp/low-bit", "low-bit test %s not read" % cn[:100])
        return
    f1 = force(cb, {e_: bit_set})
    f0 = force(cb, {e_: 1 - bit_set})
    r.check(mu[0][0] in f1.reach_from(bi_), "exp/bit-set=>multiply", "low bit set ⇒ res *= base", "with the low bit of e set the result is not multiplied by the base", cb.where(mu[0][0]))
    r.check(mu[0][0] not in f0.reach_from(bi_), "exp/bit-clear=>skip", "low bit clear ⇒ res unchanged", "with the low bit of e clear the result is still multiplied by the base", cb.where(mu[0][0]))
    margs = {sig(q.novers(mir.strip(x))) for x in mu[0][1][2]}
    base = sig(q.novers(mir.strip(sq[0][1][2][0])))
    r.check(any(base in m_ for m_ in margs), "exp/multiply-by-base", "res is multiplied by the running base", "res is multiplied by %s, the squared variable is %s" % (sorted(margs), base), cb.where(mu[0][0]))


def r11_conversions_and_branches(ctx):
    """clauses of the statement that no other rule reads: integers are big-endian on the stack's byte strings (BtoI / ItoB), Bez jumps exactly when the popped value is
    the integer zero and Bnz exactly when it is not"""
    r = ctx.rule("R11", "BtoI = from_be_bytes of exactly 32 bytes, ItoB = to_be_bytes; Bez jumps iff top == 0, Bnz iff top != 0", positional=False)
    st, variants, table, nowild = _step_table(ctx, r)
    for v, good, bad in (("BtoI", "from_be_bytes", "from_le_bytes"), ("ItoB", "to_be_bytes", "to_le_bytes")):
        a = table.get(v)
        cb = a and a["closure"]
        if cb is None:
            r.undecided("%s/endianness" % v, "the %s arm is not a do_monop closure" % v)
            continue
        names = {e[1].split("::")[-1] for c in ctx.prog.all_nested(cb) for bi, e in q.all_call_exprs(c) if e[0] == "call"}
        if bad in names and good not in names:
            r.violation("%s/endianness" % v, "%s converts with %s: integers are big-endian in byte strings (a covenant comparing a hash with a constant would compare the bytes reversed)" % (v, bad), "%s:%s" % (cb.file, cb.line))
        elif good in names:
            r.ok("%s/endianness" % v, "%s uses %s" % (v, good))
        else:
            r.undecided("%s/endianness" % v, "%s: conversion call not found (%s)" % (v, sorted(n for n in names if "bytes" in n)))
    # Bez / Bnz: arms of the step closure itself (no helper): the pc write by the operand is reached exactly under the stated outcome of `top.into_int() == Some(0)`
    for v, jump_when_zero in (("Bez", 1), ("Bnz", 0)):
        a = table.get(v)
        if a is None:
            continue
        reach = a["reach"]
        ats = [(e_, cn, bi_) for e_, cn, bi_ in q.cmp_atoms(st) if bi_ in reach and "Value::into_int(" in cn and ("Some{0: " in cn or "Option::Some" in cn)]
        ws = [w for w in q.stmt_writes(st, "pc") if w[0] == "assign" and w[1] in reach and (" as %s)" % v) in sig(w[4])]
        if len(ats) > 1 and ws:
            ats = [a_ for a_ in ats if any(st.dominates(a_[2], w[1]) for w in ws)][:1] or ats
        if len(ats) != 1 or not ws:
            r.undecided("%s/condition" % v, "%s: test (%d candidates) or jump write (%d) not read" % (v, len(ats), len(ws)))
            continue
        e_, cn, bi_ = ats[0]
        op = q.as_cmp(e_)[0]
        if op not in ("Eq", "Ne"):
            r.violation("%s/condition" % v, "%s tests the popped value with %s: the instruction branches on (in)equality with zero" % (v, cn[:80]), st.where(bi_))
            continue
        is_zero = 1 if op == "Eq" else 0
        f_z = force(st, {e_: is_zero})          # the popped value IS the integer zero
        f_n = force(st, {e_: 1 - is_zero})
        jumps_z = any(w[1] in f_z.reach_from(bi_) for w in ws)
        jumps_n = any(w[1] in f_n.reach_from(bi_) for w in ws)
        okb = (jumps_z, jumps_n) == ((True, False) if jump_when_zero else (False, True))
        r.check(okb, "%s/condition" % v, "%s jumps exactly when the popped value is %s zero" % (v, "" if jump_when_zero else "not"),
                "%s jumps when the popped value is %s — the specification says %s" % (v, "zero" if jumps_z else "not zero" if jumps_n else "neither", "zero" if jump_when_zero else "not zero"), st.where(bi_))


NARROW = ("U256::low", "U256::as_u8", "U256::as_u16", "U256::as_u32", "U256::as_u64", "U256::as_u128", "U256::as_usize", "U256::as_i8", "U256::as_i16", "U256::as_i32", "U256::as_i64", "U256::as_i128", "U256::as_isize", "U256::into_words", "U256::low_mut")

def r8_narrowing(ctx):
    r = ctx.rule("R8", "a 256-bit operand is never narrowed without a full-width range test: every U256::low()/as_uN() in melvm is unreachable when the value exceeds the target type, "
                       "or is one of the reviewed truncating instructions (BPush low byte, Shl/Shr shift amount, into_truncated_u8)")
    prog = ctx.prog
    st, variants, table, nowild = _step_table(ctx, r)
    arm_of = {a["closure"].id: v for v, a in table.items() if a["closure"] is not None}
    reviewed_arms = {"BPush": "BPush appends the low byte of its operand (existing, tested semantics)", "Shl": "shift amount is taken modulo 2^32 then modulo 256 by wrapping_shl (R2 fixes the expression)",
                     "Shr": "shift amount is taken modulo 2^32 then modulo 256 by wrapping_shr (R2 fixes the expression)"}
    n = 0
    for b in prog.bodies:
        if b.crate != "melvm" or b.kind == "Promoted":
            continue
        calls = q.all_call_exprs(b)
        sites = [(bi, e) for bi, e in calls if e[0] == "call" and any(e[1] == x or e[1].endswith("::" + x) or e[1].endswith(x) for x in NARROW)]
        checked = [(bi, e) for bi, e in calls if e[0] == "call" and "TryFrom<ethnum::U256>" in e[1]]
        for bi, e in checked:
            n += 1
            r.ok("checked/%s" % _short(b), "checked conversion %s" % e[1][:60], b.where(bi))
        if not sites:
            continue
        ctx.analysed(b)
        atoms = q.cmp_atoms(b)
        for bi, e in sites:
            n += 1
            subj = e[2][0] if e[2] else None
            meth = e[1].split("::")[-1]
            # width actually kept: low() is 128 bits unless the only uses cast it further down
            width = {"low": 128, "low_mut": 128, "into_words": 128}.get(meth) or int("".join(c for c in meth if c.isdigit()) or 64)
            if meth == "low":
                casts = _casts_of(b, e)
                if casts:
                    width = max(casts)
            key = "%s/%s" % (_short(b), meth)
            where = b.where(bi)
            arm = arm_of.get(b.id)
            if b.nname == "melvm::value::Value::into_truncated_u8":
                r.ok("narrow/" + key, "reviewed: the helper's contract is truncation to the low byte", where)
                continue
            if arm in reviewed_arms:
                r.ok("narrow/%s/%s" % (arm, meth), "reviewed: " + reviewed_arms[arm], where)
                continue
            good = None
            forms = [x for ae0, canon, abi in atoms for x in q.atom_forms(ae0)]   # each test as spelled and negated (`if v <= MAX {use} else {None}`)
            for ae, _c in forms:
                cm = q.as_cmp(ae)
                if not cm:
                    continue
                op, l, rr_ = cm
                # value > K  (Gt(x,K) / Lt(K,x)) or value >= K
                for (a1, a2, o) in ((l, rr_, op), (rr_, l, q.SWAP[op])):
                    if mir.strip(a1) == mir.strip(subj) and o in ("Gt", "Ge"):
                        k = q.const_val(a2)
                        if k is None:
                            continue
                        bound = k if o == "Gt" else k - 1
                        if bound <= (1 << width) - 1:
                            f = force(b, {ae: 1})
                            if bi not in f.reach:
                                good = "unreachable when the value exceeds %d (≤ u%d::MAX)" % (bound, width)
            if good:
                r.ok("narrow/" + key, good, where)
            else:
                r.violation("narrow/" + key, "%s narrows a 256-bit value to %d bits (%s) with no test on the whole value: operands ≥ 2^%d alias small ones" % (b.nname, width, sig(e)[:80], width), where)
    r.floor("U256 narrowing sites", n, 5)


_W = {"u8": 8, "u16": 16, "u32": 32, "u64": 64, "u128": 128, "usize": 64, "i8": 8, "i16": 16, "i32": 32, "i64": 64, "i128": 128, "isize": 64}


def r9_bounds_on_full_width(ctx):
    r = ctx.rule("R9", "the executor's bound checks compare full-width quantities: no operand of a comparison in an instruction's code is an `as` cast to a narrower "
                       "integer type, nor a saturating `try_from(..).unwrap_or(..)`, of a non-constant length / count / index (a length ≥ 2^k would pass a bound it exceeds)")
    prog = ctx.prog
    st = ctx.body(EX + "step::{closure#0}", r)
    n = 0
    for b in prog.all_nested(st):
        ctx.analysed(b)
        for e, canon, bi in q.cmp_atoms(b):
            cm = q.as_cmp(e)
            if not cm:
                continue
            n += 1
            for side in (cm[1], cm[2]):
                ni = q.narrowed_inner(side)
                if ni is not None:
                    inner, bits, how = ni
                    r.violation("narrowed-bound/%s" % sig(inner)[:60], "%s compares %s: the %s is %s to %d bits before the bound is applied, so the test is not a test of the whole value" %
                                (_short(b), sig(e)[:120], "length" if "len" in sig(inner) else "value", how, bits), b.where(bi))
    r.floor("comparisons in instruction code", n, 12)
    if not [x for x in r.records if x["verdict"] == "violation"]:
        r.ok("narrowed-bound/none", "no comparison operand in the %d comparisons of the instruction code is a narrowing cast" % n)


def r10_sigeok_bounds(ctx):
    r = ctx.rule("R10", "SIGEOK: each of its three operands is length-tested with a strict upper bound before use (key > 32 → push 0, message > n → fail, signature > 64 → push 0), "
                        "and a key that is not a valid Ed25519 key (Ed25519PK::from_bytes fails, e.g. shorter than 32 bytes) makes execution fail")
    prog = ctx.prog
    st = ctx.body(EX + "step::{closure#0}", r)
    cands = []
    for c in list(prog.all_nested(st)) + [b for b in prog.bodies if b.crate == "melvm" and b.kind != "Promoted"]:
        if c in [x[0] for x in cands]:
            continue
        for bi, t in c.calls():
            if t["fn"] and mir.norm_name(t["fn"]["path"]).endswith("Ed25519PK::verify"):
                cands.append((c, bi, t))
    r.anchor(cands, "the Ed25519PK::verify call of SIGEOK")
    c, vbi, vt = cands[0]
    ctx.analysed(c)
    args = [q.novers(c.rec_operand(a, vbi, "T")) for a in vt["args"]]
    if len(args) != 3:
        r.undecided("sigeok/shape", "verify call with %d operands" % len(args), c.where(vbi))
        return
    pk, msg, sg = args
    r.check(sig(pk).startswith("try(Ed25519PK::from_bytes("), "sigeok/key/invalid=>fail", "the key is try(Ed25519PK::from_bytes(..)): an invalid key fails the execution",
            "the verifying key is %s: a byte string that is not an Ed25519 key no longer makes the execution fail" % sig(pk)[:120], c.where(vbi))

    def src(e):
        # the byte-string value behind a materialised operand
        while isinstance(e, tuple):
            if e[0] == "call" and len(e[2]) >= 1 and (e[1].endswith(("from_bytes", "Into::into", "From::from", "deref", "as_ref", "as_slice", "to_vec", "borrow")) or e[1] in ("try",)):
                e = e[2][0]
            elif e[0] in ("ref", "deref", "try", "mutated") and len(e) > 1 and isinstance(e[1], tuple):
                e = e[1]
            else:
                break
        return ("try", e) if isinstance(e, tuple) and e[0] == "call" and e[1].endswith("into_bytes") else e
    roles = (("key", src(pk), 32, "Option::Some{0: Value::from_bool(0)}"), ("message", src(msg), None, "Option::None{}"), ("signature", src(sg), 64, "Option::Some{0: Value::from_bool(0)}"))
    rets = [x for x in q.ret_assignments(c) if "from_residual" not in sig(x[2])]
    atoms = q.cmp_atoms(c, complements=True)
    chosen = {}
    for role, val, K, want in roles:
        s = sig(val)
        mine = [(e, cn, ab) for e, cn, ab in atoms if "CatVec::len(%s)" % s in cn]
        if not mine:
            r.violation("sigeok/%s/bound" % role, "no length test of the %s (%s) before it is used" % (role, s[:80]), c.where(vbi))
            continue
        good = None
        for e, cn, ab in mine:
            if cn.startswith("Lt(") and cn.endswith(", CatVec::len(%s))" % s):
                bound = cn[3:-len(", CatVec::len(%s))" % s)]
                if (K is None and not bound.isdigit()) or (K is not None and bound == str(K)):
                    good = (e, cn, ab)
            elif K is not None and cn == "Le(%d, CatVec::len(%s))" % (K + 1, s):
                good = (e, cn, ab)
        if not good:
            r.violation("sigeok/%s/bound" % role, "the length test of the %s is %s, not the strict upper bound `len > %s`: %s" %
                        (role, "; ".join(x[1] for x in mine if not isinstance(x[0], tuple) or x[0][0] != "not")[:160], K if K is not None else "n",
                         "a short key is answered with 0 instead of failing, or a full-length one is refused" if role == "key" else "operands of other lengths are treated differently from the specification"),
                        c.where(mine[0][2]))
            continue
        r.ok("sigeok/%s/bound" % role, good[1])
        chosen[role] = good
    if len(chosen) == 3:
        # within the bounds the instruction either verifies or fails (type error, invalid key): no other answer.  (`match from_bytes(..) { None => return X, .. }` reads
        # as try(..) in the recovered expression whatever X is, so the failure path is decided here on the control flow.)
        f = force(c, {g[0]: 0 for g in chosen.values()})
        other = sorted({sig(x[2]) for x in rets if x[0] in f.reach and "Ed25519PK::verify" not in sig(x[2]) and sig(x[2]) != "Option::None{}"})
        r.check(not other, "sigeok/within-bounds=>verify-or-fail", "with all three lengths within their bounds the only answers are the verification result or failure",
                "with all three lengths within their bounds SIGEOK can still answer %s without verifying: an operand that is not a byte string or a key that is not an Ed25519 key "
                "must make the execution fail" % other, c.where(vbi))
    for role, val, K, want in roles:
        if len(chosen) < 3:
            break       # a bound is already reported; the outcomes cannot be separated without it
        good = chosen[role]
        tab = {g[0]: 0 for ro, g in chosen.items() if ro != role}
        tab[good[0]] = 1
        f = force(c, tab)
        live = [x for x in rets if x[0] in f.reach]
        outs = sorted({sig(x[2]) for x in live})
        if vbi in f.reach:
            r.violation("sigeok/%s/outcome" % role, "the signature is still verified when the %s exceeds its bound" % role, c.where(vbi))
        elif outs == [want]:
            r.ok("sigeok/%s/outcome" % role, "%s too long ⇒ %s" % (role, want))
        elif any(o == "Option::Some{0: Value::from_bool(1)}" for o in outs):
            r.violation("sigeok/%s/outcome" % role, "an over-long %s is answered with TRUE (%s): a signature check that succeeds without any signature being verified" % (role, outs), c.where(good[2]))
        elif all(o in ("Option::Some{0: Value::from_bool(0)}", "Option::None{}") for o in outs) and outs:
            r.violation("sigeok/%s/outcome" % role, "an over-long %s gives %s, the specification says %s" % (role, outs, want), c.where(good[2]))
        else:
            r.undecided("sigeok/%s/outcome" % role, "result for an over-long %s not recognised: %s" % (role, [o[:80] for o in outs]), c.where(good[2]))


def _short(b):
    return b.nname.replace("melvm::", "").replace("{closure#", "c").replace("}", "")


def _casts_of(b, e):
    """bit widths of `(<e> as uN)` casts appearing in the body"""
    out = []
    for bi, si, s in b.iter_stmts():
        if s["k"] == "assign" and s["rv"]["k"] == "cast":
            x = b.rec_rvalue(s["rv"], bi, si)
            if x[0] == "cast" and mir.strip(x[1]) == mir.strip(e):
                ty = str(x[-1])
                d = "".join(c for c in ty if c.isdigit())
                out.append(int(d) if d else 64)
    return out


def shared(ctx):
    """'forward-only relative jumps', 'counted loops' and 'an improperly nested loop makes execution fail' are clauses of C10 whose structural form is decided by C11.R3
    (pc only increases except for the guarded loop-back that decrements the remaining count), C11.R4 (a loop reaching beyond its enclosing loop is never pushed) and
    C11.R5 (length guards before materialisation: 'length-bounded hashing and signature checking')."""
    from rules.engine import core
    from rules.props import c11
    core.import_rules(ctx, [c11.r3_forward_pc, c11.r4_nesting, c11.r5_length_guards], "X11")
    # 'a function of ... the environment': what the program can read of the environment is exactly the initial heap, decided by C04.R4 (each slot, its content,
    # and that it is filled on every path)
    from rules.props import c04
    core.import_rules(ctx, [c04.r4_heap_layout], "X04")


RULES = [r1_dispatch, r2_alu, r3_failure_discipline, r4_determinism, r5_result, r6_layouts, r7_bounded_exp, r7_exp_algorithm, r8_narrowing, r9_bounds_on_full_width, r10_sigeok_bounds, r11_conversions_and_branches, shared]
