"""C01 — no value is created from nothing (conservation of every denomination)."""
from rules.engine import mir, q
from rules.engine.q import sig, sigv, force
from rules.engine.sccp import V
from rules.props import c05

EXPLANATION = (
    "Not decided as a whole (sums of 128-bit amounts over histories; PoolState arithmetic is trusted base). Decided necessary conditions: "
    "R1 balance-gate coverage: check_tx_validity reaches Ok only through check_tx_coins_balanced(tx.kind, Σ inputs, tx.total_outputs())?. "
    "R2 exemption table: all 7 kinds × 5 denomination classes enumerated by forced constant propagation; a cell skips the in/out comparison iff kind = Faucet ∨ denom = NewCustom ∨ "
    "(kind = DoscMint ∧ denom = Erg). R3 the deciding comparison is an equality; a denomination missing from the inputs is an error. R4 input sums: in_coins[denom] += the value of the coin "
    "resolved for this very input. R5 issuance confinement: coins, pool entries, fee_pool and tips are written only by the enumerated stages, each called only from its enumerated caller. "
    "R6 multiply_frac rounds down. R7 fee split / proposer reward conserve MEL (C05.R2/R3). R8 subsidy and peg touch only the built-in pools and the fee pool; fee+ERG subsidy = the scheduled reward."
    " Imports C18.R1/R2/R5 (ERG enters circulation only through DoscMint, bounded by the reward formula against the speed of the previous block) and the activation table C06.R5."
    " R9 also decides the verdict of the gate itself (any sum overflowing ⇒ false, none ⇒ true; the fee is added to the MEL total). R10: no wrap-around arithmetic (wrapping_*) on amounts anywhere in the two state-machine crates. Imports C03.R5's inflator clause (microergs_per_dosc(h) is the table entry at h)."
    ' Imports C16.R2 (the seeding of a built-in pool happens once: present ⇒ kept).'
)
NOT_DECIDED = ["the conservation inequality itself over sequences of blocks", "PoolState::{swap_many,deposit,withdraw} arithmetic (trusted base)",
               "order-dependent insert/remove interleaving is reported under C03.R2; pool-side mix-ups under C15"]
ASSUMPTIONS = ["Transaction::total_outputs sums outputs per denomination and adds the fee to MEL (melstructs 0.3.3)"]
AP = "melstf::state::applytx::"
KINDS = ["Normal", "Stake", "DoscMint", "Swap", "LiqDeposit", "LiqWithdraw", "Faucet"]
DENOMS = ["Mel", "Sym", "Erg", "NewCustom", "Custom"]


def r1_gate_coverage(ctx):
    r = ctx.rule("R1", "check_tx_validity: Ok only after check_tx_coins_balanced(tx.kind, in_coins, tx.total_outputs())? succeeded")
    b = ctx.body(AP + "check_tx_validity", r)
    oks = [bb for bb, e in q.result_blocks(b)["Ok"]]
    r.anchor(oks, "Ok result")
    calls = q.call_exprs(b, "check_tx_coins_balanced")
    r.check(len(calls) == 1, "call", "the balance check is called", "check_tx_validity calls the balance check %d times" % len(calls))
    for bi, e in calls:
        got = [sig(q.novers(a)) for a in e[2]]
        r.check(got == ["$2.kind", "in_coins", "Transaction::total_outputs($2)"], "args", "(tx.kind, in_coins, tx.total_outputs())", "called with (%s)" % ", ".join(got), b.where(bi))
        wo = b.reachable(0, removed=[bi])
        r.check(not any(o in wo for o in oks), "dominates-ok", "every path to Ok passes the balance check", "Ok is reachable without the balance check", b.where(bi))
        f = force(b, {e: V(1)})
        r.check(not any(o in f.reach_from(bi) for o in oks), "error-propagates", "an unbalanced transaction is rejected", "the balance check's error is ignored", b.where(bi))
        # the sums are complete: the call happens after the input loop is exhausted
        loops = [l for l in q.loop_with_source(b, lambda s: True) if sig(l[3]) == "Iterator::enumerate($2.inputs)"]
        if loops:
            h, blocks, latches, src = loops[0]
            exits = [(x, s) for x in blocks for s in b.succs(x) if s not in blocks]
            exhaust = [(x, s) for (x, s) in exits if x in b.succs(h) or x == h]
            reach = b.reachable(0, removed_edges=exhaust)
            r.check(bi not in reach, "after-all-inputs", "evaluated after all inputs were summed", "the balance check can run before all inputs are summed", b.where(bi))


def r2_exemption_table(ctx):
    r = ctx.rule("R2", "check_tx_coins_balanced: cell (kind, denom) skips the comparison ⇔ kind = Faucet ∨ denom = NewCustom ∨ (kind = DoscMint ∧ denom = Erg)  [35 cells]")
    b = ctx.body(AP + "check_tx_coins_balanced", r)
    CUR = "elem(HashMap::iter($3)).0"
    atoms = []
    for e, c, bi in q.cmp_atoms(b):
        cm = q.as_cmp(e)
        op, L, R = cm
        for (x, y) in ((L, R), (R, L)):
            if y[0] == "agg" and y[1] in ("melstructs::TxKind", "melstructs::Denom") and not y[3]:
                subj = "kind" if sig(x) == "$1" else ("denom" if sig(x) == CUR else None)
                if subj and ((subj == "kind") == (y[1] == "melstructs::TxKind")):
                    atoms.append((e, op, subj, y[2]))
    r.floor("kind/denomination atoms", len(atoms), 3)
    cmp_blocks = [bi for bi, e in q.call_exprs(b, "HashMap::get") if sig(e) == "HashMap::get($2, %s)" % CUR]
    r.check(len(cmp_blocks) >= 1, "lookup", "the input total of the output's denomination is looked up", "in_coins is never consulted for the output's denomination")
    loops = [l for l in q.loop_with_source(b, lambda s: True) if sig(l[3]) == "HashMap::iter($3)"]
    r.check(len(loops) == 1, "loop", "loops over every output denomination", "no loop over all output denominations")
    if not cmp_blocks or not loops:
        return
    entry = q.loop_entry(b, loops[0][0], loops[0][1])
    n_ok = 0
    for K in KINDS:
        for D in DENOMS:
            tbl = {}
            for e, op, subj, variant in atoms:
                eq = (K == variant) if subj == "kind" else (D == variant)
                tbl[e] = int(eq if op == "Eq" else not eq)
            f = force(b, tbl)
            compared = any(cb in f.reach for cb in cmp_blocks)
            expected_exempt = (K == "Faucet") or (D == "NewCustom") or (K == "DoscMint" and D == "Erg")
            key = "cell/%s/%s" % (K, D)
            if compared == (not expected_exempt):
                n_ok += 1
                r.ok(key, "exempt" if expected_exempt else "balanced")
            elif compared:
                r.violation(key, "%s outputs of a %s transaction must be exempt from balancing (issuance rule) but are compared" % (D, K))
            else:
                r.violation(key, "%s outputs of a %s transaction are NOT compared with the inputs: value can be created" % (D, K), b.where(cmp_blocks[0]))
    ctx.extra["exemption_table_cells_ok"] = n_ok


def r3_equality(ctx):
    r = ctx.rule("R3", "the in/out comparison is an (in)equality test whose 'different' outcome and whose missing-denomination case both end in Err(UnbalancedInOut)")
    b = ctx.body(AP + "check_tx_coins_balanced", r)
    CUR = "elem(HashMap::iter($3)).0"
    OUTV = "elem(HashMap::iter($3)).1"
    INV = "try(HashMap::get($2, %s))" % CUR
    oks = [bb for bb, e in q.result_blocks(b)["Ok"]]
    loops = [l for l in q.loop_with_source(b, lambda s: True) if sig(l[3]) == "HashMap::iter($3)"]
    r.anchor(loops, "loop over output denominations")
    latches = loops[0][2]
    deciding = []
    for e, c, bi in q.cmp_atoms(b):
        op, L, R = q.as_cmp(e)
        sides = {sig(q.unwrap0(L)), sig(q.unwrap0(R))}
        if sides == {OUTV, INV} or sides == {OUTV, "HashMap::get($2, %s)" % CUR}:
            deciding.append((e, op, bi))
    r.check(len(deciding) == 1, "atom", "one comparison between the output total and the input total of the same denomination", "comparisons out-vs-in: %d" % len(deciding))
    for e, op, bi in deciding:
        r.check(op in ("Eq", "Ne"), "equality", "the comparison is %s" % op, "the comparison is an ordering (%s): surplus or deficit would pass" % op, b.where(bi))
        differ = 0 if op == "Eq" else 1
        f = force(b, {e: differ})
        after = f.reach_from(bi)
        bad = [x for x in latches + oks if x in after]
        r.check(not bad, "differ=>err", "different totals end in Err", "with different totals bb%s is still reachable" % bad, b.where(bi))
        f = force(b, {e: 1 - differ})
        r.check(any(x in f.reach_from(bi) for x in latches), "equal=>continue", "equal totals continue", "equal totals do not continue", b.where(bi))
    g = [(bi, e) for bi, e in q.call_exprs(b, "HashMap::get") if sig(e) == "HashMap::get($2, %s)" % CUR]
    for bi, e in g:
        f = force(b, {("discr", e): 0, e: V(0)})
        after = f.reach_from(bi)
        bad = [x for x in latches + oks if x in after]
        r.check(not bad, "missing=>err", "a denomination absent from the inputs ends in Err", "an output denomination absent from the inputs is accepted (bb%s)" % bad, b.where(bi))
    r.check(bool(q.err_blocks(b, "UnbalancedInOut")), "err-variant", "Err(UnbalancedInOut)", "no Err(UnbalancedInOut)")


def r4_input_sums(ctx):
    r = ctx.rule("R4", "check_tx_validity: in_coins[coin.denom] := in_coins.get(coin.denom).unwrap_or(0) + coin.value for the coin resolved for this input; in_coins starts empty")
    b = ctx.body(AP + "check_tx_validity", r)
    from rules.props import c04 as _c04
    mode, coin_, idx_, COIN = _c04._input_mode(b)          # `for (i, id) in inputs.iter().enumerate()` or a loop over the inputs alone
    SRC_ = _c04.ENUM_SRC if mode == "enumerate" else _c04.PLAIN_SRC
    ins = [(bi, e) for bi, e in q.call_exprs(b, "HashMap::insert") if sig(q.novers(e[2][0])) == "in_coins"]
    r.check(len(ins) == 1, "update", "one update of in_coins per input", "%d updates of in_coins" % len(ins))
    for bi, e in ins:
        r.check(sig(e[2][1]) == COIN + ".coin_data.denom", "key", "keyed by the coin's denomination", "keyed by %s" % sig(e[2][1]), b.where(bi))

        def key(x):
            s = sig(q.novers(x))
            if s == "Option::unwrap_or(HashMap::get(in_coins, %s.coin_data.denom), 0)" % COIN:
                return "old"
            if s == COIN + ".coin_data.value":
                return "value"
            return None
        l = q.lin(e[2][2], key)
        r.check(l == q.Lin({"old": 1, "value": 1}), "sum", "new total = old total + coin value", "new total = %r" % l, b.where(bi))
        loops = [l_ for l_ in q.loop_with_source(b, lambda s: True) if sig(l_[3]) == SRC_]
        if loops:
            entry = q.loop_entry(b, loops[0][0], loops[0][1])
            wo = b.reachable(entry, removed=[bi])
            # paths that skip the update must end in an error (never reach the latch)
            r.check(not any(x in wo for x in loops[0][2]), "every-input", "every accepted input is added", "an input can be accepted without being added to the sums", b.where(bi))
    d = q.var_def_exprs(b, "in_coins")
    r.check(len(d) == 1 and "default" in sig(d[0][1]).lower(), "starts-empty", "in_coins starts empty", "in_coins starts as %s" % [sig(x[1]) for x in d])


STAGES = {
    # callee → the only bodies allowed to call it
    "melstf::state::applytx::create_next_state": ["melstf::state::applytx::apply_tx_batch_impl"],
    "melstf::state::applytx::handle_faucet_tx": ["melstf::state::applytx::create_next_state"],
    "melstf::state::applytx::apply_tx_batch_impl": ["melstf::state::UnsealedState::apply_tx_batch"],
    "melstf::state::melmint::preseal_melmint": ["melstf::state::UnsealedState::seal"],
    "melstf::state::melmint::create_builtins": ["melstf::state::melmint::preseal_melmint"],
    "melstf::state::melmint::process_swaps": ["melstf::state::melmint::preseal_melmint"],
    "melstf::state::melmint::process_deposits": ["melstf::state::melmint::preseal_melmint"],
    "melstf::state::melmint::process_withdrawals": ["melstf::state::melmint::preseal_melmint"],
    "melstf::state::melmint::process_pegging": ["melstf::state::melmint::preseal_melmint"],
    "melstf::state::melmint::process_swaps_for_single_pool": ["melstf::state::melmint::process_swaps::{closure#0}"],
    "melstf::state::melmint::process_deposits_for_single_pool": ["melstf::state::melmint::process_deposits::{closure#0}"],
    "melstf::state::melmint::process_withdrawals_for_single_pool": ["melstf::state::melmint::process_withdrawals::{closure#0}"],
    "melstf::state::UnsealedState::apply_tip_909": ["melstf::state::UnsealedState::seal"],
    "melstf::state::UnsealedState::apply_proposer_action": ["melstf::state::UnsealedState::seal"],
    "melstf::state::UnsealedState::collect_proposer_action_fee": ["melstf::state::UnsealedState::apply_proposer_action"],
    "melstf::state::SealedState::apply_tip_906_for_next_state": ["melstf::state::SealedState::next_unsealed"],
}
COIN_WRITERS = {"melstf::genesis::GenesisConfig::realize", "melstf::state::applytx::create_next_state", "melstf::state::applytx::handle_faucet_tx",
                "melstf::state::UnsealedState::collect_proposer_action_fee"}
POOL_WRITERS = {"melstf::state::melmint::create_builtins", "melstf::state::melmint::process_swaps_for_single_pool", "melstf::state::melmint::process_deposits_for_single_pool",
                "melstf::state::melmint::process_withdrawals_for_single_pool", "melstf::state::melmint::process_pegging", "melstf::state::UnsealedState::apply_tip_909"}


def _owner(b, prog):
    """the named function a closure belongs to"""
    x = b
    while x.kind == "Closure" and x.parent in prog.by_id:
        x = prog.by_id[x.parent]
    return getattr(x, "alias_of", None) or x.nname          # a known function found under a new path (moved to another module) is the same stage


def _stages_gone(prog, names):
    return sorted(n.split("::")[-1] for n in names if prog.body(n) is None)


def r5_issuance_confinement(ctx):
    r = ctx.rule("R5", "coins / pools / fee_pool / tips are written only inside the enumerated stages, and each stage is called only from its enumerated caller", positional=False)
    prog = ctx.prog
    n = {"insert_coin": 0, "remove_coin": 0, "pools": 0}
    # the stages are enumerated by name; when one of them is no longer there under its name (renamed, turned into a method, merged into its
    # caller) a writer outside the list may simply BE that stage: not decided then
    gone = _stages_gone(prog, COIN_WRITERS | POOL_WRITERS)

    def chk(ok, key, okmsg, badmsg, where):
        if ok or not gone:
            r.check(ok, key, okmsg, badmsg, where)
        else:
            r.undecided(key, "%s — but the enumerated stage(s) %s no longer exist under their names: whether this writer is one of them is not decided" % (badmsg, gone), where)
    for b, bi, t in prog.call_sites(lambda nm, p: nm in ("melstf::state::coins::CoinMapping::insert_coin", "melstf::state::coins::CoinMapping::remove_coin")):
        which = mir.callee_name(t).split("::")[-1]
        n[which] += 1
        own = _owner(b, prog)
        ok = own in COIN_WRITERS or own.startswith("melstf::state::melmint::process_") and own.endswith("_for_single_pool")
        chk(ok, "%s@%s" % (which, own.split("::")[-1]), "%s in %s" % (which, own.split("::")[-1]), "%s writes coins (%s) outside the issuance stages" % (b.nname, which), b.where(bi))
    for b, bi, t in prog.call_sites(lambda nm, p: nm == "melstf::smtmapping::SmtMapping::insert"):
        e = b.rec_call(t, bi)
        g = (t["fn"] or {}).get("gargs", [])
        if not (".pools" in sig(e[2][0]) or any("PoolKey" in x for x in g)):
            continue
        n["pools"] += 1
        own = _owner(b, prog)
        chk(own in POOL_WRITERS, "pool-write@%s" % own.split("::")[-1], "pool written in %s" % own.split("::")[-1], "%s writes a pool entry outside the Melmint stages" % b.nname, b.where(bi))
    r.floor("insert_coin sites", n["insert_coin"], 8)
    r.floor("remove_coin sites", n["remove_coin"], 3)
    r.floor("pool write sites", n["pools"], 8)
    for fld, allowed in (("fee_pool", {"melstf::state::applytx::create_next_state", "melstf::state::UnsealedState::apply_tip_909", "melstf::state::UnsealedState::collect_proposer_action_fee"}),
                         ("tips", {"melstf::state::applytx::create_next_state", "melstf::state::UnsealedState::collect_proposer_action_fee"})):
        ws = q.field_writers(prog, "melstf::state::UnsealedState", fld)
        for b, recs in sorted(ws.items(), key=lambda kv: kv[0].nname):
            for k in sorted({x[0] for x in recs}):
                if k == "agg":
                    ok = any(b.nname.endswith(a) for a in ("GenesisConfig::realize", "SealedState::from_block", "as std::clone::Clone>::clone"))
                else:
                    ok = _owner(b, prog) in allowed
                gone_f = sorted(a.split("::")[-1] for a in allowed if prog.body(a) is None)
                if not ok and gone_f:
                    # a fee stage no longer exists under its name (merged into its caller, renamed): this writer may simply be that stage
                    r.undecided("%s/%s@%s" % (fld, k, b.nname.split("::")[-1]), "%s writes %s (%s) — but the fee stage(s) %s no longer exist under their names: whether this writer is one of them is not decided" % (b.nname, fld, k, gone_f), "%s:%s" % (b.file, b.line))
                    continue
                r.check(ok, "%s/%s@%s" % (fld, k, b.nname.split("::")[-1]), "%s %s in %s" % (fld, k, b.nname.split("::")[-1]), "%s writes %s (%s) outside the fee stages" % (b.nname, fld, k), "%s:%s" % (b.file, b.line))
    for callee, callers in STAGES.items():
        cb = prog.body(callee)
        if cb is None:
            r.violation("anchor-missing:" + callee.split("::")[-1], "stage %s not found" % callee)
            continue
        # callers are compared by the function that owns the call (the call may sit in one of its closures or in its own body)
        got = sorted({_owner(prog.by_id[c], prog) for c in prog.callers_of(cb.id)})
        callers = sorted({c.split("::{closure")[0] for c in callers})
        r.check(got == sorted(callers), "callers/" + callee.split("::")[-1], "%s ← %s" % (callee.split("::")[-1], [c.split("::")[-1] for c in callers]),
                "%s is called from %s (expected only %s): a new route to an issuance stage" % (callee, got, callers))


def r6_floor(ctx):
    r = ctx.rule("R6", "multiply_frac(x, frac) = floor(x·frac) (saturating to u128::MAX)")
    b = ctx.body("melstf::state::melmint::multiply_frac", r)
    rr = q.ret_assignments(b)
    s = sig(rr[0][2]) if rr else "?"
    want = "Result::unwrap_or(<T as std::convert::TryInto<U>>::try_into(Ratio::numer(Ratio::floor(<num::rational::Ratio<T> as std::ops::Mul>::mul($1, Ratio::new(Ratio::numer($2), Ratio::denom($2)))))), MAX)"
    if s == want:
        r.ok("floor", "multiply_frac = floor(x·n/d)")
    elif "Ratio::ceil" in s or "Ratio::round" in s or "Ratio::floor" not in s:
        r.violation("floor", "multiply_frac does not round down: %s" % s[:200])
    else:
        r.undecided("floor", "multiply_frac = %s" % s[:200])
    pr = ctx.prog.body("melstf::state::melmint::pro_rata")
    if pr is not None:
        ctx.analysed(pr)
        rr = q.ret_assignments(pr)
        vals = sorted(sig(x[2]) for x in rr)
        ok = vals == sorted(["0", "melmint::multiply_frac($1, Ratio::new($2, $3))"])
        r.check(ok, "pro_rata", "pro_rata(x, mine, total) = 0 if total == 0 else multiply_frac(x, mine/total)", "pro_rata returns %s" % vals)
        z = [a for a in q.cmp_atoms(pr) if a[1] in ("Eq($3, 0)", "Eq(0, $3)")]
        if z and ok:
            f = force(pr, {z[0][0]: 0})
            live = [sig(x[2]) for x in rr if x[0] in f.reach]
            r.check(live == ["melmint::multiply_frac($1, Ratio::new($2, $3))"], "pro_rata/nonzero", "non-zero total ⇒ the floor share", "with a non-zero total pro_rata returns %s" % live)


def r7_fees(ctx):
    c05.r2_split(ctx)
    c05.r3_reward(ctx)
    ctx.rules["R2"].template = ctx.rules["R2"].template  # exemption table keeps id R2; the fee rules are registered as R7a/R7b below


def r8_subsidy_peg(ctx):
    r = ctx.rule("R8", "apply_tip_909 / process_pegging write only built-in pool entries and fee_pool; fee_pool += MEL taken out of the MEL/SYM pool; fee + ERG subsidy = (2^20 >> halvings)")
    prog = ctx.prog
    t = ctx.body("melstf::state::UnsealedState::apply_tip_909", r)
    p = ctx.body("melstf::state::melmint::process_pegging", r)
    for b in (t, p):
        short = b.nname.split("::")[-1]
        reach = prog.reach_from([b.id])
        bad = [prog.by_id[x].nname for x in reach if prog.by_id[x].nname in ("melstf::state::coins::CoinMapping::insert_coin", "melstf::state::coins::CoinMapping::remove_coin")]
        r.check(not bad, short + "/no-coins", "%s reaches no coin write" % short, "%s reaches %s" % (short, bad))
        keys = {sig(e[2][1]) for bi, e in q.call_exprs(b, "SmtMapping::insert")}
        allowed = {"PoolKey::new(Denom::Mel{}, Denom::Sym{})", "PoolKey::new(Denom::Erg{}, Denom::Sym{})"} if b is t else {"PoolKey::new(Denom::Mel{}, Denom::Sym{})"}
        r.check(keys == allowed, short + "/pool-keys", "writes exactly %s" % sorted(k[13:-1] for k in allowed), "%s writes pools %s" % (short, sorted(keys)))
        for fld in ("tips", "fee_multiplier", "dosc_speed", "height", "network"):
            r.check(not q.stmt_writes(b, fld), "%s/no-%s" % (short, fld), "does not touch %s" % fld, "%s writes %s" % (short, fld))
    r.check(not q.stmt_writes(p, "fee_pool"), "process_pegging/no-fee_pool", "process_pegging does not touch fee_pool", "process_pegging writes fee_pool")
    ws = q.stmt_writes(t, "fee_pool")
    def _added(w):
        """(block, value added to fee_pool) for `fee_pool += v` and for `fee_pool = fee_pool (saturating) + v`"""
        if w[0] == "mutref" and w[4] is not None:
            cb, ct = w[4]
            if mir.callee_name(ct).endswith("add_assign"):
                return cb, t.rec_call(ct, cb)[2][1], t.rec_call(ct, cb)
        if w[0] == "assign":
            nf = q.arith_nf(w[4])
            if nf[0] == "bin" and nf[1] == "Add":
                olds = [x for x in (nf[2], nf[3]) if sig(q.novers(x)).endswith(".fee_pool.0") or sig(q.novers(x)).endswith(".fee_pool")]
                news = [x for x in (nf[2], nf[3]) if x not in olds]
                if len(olds) == 1 and len(news) == 1:
                    return w[1], news[0], w[4]
        return None
    adds = [a for a in (_added(w) for w in ws) if a]
    r.check(len(ws) == 1 and len(adds) == 1, "subsidy/fee_pool-write", "one addition to fee_pool", "fee_pool writes: %d (additions: %d)" % (len(ws), len(adds)))
    if adds:
        cb, v, e = adds[0]
        ok = True
        if v[0] == "agg" and len(v[3]) == 1:
            v = v[3][0][1]
        if q.is_call(v, "PoolState::swap_many"):
            v = ("field", v, "0")          # the arithmetic normal form reads through `.0`: the MEL side is the only u128 the sum can take
        ok = ok and v[0] == "field" and v[2] == "0" and q.is_call(v[1], "PoolState::swap_many") and q.const_val(v[1][2][1]) == 0
        r.check(ok, "subsidy/fee_pool-source", "fee_pool += swap_many(mel/sym pool, 0, fee_subsidy).0", "fee_pool is changed by %s" % sig(e)[:200], t.where(cb))
        if ok:
            d = q.var_def_exprs(t, v[1][2][0][1]) if v[1][2][0][0] == "var" else []
            r.check(len(d) == 1 and sig(d[0][1]).replace("(self.pools", "($1.pools") == "Option::unwrap(SmtMapping::get($1.pools, PoolKey::new(Denom::Mel{}, Denom::Sym{})))", "subsidy/pool", "taken from the MEL/SYM pool", "taken from %s" % [sig(x[1]) for x in d])
    # schedule: reward = (1<<20) >> ((height − TIP909)/1e6); fee + erg = reward under both TIP-909a settings
    rw = q.var_def_exprs(t, "reward")
    s = sig(rw[0][1]) if len(rw) == 1 else "?"
    r.check(s.replace("(self.height", "($1.height") == "Shr(1048576, Div(core::num::<impl u64>::saturating_sub($1.height.0, TIP_909_HEIGHT), 1000000))", "subsidy/schedule", "reward = 2^20 >> ((height − TIP-909)/10^6)", "reward = %s" % s)
    flag = [e for bi, e in q.call_exprs(t, "UnsealedState::tip_909a")]
    sm = q.call_exprs(t, "PoolState::swap_many")
    r.check(len(sm) == 2, "subsidy/two-injections", "two injections (fee, ERG)", "%d injections" % len(sm))
    if len(rw) == 1 and flag and len(sm) == 2:
        for val in (1, 0):
            f = force(t, {e: val for e in flag})
            tot = q.Lin()
            with t.restricted(f.reach):
                sm_f = q.call_exprs(t, "PoolState::swap_many")
            for bi, e in sm_f:
                arg = q.resolve_phis(t, e[2][2], f.reach)
                tot = tot + _lin_reward(arg, rw[0][1])
                r.check(q.const_val(e[2][1]) == 0, "subsidy/sym-side@%d" % val, "only the SYM side is injected", "injection (%s, ..)" % sig(e[2][1]), t.where(bi))
            exp = q.Lin({"reward": 1})
            ok = (tot.terms.get("reward") is not None) and set(tot.terms) <= {"reward", "reward>>8", "reward/2"} and _sum_is_reward(tot)
            r.check(ok, "subsidy/total/tip909a=%d" % val, "fee + ERG subsidy = reward", "fee + ERG subsidy = %r" % tot)


def _lin_reward(e, reward_expr):
    def key(x):
        if q.novers(x) == q.novers(reward_expr):
            return "reward"
        if x[0] == "bin" and x[1] == "Shr" and q.novers(x[2]) == q.novers(reward_expr) and q.const_val(x[3]) == 8:
            return "reward>>8"
        if x[0] == "bin" and x[1] == "Div" and q.novers(x[2]) == q.novers(reward_expr) and q.const_val(x[3]) == 2:
            return "reward/2"
        return None
    return q.lin(e, key)


def _sum_is_reward(l):
    # reward − r>>8 + r>>8 = reward ; r/2 + (reward − r/2) = reward
    return l.terms.get("reward") == 1 and all(v == 0 for k, v in l.terms.items() if k != "reward") and l.const == 0


def r7a(ctx):
    # registered under distinct ids so that C05's rule ids do not collide with R2/R3 of this property
    keep = dict(ctx.rules)
    sub = {}
    ctx.rules = sub
    try:
        c05.r2_split(ctx)
        c05.r3_reward(ctx)
    finally:
        ctx.rules = keep
    for rid, rule in sub.items():
        nid = "R7" + ("a" if rid == "R2" else "b")
        rule.rid = nid
        rule.template = "(= C05.%s) %s" % (rid, rule.template)
        for rec in rule.records:
            rec["rule"] = nid
            rec["key"] = rec["key"].replace("C01/%s/" % rid, "C01/%s/" % nid)
        ctx.rules[nid] = rule


def totals_gate(ctx, r, prefix="totals"):
    """Transaction::total_outputs (melstructs) adds with plain `+`.  is_well_formed bounds every value and the fee by 2^120 and the outputs by 255, so a
    per-denomination total can reach 2^128: with overflow checks the validator panics, without them the total wraps to a small number and the balance
    comparison of C01.R3 accepts outputs worth 2^127 for nothing.  Necessary: before anything calls total_outputs on a batch member, the batch passed a
    gate that rejects transactions whose totals do not fit (load_relevant_coins: `output_totals_fit(tx)` false ⇒ Err), and that gate dominates the validation."""
    prog = ctx.prog
    lr = ctx.body(AP + "load_relevant_coins", r)
    gates = [(bi, e) for bi, e in q.call_exprs(lr, "output_totals_fit")]
    ok_gate = False
    if gates:
        gb, ge = gates[0]
        loops = [l for l in q.loop_nest(lr) if sig(l[3]) == "$2" and gb in l[1]]
        oks = [bb for bb, e in q.result_blocks(lr)["Ok"]]
        f = force(lr, {ge: 0})
        after = f.reach_from(gb)
        latches = [x for l in loops for x in l[2]]
        ok_gate = bool(loops) and sig(q.novers(ge[2][0])) == "elem($2)" and not any(x in after for x in latches + oks)
        if ok_gate and loops:
            entry = q.loop_entry(lr, loops[0][0], loops[0][1])
            wo = lr.reachable(entry, removed=[gb])
            ok_gate = not any(x in wo for x in loops[0][2])       # every transaction of the batch passes the gate
    fit_ = prog.body("melstf::state::applytx::output_totals_fit")
    indirect = [bi for bi, t in lr.calls() if t.get("fn") is None]
    if not gates and fit_ is not None and indirect:
        # the gate function still exists and load_relevant_coins makes calls through function pointers (a table of per-transaction checks): whether the gate is
        # among them is not read
        r.undecided(prefix + "/gate", "load_relevant_coins does not call output_totals_fit by name but calls through %d function pointer(s): not decided" % len(indirect), "%s:%s" % (lr.file, lr.line))
    else:
      r.check(ok_gate, prefix + "/gate", "load_relevant_coins rejects every batch member whose output totals do not fit in u128",
              "no gate in load_relevant_coins rejects transactions whose per-denomination output totals (plus fee) overflow u128: 255 MEL outputs of 2^120 and a fee of 2^120 "
              "make total_outputs() panic (overflow checks) or wrap to 0 and balance against a zero-valued input (no overflow checks)", "%s:%s" % (lr.file, lr.line))
    fit = prog.body("melstf::state::applytx::output_totals_fit")
    if fit is not None:
        nest = prog.all_nested(fit)
        adds = [e for n_ in nest for bi, e in q.all_call_exprs(n_) if e[0] == "call" and e[1].split("::")[-1] == "checked_add"]
        plain = [t for n_ in nest for bi, t in n_.iter_terms("assert") if t["msg"].startswith("Overflow(Add")]
        loose = [e for n_ in nest for bi, e in q.all_call_exprs(n_) if e[0] == "call" and e[1].split("::")[-1] in ("wrapping_add", "saturating_add", "overflowing_add")]
        # positive derivations: a plain / wrapping / saturating addition inside the gate (its verdict then says nothing about total_outputs' plain `+`); fewer
        # checked additions than the two kinds of term (outputs, fee) with nothing else adding — otherwise a shape that is not read (adapters, folds): undecided
        if plain or loose:
            r.violation(prefix + "/gate/checked", "output_totals_fit adds with %d plain and %d wrapping/saturating additions: its verdict does not tell whether total_outputs() overflows" % (len(plain), len(loose)), "%s:%s" % (fit.file, fit.line))
        elif len(adds) >= 2:
            r.ok(prefix + "/gate/checked", "the gate sums with checked_add (outputs per denomination, then the fee)", "%s:%s" % (fit.file, fit.line))
        elif len(nest) > 1 or any(t.get("fn") is None for n_ in nest for bi, t in n_.calls()):
            r.undecided(prefix + "/gate/checked", "output_totals_fit has %d checked additions in a shape that is not read (closures / adapters)" % len(adds), "%s:%s" % (fit.file, fit.line))
        else:
            r.violation(prefix + "/gate/checked", "output_totals_fit does not sum with checked_add (%d checked, %d plain additions)" % (len(adds), len(plain)), "%s:%s" % (fit.file, fit.line))
        s_ = " ".join(sig(e) for e in adds)
        reads = " ".join(sig(e) for n_ in nest for bi, e in q.all_call_exprs(n_)) + " " + " ".join(sig(x[2]) for n_ in nest for x in q.ret_assignments(n_))
        if ".fee" in s_ and ".value" in s_:
            r.ok(prefix + "/gate/terms", "it accounts for every output value and the fee", "%s:%s" % (fit.file, fit.line))
        elif ".fee" not in reads and len(nest) == 1:
            r.violation(prefix + "/gate/terms", "output_totals_fit never reads the fee (it sums %s): total_outputs() adds the fee to the MEL total" % s_[:160], "%s:%s" % (fit.file, fit.line))
        elif ".value" not in reads and len(nest) == 1:
            r.violation(prefix + "/gate/terms", "output_totals_fit never reads an output value (it sums %s)" % s_[:160], "%s:%s" % (fit.file, fit.line))
        else:
            r.undecided(prefix + "/gate/terms", "which terms output_totals_fit adds is not read (it sums %s)" % s_[:160], "%s:%s" % (fit.file, fit.line))
        # the verdict of the gate: any of its sums overflowing ⇒ false, none overflowing ⇒ true (decided by forcing the presence tests of every checked_add)
        absent, present = q.presence_tests(fit, lambda sx: "checked_add" in sx)
        if absent:
            v0, _f = q.ret_value_under(fit, absent)
            v1, _f = q.ret_value_under(fit, present)
            if v0 in (("c", 0), ("c", 1)) and v1 in (("c", 0), ("c", 1)):
                r.check(v0 == ("c", 0), prefix + "/gate/overflow=>reject", "a sum that does not fit makes the gate answer false", "with a sum overflowing the gate still answers true: the transaction goes on to total_outputs()", "%s:%s" % (fit.file, fit.line))
                r.check(v1 == ("c", 1), prefix + "/gate/fits=>pass", "totals that fit pass the gate", "the gate refuses transactions whose totals fit", "%s:%s" % (fit.file, fit.line))
            else:
                # not one constant: some path answers true although every sum was taken to overflow — decided if such a path returns the literal `true`
                _v, f0 = q.ret_value_under(fit, absent)
                # ... on a path that has actually made (and failed) one of the sums: `true` reached by making no sum at all — the zero-iteration exit of a loop
                # over outputs-then-fee — is not a wrong verdict
                add_blocks = [bi for bi, e in q.all_call_exprs(fit) if e[0] == "call" and e[1].split("::")[-1] == "checked_add"]
                after_add = set()
                for ab in add_blocks:
                    after_add |= set(f0.reach_from(ab))
                lit_true = [x for x in q.ret_assignments(fit) if x[0] in f0.reach and x[0] in after_add and q.const_val(x[2]) in (1, True)]
                if lit_true:
                    r.violation(prefix + "/gate/overflow=>reject", "with every sum overflowing the gate can still answer true: such a transaction goes on to total_outputs()", fit.where(lit_true[0][0]))
                else:
                    r.undecided(prefix + "/gate/overflow=>reject", "the gate's answer under overflow is not a constant (%s / %s)" % (v0, v1))
        # the fee is added to the MEL total (total_outputs adds it there), and a denomination's running total starts at zero
        fee_adds = [e for e in adds if ".fee" in sig(e)]
        r.check(all("Denom::Mel" in sig(e) for e in fee_adds) and bool(fee_adds), prefix + "/gate/fee-on-mel", "the fee is added to the MEL total", "the fee is added to %s" % [sig(e)[:120] for e in fee_adds], "%s:%s" % (fit.file, fit.line))
    impl = ctx.body(AP + "apply_tx_batch_impl", r)
    lrc = q.call_exprs(impl, "load_relevant_coins")
    users = q.effect_sites(prog, impl, "check_tx_validity") + q.effect_sites(prog, impl, "create_next_state")
    okd = len(lrc) == 1 and bool(users) and all(impl.dominates(lrc[0][0], u[0]) and u[0] != lrc[0][0] for u in users)
    if okd:
        f = force(impl, {lrc[0][1]: V(1)})
        okd = not any(u[0] in f.reach_from(lrc[0][0]) for u in users)
    r.check(okd, prefix + "/gate/first", "validation and state construction run only after load_relevant_coins(..)? succeeded", "check_tx_validity / create_next_state can run although load_relevant_coins did not succeed",
            impl.where(lrc[0][0]) if lrc else None)


def r9_totals_fit(ctx):
    r = ctx.rule("R9", "output totals cannot wrap: a batch member whose per-denomination output total (plus fee) does not fit in u128 is rejected before total_outputs() is ever called on it")
    totals_gate(ctx, r)


def _only_feeds_assertion(b, bi, t):
    """the value of the call at bb[bi] is used by nothing but an assertion: apart from the comparison inside the assert macro it is handed only to
    core::panicking::assert_failed (`debug_assert_eq!(h, x.wrapping_add(1))`), it is stored nowhere and returned nowhere"""
    try:
        e = b.rec_call(t, bi)
        se = sig(q.novers(e))
        fails = 0
        for cb, ce in q.all_call_exprs(b):
            if cb == bi:
                continue
            sc = sig(q.novers(ce))
            if se in sc:
                if ce[0] == "call" and ce[1].split("::")[-1] in ("assert_failed", "assert_failed_inner", "panic", "panic_fmt"):
                    fails += 1
                else:
                    return False
        if not fails:
            return False
        for w in q.writes_in(b):
            if se in sig(q.novers(w[3])):
                return False
        for x in q.ret_assignments(b):
            if se in sig(q.novers(x[2])):
                return False
        return True
    except Exception:
        return False


def r10_no_wraparound(ctx):
    """Amounts (coin values, fee pool, tips, pool totals, voting power) are 128-bit and, wherever Faucet transactions are admitted, not bounded by a supply
    (D20).  The code adds them with saturating or checked operations; a wrapping operation turns a total past 2^128 into a small number — a fee pool that
    loses 2^128, a vote tally that wraps below the threshold, a pool total that prices a swap against almost nothing.  Expected count: zero sites in the two
    state-machine crates (the interpreter crate is exempt: MelVM arithmetic is specified as wrapping)."""
    r = ctx.rule("R10", "no wrap-around arithmetic (wrapping_*, Wrapping<T>) on amounts anywhere in melstf / tip911-stakeset", positional=False)
    n, scanned = 0, 0
    for b in ctx.prog.bodies:
        if b.kind == "Promoted" or b.crate not in ("melstf", "tip911_stakeset"):
            continue
        scanned += 1
        for bi, t in b.calls():
            nm = mir.callee_name(t)
            last = nm.split("::")[-1]
            if (nm.startswith("core::num::<impl ") and last.startswith("wrapping_") and last not in ("wrapping_shl", "wrapping_shr")) or "num::Wrapping" in nm:
                if t.get("exp"):
                    continue
                if _only_feeds_assertion(b, bi, t):
                    r.info("wrap/assertion-only@%s" % b.nname.split("::")[-1], "%s in %s only feeds an assertion (a comparison one outcome of which never returns): not arithmetic on an amount" % (last, b.nname), b.where(bi))
                    continue
                n += 1
                host = b.nname.split("::{closure")[0].split("::")[-1]
                r.violation("wrap@%s|%s" % (host, last), "%s in %s: a total past 2^128 wraps around to a small number instead of stopping at the top of the range (%s)"
                            % (last, b.nname, sig(b.rec_call(t, bi))[:160]), b.where(bi))
    r.floor("bodies scanned", scanned, 150)
    if n == 0:
        r.ok("wrap/none", "no wrapping arithmetic in the state-machine crates (%d bodies)" % scanned)


def shared(ctx):
    """necessary conditions of conservation that are owned by other properties"""
    from rules.engine import core
    from rules.props import c02, c03, c15
    core.import_rules(ctx, [c02.r2_input_resolution, c02.r3_double_spend, c02.r5_effects], "X02")
    core.import_rules(ctx, [c03.r2_batch_commutativity, c03.r5_inflator], "X03")
    from rules.props import c20
    core.import_rules(ctx, [c20.r1_protocol], "X20")   # a spent coin that is not cleared can be spent again
    core.import_rules(ctx, [c15.r1_selection_atoms, c15.r2_canonical_keys, c15.r3_swaps, c15.r3_deposits, c15.r3_withdrawals, c15.r5_only_selected], "X15")
    core.import_rules(ctx, [c15.r6_stage_order], "X15")          # each pool is processed once per block: a pool listed twice credits its reserves twice for coins consumed once
    # ERG enters circulation only through DoscMint, bounded by the reward formula evaluated against the previous block's speed (C18.R1/R2/R5)
    from rules.props import c18
    core.import_rules(ctx, [c18.r1_gate_chain, c18.r2_reward_bound, c18.r5_speed_formula, c18.r6_reward_rounds_down, c18.r7_trusted_verifier], "X18")
    from rules.props import c06
    core.import_rules(ctx, [c06.r5_activation_table], "X06")          # the SYM subsidy is minted from TIP-909 on, split by TIP-909a
    # the seeding of a built-in pool puts reserves into existence that nobody paid in: it happens once per pool (absent ⇒ created, present ⇒ kept).  A creation test that
    # fires again for a pool that exists (emptied, or by any other criterion) mints its reserves again, block after block
    from rules.props import c16
    core.import_rules(ctx, [c16.r2_create_builtins], "X16")


RULES = [r1_gate_coverage, r2_exemption_table, r3_equality, r4_input_sums, r5_issuance_confinement, r6_floor, r7a, r8_subsidy_peg, r9_totals_fit, r10_no_wraparound, shared]
