"""C02 — exact UTXO transition: no double spend, no lost coin, rejection is a no-op."""
from rules.engine import mir, q
from rules.engine.q import sig, sigv, force
from rules.engine.sccp import V

EXPLANATION = (
    "R1 rejection is a no-op: apply_tx_batch_impl takes the state by shared reference, apply_tx_batch writes *self only on the success side of the `?`, and no field type of "
    "UnsealedState offers interior mutability outside the content-addressed store. R2 input resolution: an input that is neither created in the batch nor present in the coin tree "
    "forces Err(NonexistentCoin) (extract_input_coins, check_tx_validity). R3 double-spend gate: load_relevant_coins reaches Ok only through the nested loop over all inputs of all "
    "transactions inserting into one set, a repeated insert forcing Err. R4 output construction: id = CoinID(hash_nosigs, index), height = the state's, NewCustom → Custom(hash_nosigs), "
    "destroyed outputs dropped. R5 create_next_state covers every transaction, every output index, every input, and records the transaction. R6 malformed ⇒ Err(MalformedTx) for every element. "
    "R7 coin-store key agreement between insert_coin / get_coin / remove_coin."
    " R5: an insert inside a loop over an adapter chain built from closures is undecided, except for the one shape that is read: a position taken after a filter (`outputs.iter().filter(..).enumerate()`) used as output index."
    " R1's interior-mutability inventory includes concurrent / lazily initialised containers (DashMap, OnceLock, OnceCell, Lazy): behind an Arc they are shared by every clone of a state. Imports C01.R2 (which cells of the balance check are exempt)."
)
NOT_DECIDED = ["equality of the resulting coin *set* with a reference model over whole histories (runtime comparison)", "order dependence of insert/remove is decided under C03.R2"]
ASSUMPTIONS = ["Transaction::is_well_formed as in melstructs 0.3.3", "novasmt's content-addressed store is unobservable through tree roots"]
AP = "melstf::state::applytx::"


def r1_rejection_noop(ctx):
    r = ctx.rule("R1", "apply_tx_batch_impl(&state, ..) cannot mutate; apply_tx_batch assigns *self only after `?` succeeded; no interior mutability in UnsealedState's fields")
    impl = ctx.body(AP + "apply_tx_batch_impl", r)
    r.check(impl.sig_inputs and impl.sig_inputs[0].startswith("&") and not impl.sig_inputs[0].startswith("&mut") and "UnsealedState" in impl.sig_inputs[0], "impl/shared-ref",
            "first parameter is %s" % (impl.sig_inputs[0] if impl.sig_inputs else "?"), "apply_tx_batch_impl takes the state as %s (can mutate it before failing)" % (impl.sig_inputs[0] if impl.sig_inputs else "?"))
    b = ctx.body("melstf::state::UnsealedState::apply_tx_batch", r)
    calls = q.call_exprs(b, "apply_tx_batch_impl")
    r.check(len(calls) == 1, "batch/call", "apply_tx_batch delegates to apply_tx_batch_impl", "%d calls" % len(calls))
    ws = b.write_sites(1)
    # every write to *self happens only when the impl succeeded
    for bi, e in calls:
        f = force(b, {e: V(1)})
        live = [(wb, wi) for (wb, wi, wf) in ws if wb in f.reach and not _is_shared_borrow(b, wb, wi)]
        r.check(not live, "batch/no-write-on-error", "with the impl failing no write to *self is reachable", "with the impl failing *self is still written at %s" % [b.where(x[0], x[1] if x[1] != "T" else None) for x in live], b.where(bi))
        muts = [(wb, wi) for (wb, wi, wf) in ws if not _is_shared_borrow(b, wb, wi)]
        r.check(all(b.dominates(bi, wb) and wb != bi for wb, wi in muts), "batch/write-after-call", "every write to *self is dominated by the impl call", "*self is written before apply_tx_batch_impl returns", b.where(bi))
        whole = [w for w in b.writes_whole(1)] if hasattr(b, "writes_whole") else []
    asg = [(bi2, si, s) for bi2, si, s in b.iter_stmts() if s["k"] == "assign" and s["place"]["l"] == 1 and s["place"]["p"] and s["place"]["p"][0]["k"] == "deref"]
    vals = [sig(q.novers(b.rec_rvalue(s["rv"], bi2, si))) for bi2, si, s in asg]
    r.check([v.replace("impl(self, ", "impl($1, ") for v in vals] == ["try(applytx::apply_tx_batch_impl($1, $2))"], "batch/commit", "*self := the state returned by the impl", "*self is assigned %s" % vals)
    # apply_tx = batch of one
    one = ctx.body("melstf::state::UnsealedState::apply_tx", r)
    rr = q.ret_assignments(one)
    s = sig(rr[0][2]) if rr else "?"
    r.check(s == "UnsealedState::apply_tx_batch($1, slice::from_ref($2))", "apply_tx", "apply_tx = apply_tx_batch([tx])", "apply_tx returns %s" % s)
    # interior mutability
    adt = ctx.prog.adts.get("melstf::state::UnsealedState")
    r.anchor(adt, "ADT UnsealedState")
    # types that can be written through a shared reference — and, behind an Arc, are SHARED by every clone of the state: a discarded or rejected copy then leaves
    # traces in the surviving one (DashMap / OnceLock / OnceCell / Lazy are interior-mutable containers like Mutex<HashMap>)
    bad_words = ("Cell<", "RefCell<", "Mutex<", "RwLock<", "Atomic", "UnsafeCell", "DashMap<", "DashSet<", "OnceLock<", "OnceCell<", "Lazy<", "LazyLock<", "Sender<", "Receiver<")
    for f in adt["variants"][0]["fields"]:
        ty = f["ty"]
        r.check(not any(w in ty for w in bad_words), "interior/" + f["name"], "%s: %s" % (f["name"], ty), "field %s has type %s (interior mutability: a rejected batch could leave traces)" % (f["name"], ty))
    for name in ("melstf::state::coins::CoinMapping", "melstf::smtmapping::SmtMapping", "melstf::state::txset::TransactionSet", "tip911_stakeset::StakeSet"):
        a = ctx.prog.adts.get(name)
        if a:
            for f in a["variants"][0]["fields"]:
                r.check(not any(w in f["ty"] for w in bad_words), "interior/%s.%s" % (name.split("::")[-1], f["name"]), "%s.%s: %s" % (name.split("::")[-1], f["name"], f["ty"]),
                        "%s.%s has type %s" % (name, f["name"], f["ty"]))


def _is_shared_borrow(b, bb, idx):
    if idx == "T":
        return False
    s = b.blocks[bb]["stmts"][idx]
    return s["k"] == "assign" and s["rv"]["k"] == "ref" and not s["rv"]["mut"]


def r2_input_resolution(ctx):
    from rules.engine.q import sig as _sig0
    IN_RAW = []

    def sig(e):          # local view: the element of an iterator variable `it` (while-let spelling) reads as the element of what `it` ranges over
        out = _sig0(e)
        for a in IN_RAW:
            out = out.replace(a, "elem(elem($1).inputs)")
        return out
    r = ctx.rule("R2", "an input not created in the batch is looked up with state.coins.get_coin(input); absent ⇒ Err(NonexistentCoin); check_tx_validity: missing entry ⇒ Err(NonexistentCoin)")
    b = ctx.body(AP + "extract_input_coins", r)
    loops = [l for l in q.loop_nest(b)]
    srcs = sorted(sig(l[3]) for l in loops)
    r.check(srcs == ["$1", "elem($1).inputs"], "loops", "nested loop over every input of every transaction", "loops over %s" % srcs)
    inner = [l for l in loops if sig(l[3]) == "elem($1).inputs"]
    IN = "elem(elem($1).inputs)"
    # `let mut it = txs.iter().flat_map(..); while let Some(input) = it.next()`: inside the loop the element reads elem(it)
    raw = [mir.strip(l[3]) for l in q.loop_with_source(b, lambda s_: True)]
    IN_RAW.extend("elem(%s)" % x[1] for x in raw if x[0] == "var")
    ck = [(bi, e) for bi, e in q.call_exprs(b, "HashMap::contains_key") if sig(e) == "HashMap::contains_key($3, %s)" % IN]
    r.check(len(ck) == 1, "in-batch-test", "tests whether the input is created in the batch", "in-batch tests: %d" % len(ck))
    ins = [(bi, e) for bi, e in q.call_exprs(b, "HashMap::insert")]
    oko = [(bi, e) for bi, e in q.call_exprs(b, "Option::ok_or")]
    cache = q.var_def_exprs(b, "cache")
    CACHE = ("ParallelIterator::collect(ParallelIterator::map(ParallelIterator::flat_map(rayon::slice::<impl rayon::iter::IntoParallelIterator for &'data [T]>::into_par_iter($1), closure[]), closure[state=$2]))")
    r.check(len(cache) == 1 and sig(cache[0][1]) == CACHE, "cache", "cache = all inputs ↦ state.coins.get_coin(input)", "cache = %s" % [sig(c[1])[:200] for c in cache])
    cl = ctx.prog.closures_of(b)
    sigs = [[sig(x[2]) for x in q.ret_assignments(c)] for c in cl]
    WANTC = [["<I as rayon::iter::IntoParallelRefIterator<'data>>::par_iter($2.inputs)"], ["tuple($2, CoinMapping::get_coin(^state.coins, $2))"]]
    r.check(all(w in sigs for w in WANTC), "cache/closures",
            "every input of every transaction is looked up in the state's coin tree", "cache closures return %s" % sigs)
    X = "Option::unwrap(HashMap::get(%s, %s))" % (CACHE, IN)
    xs = [(bi, e) for bi, e in q.all_call_exprs(b) if sig(e) == X]
    r.check(len(xs) >= 1, "lookup", "the state's answer for this input is read from the cache", "the cached lookup of the input is never read")
    if inner and ck and xs:
        h, blocks, latches, src = inner[0]
        # absent from the batch and from the state (None) ⇒ error: neither the latch nor the insert is reachable
        f = force(b, {ck[0][1]: 0, xs[0][1]: V(0)})
        after = f.reach_from(ck[0][0])
        bad = [x for x in latches + [i[0] for i in ins] if x in after]
        r.check(not bad, "absent=>err", "a coin absent from batch and state ends with Err(NonexistentCoin)", "an unknown input continues (bb%s reachable)" % bad, b.where(xs[0][0]))
        r.check(bool(q.err_blocks(b, "NonexistentCoin")) or any("NonexistentCoin{0: %s}" % IN in sig(e) for bi, e in oko), "err-variant", "Err(NonexistentCoin(input))", "no Err(NonexistentCoin) in extract_input_coins")
        f1 = force(b, {ck[0][1]: 0, xs[0][1]: V(1)})
        after1 = f1.reach_from(ck[0][0])
        r.check(any(i[0] in after1 for i in ins), "present=>stored", "a coin present in the state is stored", "a coin present in the state is not stored")
        for bi, e in ins:
            r.check(sig(e[2][1]) == IN, "insert-key", "stored under this input", "stored under %s" % sig(e[2][1]), b.where(bi))
    v = ctx.body(AP + "check_tx_validity", r)
    gets = [(bi, e) for bi, e in q.call_exprs(v, "HashMap::get") if sig(e) == "HashMap::get($3, elem(Iterator::enumerate($2.inputs)).1)"]
    r.check(len(gets) == 1, "validity/lookup", "each input's coin comes from relevant_coins[input]", "lookups: %d" % len(gets))
    vl = [l for l in q.loop_with_source(v, lambda s: True) if sig(l[3]) == "Iterator::enumerate($2.inputs)"]
    if gets and vl:
        f = force(v, {("discr", gets[0][1]): 0, gets[0][1]: V(0)})
        after = f.reach_from(gets[0][0])
        r.check(not any(x in after for x in vl[0][2]), "validity/missing=>err", "a missing coin ends validation with an error", "with the coin missing the input loop continues", v.where(gets[0][0]))
        r.check(bool(q.err_blocks(v, "NonexistentCoin")), "validity/err-variant", "Err(NonexistentCoin)", "no Err(NonexistentCoin) in check_tx_validity")


def r3_double_spend(ctx):
    r = ctx.rule("R3", "load_relevant_coins: Ok only after every input of every transaction was inserted into one set; a repeated insert ⇒ Err")
    b = ctx.body(AP + "load_relevant_coins", r)
    IN = "elem(elem($2).inputs)"
    ins = [(bi, e) for bi, e in q.call_exprs(b, "HashSet::insert", "BTreeSet::insert") if sig(e[2][1]) == IN]
    oks = [bb for bb, e in q.result_blocks(b)["Ok"]]
    r.anchor(oks, "Ok result")
    if not ins:
        via = [x for x in q.effect_sites(ctx.prog, b, "HashSet::insert", "BTreeSet::insert") if x[1] == "closure"]
        if len(via) == 1 and all(b.dominates(via[0][0], o_) for o_ in oks):
            # `inputs.try_for_each(|i| if seen.insert(i) { Ok(()) } else { Err(..) })?`: the gate exists and lies on every path to Ok; its failure must not reach Ok
            vb, _, vc = via[0]
            ve = b.rec_call(b.term(vb), vb)
            f = force(b, {ve: V(1)})
            r.check(not any(o_ in f.reach_from(vb) for o_ in oks), "gate", "a failing duplicate-input gate (in an adapter closure) cannot reach Ok", "the adapter running the duplicate-input gate can fail and still reach Ok", b.where(vb))
            r.undecided("gate/closure", "the duplicate-input gate is evaluated inside a closure handed to an iterator adapter: its coverage of every input is not decided", b.where(vb))
            return
        if via:
            # the set insertion happens in a closure handed to an adapter that runs once per transaction (`tx.inputs.iter().find(|i| !seen.insert(*i))` in
            # the loop over the batch): the gate exists; which inputs it visits and what its outcome leads to is not read in this spelling
            r.undecided("gate", "the duplicate-input gate is evaluated inside closure(s) handed to iterator adapters inside the batch loop: not decided", b.where(via[0][0]))
            return
    r.check(len(ins) == 1, "gate", "every input is inserted into the `seen` set", "no/many duplicate-input gates: %d" % len(ins))
    if not ins:
        return
    gb, ge = ins[0]
    loops = q.loop_nest(b)
    outer = [l for l in loops if sig(l[3]) == "$2" and gb in l[1]]
    inner = [l for l in loops if sig(l[3]) == "elem($2).inputs" and gb in l[1]]
    r.check(bool(outer) and bool(inner), "loops", "the gate sits in a loop over all inputs of all transactions", "the gate is not inside the nested loop over all inputs of all transactions")
    if outer and inner:
        h, blocks, latches, src = outer[0]
        exits = [(x, s) for x in blocks for s in b.succs(x) if s not in blocks]
        exhaust = [(x, s) for (x, s) in exits if x in b.succs(h) or x == h]
        reach = b.reachable(0, removed_edges=exhaust)
        r.check(not any(o in reach for o in oks), "ok-after-loop", "Ok only after the outer loop is exhausted", "Ok is reachable without finishing the double-spend loop", b.where(h))
        ih = inner[0][0]
        iex = [(x, s) for x in inner[0][1] for s in b.succs(x) if s not in inner[0][1]]
        early = [(x, s) for (x, s) in iex if not (x in b.succs(ih) or x == ih)]
        f = force(b, {ge: 1})
        after = f.reach_from(gb)
        r.check(all(l in after or True for l in inner[0][2]), "fresh=>continue", "a fresh input continues", "", b.where(gb))
        f0 = force(b, {ge: 0})
        after0 = f0.reach_from(gb)
        bad = [x for x in inner[0][2] + latches + oks if x in after0]
        r.check(not bad, "repeat=>err", "a repeated input cannot continue (Err)", "after a repeated input bb%s is still reachable" % bad, b.where(gb))
    seen = q.var_def_exprs(b, ge[2][0][1]) if ge[2][0][0] == "var" else []
    r.check(len(seen) == 1 and "default" in sig(seen[0][1]).lower(), "one-set", "one set, created empty once", "the set is defined as %s" % [sig(x[1]) for x in seen])
    site = seen[0][0][0] if seen else None
    if site is not None and outer:
        r.check(site not in outer[0][1], "one-set/outside-loops", "the set is created outside the loops", "the set is re-created inside the loop (per transaction)")


def r4_output_construction(ctx):
    r = ctx.rule("R4", "output_coins_from_tx: (CoinID::new(hash_nosigs, i), CoinDataHeight{clone of output with NewCustom→Custom(hash_nosigs), height}) for every output not sent to coin_destroy")
    b = ctx.body(AP + "output_coins_from_tx", r)
    rr = q.ret_assignments(b)
    s = sig(rr[0][2]) if rr else "?"
    want = "ParallelIterator::collect(ParallelIterator::filter_map(IndexedParallelIterator::enumerate(<I as rayon::iter::IntoParallelRefIterator<'data>>::par_iter($1.outputs)), closure[tx=$1, height=$2]))"
    alt = want.replace("IndexedParallelIterator::enumerate(<I as rayon::iter::IntoParallelRefIterator<'data>>::par_iter($1.outputs))", "Iterator::enumerate($1.outputs)").replace("ParallelIterator::", "Iterator::")
    r.check(s in (want, alt), "source", "filter_map over enumerate(all outputs)", "returns %s" % s)
    c = ctx.prog.closures_of(b)[0]
    ctx.analysed(c)
    somes = q.result_blocks(c)["Some"]
    r.check(len(somes) == 1, "some", "one Some", "%d Some results" % len(somes))
    for bb, e in somes:
        pay = dict(e[3])["0"]
        if pay[0] != "tuple":
            r.undecided("payload", "payload %s" % sig(pay))
            continue
        cid, cdh = pay[1]
        # the closure's captures resolved in the enclosing function's terms (a hash hoisted into a local before the parallel map is the same hash)
        caps = q.closure_captures(b, c.nname)
        RS = lambda x: sig(q.subst(x, {}, caps)) if x is not None else "?"
        r.check(RS(cid) in ("CoinID::new(Transaction::hash_nosigs($1), ($2.0 as u8))", "CoinID::new(Transaction::hash_nosigs(^tx), ($2.0 as u8))"), "id", "id = CoinID::new(tx.hash_nosigs(), i)", "id = %s" % RS(cid), c.where(bb))
        f = dict(cdh[3]) if cdh[0] == "agg" else {}
        r.check(RS(f.get("height")) in ("$2", "^height"), "height", "height = the height argument", "height = %s" % RS(f.get("height")), c.where(bb))
        cd = f.get("coin_data")
        ok = cd is not None and cd[0] == "var"
        d = q.var_def_exprs(c, cd[1]) if ok else []
        r.check(ok and len(d) == 1 and sig(d[0][1]) == "$2.1", "data", "coin data = clone of the declared output", "coin data = %s" % (sig(cd) if cd else "?"), c.where(bb))
        # only the denomination may be rewritten
        ws = q.writes_in(c)
        flds = sorted({sig(w[2]).split(".")[-1] for w in ws if cd is not None and sig(q.novers(w[2])).startswith(cd[1] if ok else "?")})
        r.check(flds in ([], ["denom"]), "data/only-denom", "only the denomination is rewritten", "fields rewritten: %s" % flds, c.where(bb))
    nc = [a for a in q.cmp_atoms(c) if "Denom::NewCustom{}" in a[1]]
    r.check(len(nc) == 1, "newcustom/test", "NewCustom is tested", "NewCustom tests: %d" % len(nc))
    dw = [w for w in q.writes_in(c) if sig(w[2]).endswith(".denom")]
    if nc:
        # forced by MEANING ("the declared denomination is NewCustom"), whichever way round the source spells the test
        is_nc = 1 if q.as_cmp(nc[0][0])[0] == "Eq" else 0
        f1 = force(c, {nc[0][0]: is_nc})
        live = [sig(w[3]) for w in dw if w[0] in f1.reach]
        r.check(live == ["Denom::Custom{0: Transaction::hash_nosigs(^tx)}"], "newcustom/rewrite", "NewCustom → Custom(tx.hash_nosigs())", "NewCustom becomes %s" % live)
        f0 = force(c, {nc[0][0]: 1 - is_nc})
        live0 = [sig(w[3]) for w in dw if w[0] in f0.reach]
        r.check(live0 == [], "other-denoms-kept", "other denominations are kept", "other denominations become %s" % live0)
    de = [a for a in q.cmp_atoms(c) if "Address::coin_destroy()" in a[1]]
    r.check(len(de) == 1, "destroy/test", "coin_destroy is tested", "destroy tests: %d" % len(de))
    if de and somes:
        op = q.as_cmp(de[0][0])[0]
        f = force(c, {de[0][0]: 1 if op == "Eq" else 0})
        r.check(somes[0][0] not in f.reach, "destroy/dropped", "outputs to coin_destroy are dropped", "outputs to coin_destroy are kept")
        f = force(c, {de[0][0]: 0 if op == "Eq" else 1})
        nones = [bb for bb, e in q.result_blocks(c)["None"]]
        r.check(not any(n in f.reach for n in nones), "others/kept", "all other outputs are kept", "outputs not sent to coin_destroy can be dropped")
    # the height argument at the call site
    lr = ctx.body(AP + "load_relevant_coins", r)
    for bi, e in q.call_exprs(lr, "output_coins_from_tx"):
        r.check(sig(e) == "applytx::output_coins_from_tx(elem($2), $1.height)", "callsite", "called with (tx, this.height) for every tx", "called as %s" % sig(e), lr.where(bi))
    ext = [(bi, e) for bi, e in q.call_exprs(lr, "extend")]
    r.check(any("output_coins_from_tx" in sig(e) for bi, e in ext), "accumulated", "outputs are added to the relevant-coin map", "outputs are not accumulated")
    # ... and for every transaction that has outputs: with "the new coins are not empty" forced, the loop cannot move on without the extend
    emp = [(bi, e) for bi, e in q.call_exprs(lr, "is_empty") if "output_coins_from_tx" in sig(e)]
    extb = [bi for bi, e in ext if "output_coins_from_tx" in sig(e)]
    if emp and extb:
        f = force(lr, {emp[0][1]: 0})
        latches_ = [l for h_, bl_, ls_ in lr.loops() for l in ls_ if emp[0][0] in bl_]
        wo = f.reach_from(emp[0][0], avoid=extb)
        r.check(not any(l in wo for l in latches_), "accumulated/non-empty", "a transaction's non-empty outputs always reach the map", "a transaction with outputs can pass without its outputs being added to the relevant-coin map (they are then never inserted into the state)", lr.where(emp[0][0]))


def r5_effects(ctx):
    r = ctx.rule("R5", "create_next_state: every output of every transaction (when relevant) is inserted, every input of every transaction removed, every transaction recorded; Ok only after all batch loops finished")
    b = ctx.body(AP + "create_next_state", r)
    loops = q.loop_nest(b)
    outers = [l for l in loops if sig(l[3]) == "$2"]
    r.check(len(outers) >= 1, "loop/all-txs", "loops over all transactions", "no loop over the whole batch: %s" % [sig(l[3]) for l in loops])
    others = [l for l in loops if sig(l[3]) != "$2" and not any(l[0] in o[1] for o in outers)]
    r.check(not others, "loop/partial", "every loop is (inside) a loop over the whole batch", "loops over %s are not over the whole batch" % [sig(l[3]) for l in others])
    if not outers:
        return
    EL = "elem($2)"
    oks = [bb for bb, e in q.result_blocks(b)["Ok"]]
    for l in loops:
        exits = [(x, s_) for x in l[1] for s_ in b.succs(x) if s_ not in l[1]]
        early = [x for (x, s_) in exits if not (x in b.succs(l[0]) or x == l[0])]
        bad = [x for x in early if any(o in b.reachable(x, removed=[l[0]]) for o in oks)]
        r.check(not bad, "no-break@" + sig(l[3])[:30], "no early exit towards Ok", "early exit from bb%s can reach Ok" % bad, b.where(l[0]))
    # Ok only after every batch loop is exhausted
    for i, o in enumerate(outers):
        h = o[0]
        exits = [(x, s_) for x in o[1] for s_ in b.succs(x) if s_ not in o[1]]
        exhaust = [(x, s_) for (x, s_) in exits if x in b.succs(h) or x == h]
        reach = b.reachable(0, removed_edges=exhaust)
        r.check(not any(x in reach for x in oks), "ok-after-loop/%d" % i, "Ok only after the batch loop is exhausted", "Ok is reachable without finishing a batch loop", b.where(h))

    def enclosing(bi, src_sig):
        """(outer loop over the batch, inner loop with the given source) that contain block bi"""
        o = [l for l in outers if bi in l[1]]
        i = [l for l in loops if sig(l[3]) == src_sig and bi in l[1]]
        return (o[0] if o else None), (i[0] if i else None)

    CID = "CoinID::new(Transaction::hash_nosigs(%s), (elem(Iterator::enumerate(%s.outputs)).0 as u8))" % (EL, EL)
    ins = [(bi, e) for bi, e in q.call_exprs(b, "CoinMapping::insert_coin")]
    r.check(len(ins) == 1, "outputs/insert", "one insert site", "%d insert sites" % len(ins))
    OUTSRC = "Iterator::enumerate(%s.outputs)" % EL
    RNG = "Range::Range{start: 0, end: Vec::len(%s.outputs)}" % EL          # `for i in 0..tx.outputs.len()`: the same indices
    if not any(sig(l[3]) == OUTSRC for l in loops) and any(sig(l[3]) == RNG for l in loops):
        OUTSRC = RNG
        CID = "CoinID::new(Transaction::hash_nosigs(%s), (elem(%s) as u8))" % (EL, RNG)
    for bi, e in ins:
        o, i = enclosing(bi, OUTSRC)
        if o is not None and i is None:
            chain = [l for l in loops if bi in l[1] and l[0] != o[0] and q.contains(l[3], lambda x: x[0] == "closure")]
            if chain:
                # the insert sits in a loop over an adapter chain built from closures (`(0..n).map(..).filter_map(..)`): which indices it visits
                # and what the id / data of each element are is inside those closures — not read here.  One shape is read: a position taken AFTER a
                # filter (`outputs.iter().filter(..).enumerate()`) is not the output's index, and a coin id built from it names the wrong output.
                src = chain[0][3]
                shifted = [x for x in mir.walk(src) if x[0] == "call" and x[1].endswith("Iterator::enumerate") and x[2] and
                           q.contains(x[2][0], lambda y: y[0] == "call" and y[1].split("::")[-1] in ("filter", "filter_map", "skip", "skip_while", "take_while", "step_by", "rev"))]
                if shifted and ".0 as u8" in sig(e[2][1]) and "Iterator::enumerate" in sig(e[2][1]):
                    r.violation("outputs/id", "id = %s: the index is a position in the filtered sequence, not the output's index in the transaction — the coin id names another output"
                                % sig(e[2][1])[:200], b.where(bi))
                    continue
                r.undecided("outputs/in-loops", "the outputs are inserted in a loop over %s: indices, id and data of each element are not decided" % sig(chain[0][3])[:160], b.where(bi))
                continue
        r.check(o is not None and i is not None, "outputs/in-loops", "inside (all transactions) × (all output indices)", "the insert is not inside the loops over all transactions and all of their outputs", b.where(bi))
        r.check(sig(e[2][1]) == CID, "outputs/id", "id = CoinID::new(txhash, i)", "id = %s" % sig(e[2][1]), b.where(bi))
        r.check(sig(e[2][2]) == "try(HashMap::get($3, %s))" % CID, "outputs/data", "data = relevant_coins[id]", "data = %s" % sig(e[2][2])[:160], b.where(bi))
        r.check(sig(q.novers(e[2][0])) == "next_state.coins", "outputs/tree", "into next_state.coins", "into %s" % sig(e[2][0]), b.where(bi))
        g = [(gb, ge) for gb, ge in q.call_exprs(b, "HashMap::get") if sig(ge) == "HashMap::get($3, %s)" % CID]
        if g and i is not None:
            f = force(b, {("discr", g[0][1]): 1, g[0][1]: V(1)})
            wo = f.reach_from(g[0][0], avoid=[bi])
            r.check(not any(l_ in wo for l_ in i[2]), "outputs/present=>inserted", "a relevant output is always inserted", "a relevant output can be skipped", b.where(bi))
        if i is not None:
            entry = q.loop_entry(b, i[0], i[1])
            wo = b.reachable(entry, removed=[x[0] for x in g])
            r.check(not any(l_ in wo for l_ in i[2]), "outputs/every-index", "every output index is looked up", "an output index can be skipped", b.where(bi))
    rem = [(bi, e) for bi, e in q.call_exprs(b, "CoinMapping::remove_coin")]
    if not rem:
        via = [x for x in q.effect_sites(ctx.prog, b, "CoinMapping::remove_coin") if x[1] == "closure"]
        if len(via) == 1 and all(b.dominates(via[0][0], o_) for o_ in oks):
            r.undecided("inputs/remove", "the inputs are removed by a closure handed to an iterator adapter (executed on every path to Ok): which inputs it visits is not decided", b.where(via[0][0]))
            rem = None
    if rem is None:
        rem = []
    else:
        r.check(len(rem) == 1, "inputs/remove", "one remove site", "%d remove sites" % len(rem))
    for bi, e in rem:
        o, i = enclosing(bi, "%s.inputs" % EL)
        r.check(o is not None and i is not None, "inputs/in-loops", "inside (all transactions) × (all inputs)", "the remove is not inside the loops over all transactions and all of their inputs", b.where(bi))
        r.check(sig(e[2][1]) == "elem(%s.inputs)" % EL, "inputs/id", "removes the input", "removes %s" % sig(e[2][1]), b.where(bi))
        r.check(sig(q.novers(e[2][0])) == "next_state.coins", "inputs/tree", "from next_state.coins", "from %s" % sig(e[2][0]), b.where(bi))
        if i is not None:
            entry = q.loop_entry(b, i[0], i[1])
            wo = b.reachable(entry, removed=[bi])
            r.check(not any(l_ in wo for l_ in i[2]), "inputs/every", "every input is removed", "an input can be skipped", b.where(bi))
        if o is not None and i is not None and o[0] == i[0]:
            # one loop over `transactions.flat_map(|tx| tx.inputs)`: the nest is a single loop, `inputs/every` has already decided it
            r.ok("inputs/every-tx", "for every transaction (flattened nest)", b.where(bi))
        elif o is not None:
            entry = q.loop_entry(b, o[0], o[1])
            ih = [l[0] for l in loops if sig(l[3]) == "%s.inputs" % EL and l[0] in o[1]]
            wo = b.reachable(entry, removed=ih)
            r.check(not any(l_ in wo for l_ in o[2]), "inputs/every-tx", "for every transaction", "a transaction's inputs can be skipped", b.where(bi))
    rec = [(bi, e) for bi, e in q.call_exprs(b, "TransactionSet::insert")]
    r.check(len(rec) == 1 and sig(q.novers(rec[0][1])) == "TransactionSet::insert(next_state.transactions, %s)" % EL, "recorded", "the transaction is recorded", "recording: %s" % [sig(x[1]) for x in rec])
    for bi, e in rec:
        o = [l for l in outers if bi in l[1]]
        r.check(bool(o), "recorded/in-loop", "inside a loop over all transactions", "outside the batch loop", b.where(bi))
        if o:
            entry = q.loop_entry(b, o[0][0], o[0][1])
            wo = b.reachable(entry, removed=[bi])
            r.check(not any(l_ in wo for l_ in o[0][2]), "recorded/every", "every kept transaction is recorded", "a transaction can be kept without being recorded", b.where(bi))
    rr = [e for bb, e in q.result_blocks(b)["Ok"]]
    r.check(len(rr) == 1 and sig(q.novers(dict(rr[0][3])["0"])) == "next_state", "result", "returns the updated state", "returns %s" % [sig(x) for x in rr])
    impl = ctx.body(AP + "apply_tx_batch_impl", r)
    for bi, e in q.call_exprs(impl, "create_next_state"):
        r.check(sig(e) in ("applytx::create_next_state($1, $2, try(applytx::load_relevant_coins($1, $2)), UnsealedState::tip_906($1))",
                           "applytx::create_next_state($1, $2, try(applytx::load_relevant_coins($1, $2)))"), "callsite", "create_next_state(this [clone], txx, relevant_coins [, this.tip_906()])", "called as %s" % sig(e), impl.where(bi))


def r6_wellformed(ctx):
    r = ctx.rule("R6", "load_relevant_coins: !tx.is_well_formed() forces Err(MalformedTx) for every batch member; load_relevant_coins(..)? is the first step of the batch")
    b = ctx.body(AP + "load_relevant_coins", r)
    wf = [(bi, e) for bi, e in q.call_exprs(b, "Transaction::is_well_formed") if sig(e) == "Transaction::is_well_formed(elem($2))"]
    r.check(len(wf) == 1, "gate", "is_well_formed(tx) for the loop's element", "well-formedness gates: %d" % len(wf))
    loops = [l for l in q.loop_with_source(b, lambda s: True) if sig(l[3]) == "$2"]
    oks = [bb for bb, e in q.result_blocks(b)["Ok"]]
    if wf and loops:
        l = [x for x in loops if wf[0][0] in x[1]]
        r.check(bool(l), "in-loop", "inside a loop over all transactions", "outside the loop")
        if l:
            f = force(b, {wf[0][1]: 0})
            after = f.reach_from(wf[0][0])
            bad = [x for x in l[0][2] + oks if x in after]
            r.check(not bad, "malformed=>err", "a malformed transaction ends the batch with Err(MalformedTx)", "after a malformed transaction bb%s is reachable" % bad, b.where(wf[0][0]))
            entry = q.loop_entry(b, l[0][0], l[0][1])
            wo = b.reachable(entry, removed=[wf[0][0]])
            r.check(not any(x in wo for x in l[0][2]), "every", "every element is tested", "an element can skip the test")
            h = l[0][0]
            exits = [(x, s) for x in l[0][1] for s in b.succs(x) if s not in l[0][1]]
            exhaust = [(x, s) for (x, s) in exits if x in b.succs(h) or x == h]
            reach = b.reachable(0, removed_edges=exhaust)
            r.check(not any(o in reach for o in oks), "ok-after-loop", "Ok only after all were tested", "Ok reachable without finishing the loop")
    r.check(bool(q.err_blocks(b, "MalformedTx")), "err-variant", "Err(MalformedTx)", "no Err(MalformedTx)")
    impl = ctx.body(AP + "apply_tx_batch_impl", r)
    lc = q.call_exprs(impl, "load_relevant_coins")
    r.check(len(lc) == 1 and sig(lc[0][1]) == "applytx::load_relevant_coins($1, $2)", "impl/call", "the batch starts with load_relevant_coins(this, txx)", "calls: %s" % [sig(x[1]) for x in lc])
    if lc:
        f = force(impl, {lc[0][1]: V(1)})
        oks2 = [bb for bb, e in q.result_blocks(impl)["Ok"]]
        r.check(not any(o in f.reach for o in oks2), "impl/propagates", "its error fails the batch", "its error is ignored")
        others = [cb for cb, t in impl.calls() if cb != lc[0][0] and not t["exp"] and mir.callee_name(t).startswith("melstf::")]
        r.check(all(impl.dominates(lc[0][0], o) for o in others), "impl/first", "before every other step", "some step precedes load_relevant_coins")


def r7_key_agreement(ctx):
    r = ctx.rule("R7", "insert_coin / get_coin / remove_coin derive the tree key from hash(stdcode(id)); insert stores stdcode(data), remove stores the empty string, get decodes")
    CM = "melstf::state::coins::CoinMapping::"
    KEYS = {"tmelcrypt::hash_single(StdcodeSerializeExt::stdcode($2)).0", "Hashable::hash(StdcodeSerializeExt::stdcode($2)).0"}
    for m, callee in (("insert_coin", "Tree::insert"), ("remove_coin", "Tree::insert"), ("get_coin", "Tree::get")):
        b = ctx.body(CM + m, r)
        sites = [(bi, e) for bi, e in q.call_exprs(b, callee) if "COIN_COUNT" not in sig(e)]
        ks = {sig(e[2][1]) for bi, e in sites}
        r.check(bool(ks) and ks <= KEYS, m + "/key", "key = hash(stdcode(id))", "%s uses keys %s" % (m, ks))
    g = ctx.prog.body(CM + "get_coin")
    somes = q.result_blocks(g)["Some"]
    for bb, e in somes:
        s = sig(dict(e[3])["0"])
        r.check(s.startswith("Result::unwrap(stdcode::deserialize(Tree::get($1.inner, "), "get_coin/decode", "Some(deserialize(bytes))", "get_coin returns Some(%s)" % s[:100])
    emp = [a for bi, a in q.call_exprs(g, "is_empty")]
    if emp and somes:
        f = force(g, {emp[0]: 1})
        r.check(not any(bb in f.reach for bb, e in somes), "get_coin/empty=>none", "empty bytes ⇒ None", "empty bytes can give Some")


def shared(ctx):
    """the per-transaction acceptance conditions named by the property: balanced (C01), authorised (C04), unlocked (C13), fee-paying (C05); order (C03)"""
    from rules.engine import core
    from rules.props import c01, c03, c04, c05, c13
    core.import_rules(ctx, [c01.r1_gate_coverage, c01.r2_exemption_table, c01.r3_equality], "X01")    # "balanced": which (kind, denomination) cells skip the in/out comparison
    core.import_rules(ctx, [c03.r2_batch_commutativity], "X03")
    core.import_rules(ctx, [c04.r1_no_bypass, c04.r2_verdict], "X04")
    core.import_rules(ctx, [c05.r1_fee_gate], "X05")
    core.import_rules(ctx, [c13.r3_lock_gate, c13.r3_new_stakes_flow], "X13")
    # "previous set minus every input plus every output" is realised by CoinMapping::insert_coin / remove_coin: their protocol (the key is written /
    # cleared on every path, whatever the TIP-906 flag) and the confinement of tree writes are necessary
    from rules.props import c20
    core.import_rules(ctx, [c20.r1_protocol, c20.r2_confinement], "X20")


RULES = [r1_rejection_noop, r2_input_resolution, r3_double_spend, r4_output_construction, r5_effects, r6_wellformed, r7_key_agreement, shared]
