"""C05 — fees: minimum fee enforced; fee pool / tips / proposer reward accounted exactly."""
from rules.engine import mir, q
from rules.engine.mir import show
from rules.engine.q import sig
from rules.engine.sccp import Forcing

EXPLANATION = (
    "Static rules over the MIR of create_next_state / collect_proposer_action_fee / seal: "
    "R1 the fee gate (a comparison between tx.fee and Transaction::base_fee(tx, state.fee_multiplier, 0, covenant weight) "
    "whose 'fee < min_fee' outcome cannot reach the loop latch: sparse conditional constant propagation with that atom forced); "
    "R2 the split (linear forms of the values written to tips and fee_pool: Δtips + Δfee_pool = tx.fee, Δfee_pool = min_fee); "
    "R3 the proposer reward (linear forms: base = fee_pool>>16, Δfee_pool = -base, tips := 0, coin value = base + old tips, "
    "coin fields' provenance, call only under Some(action))."
    " R3 also requires the three effects (fee-pool debit, tips reset, reward coin) on EVERY path of collect_proposer_action_fee (a special-case early return that skips one of them is reported); `mem::replace(&mut self.tips, 0)` is read as read-then-zero."
    " Shared: C03.R5 (no new mutable global state on the fee path) and C01.R10 (fee pool and tips do not wrap)."
    ' Imports C01.R5: fee_pool and tips are written only by the fee split, the proposer reward and the TIP-909 subsidy.'
)
NOT_DECIDED = [
    "the numeric definition of Transaction::weight / base_fee (trusted base melstructs, version recorded)",
    "absence of saturation in the saturating adds (supply bound is a precondition, see C09)",
]
ASSUMPTIONS = ["melstructs::Transaction::base_fee(mult, ballast, weigher) = weight*mult>>16 as read in melstructs 0.3.3"]


def _find_base_fee(ctx, r, body):
    sites = q.calls_to(body, "Transaction::base_fee")
    r.anchor(sites, "call to Transaction::base_fee in create_next_state")
    return sites


def _weigher_cap(prog, body, w):
    """True if the weigher handed to base_fee returns min(weight(c), CAP) with CAP = u128::MAX / (tx.covenants.len() + 1) [or a smaller bound];
    otherwise a description of what it returns"""
    if w[0] != "closure":
        return "weigher is %s" % sig(w)[:60]
    cb = prog.body(w[1])
    rets = q.ret_assignments(cb) if cb is not None else []
    if len(rets) != 1 or not q.is_call(rets[0][2], "Ord::min"):
        return "weigher returns %s" % [sig(x[2])[:80] for x in rets]
    args = rets[0][2][2]
    if not any(q.is_call(a, "covenant_weight_from_bytes") for a in args):
        return "weigher returns %s" % sig(rets[0][2])[:100]
    cap = [a for a in args if not q.is_call(a, "covenant_weight_from_bytes")][0]
    caps = dict(w[2]) if len(w) > 2 else {}
    caps.update({k.replace("_ref__", ""): v for k, v in list(caps.items())})
    cap = q.subst_simplify(q.novers(cap), {}, caps)
    nf = q.arith_nf(cap)
    # MAX / (len(covenants) + 1)
    if nf[0] == "bin" and nf[1] == "Div" and q.const_val(nf[2]) == (1 << 128) - 1:
        d = nf[3]
        if d[0] == "bin" and d[1] == "Add" and 1 in (q.const_val(d[2]), q.const_val(d[3])) and ".covenants" in sig(d) and "len(" in sig(d):
            return True
    return "cap is %s" % sig(cap)[:100]


def r1_fee_gate(ctx):
    r = ctx.rule("R1", "in create_next_state, per transaction: min_fee = base_fee(tx, state.fee_multiplier, 0, c→covenant_weight_from_bytes(c)); "
                       "forcing 'tx.fee < min_fee' makes the loop latch (keeping the tx) unreachable")
    prog = ctx.prog
    body = ctx.body("melstf::state::applytx::create_next_state", r)
    sites = _find_base_fee(ctx, r, body)
    loops = q.loop_with_source(body, lambda src: src[0] == "param")
    r.anchor(loops, "loop over the batch in create_next_state")
    h, lblocks, latches, src = loops[0]
    for bi, t in sites:
        e = body.rec_call(t, bi)
        where = body.where(bi)
        args = e[2]
        # receiver: the loop element
        r.check(args[0] == ("elem", src), "base_fee/receiver", "base_fee is computed for the loop's transaction (%s)" % show(args[0]),
                "base_fee is computed for %s, not for the transaction being applied" % show(args[0]), where)
        # multiplier provenance
        m = q.unwrap0(args[1])
        root, path = q.fields_path(m)
        if path == ["fee_multiplier"] and root[0] in ("var", "param", "upvar"):
            r.ok("base_fee/multiplier", "multiplier argument is %s" % show(m), where)
        elif m[0] == "const" or (path and path[-1] != "fee_multiplier"):
            r.violation("base_fee/multiplier", "multiplier argument is %s, not the state's fee_multiplier" % show(m), where)
        else:
            r.undecided("base_fee/multiplier", "multiplier argument %s not recognised" % show(m), where)
        # ballast
        b = q.const_val(args[2])
        if b == 0:
            r.ok("base_fee/ballast", "ballast is the constant 0", where)
        elif b is not None:
            r.violation("base_fee/ballast", "ballast is the constant %d, the property's weight has no ballast" % b, where)
        else:
            r.undecided("base_fee/ballast", "ballast %s is not a constant" % show(args[2]), where)
        # weight closure
        w = args[3]
        capped = _weigher_cap(prog, body, w)
        # melstructs sums the per-covenant weights with plain `+` (Iterator::sum) while melvm saturates a covenant's weight at u128::MAX: the weights
        # handed to base_fee must be capped so that their sum cannot wrap (a wrapped sum is a tiny fee for an enormous covenant; with overflow checks, a panic)
        r.check(capped is True, "base_fee/weights-cannot-wrap", "each covenant weight is capped at u128::MAX / (number of covenants + 1): the sum inside base_fee cannot overflow",
                "the covenant weights handed to Transaction::base_fee are not capped (%s): [a covenant of saturated weight 2^128−1, any other covenant] makes their sum overflow — "
                "panic with overflow checks, a wrapped tiny minimum fee without" % (capped if capped is not True else ""), where)
        if w[0] == "fn":
            ok = w[1].endswith("covenant_weight_from_bytes")
            r.check(ok, "base_fee/weigher", "weigher is %s" % w[1], "weigher is %s, not covenant_weight_from_bytes" % w[1], where)
        elif w[0] == "closure":
            cb = prog.body(w[1])
            r.anchor(cb, "weigher closure body")
            ctx.analysed(cb)
            rets = q.ret_assignments(cb)
            core_ = rets[0][2] if len(rets) == 1 else None
            if core_ is not None and q.is_call(core_, "Ord::min") and len(core_[2]) == 2:
                core_ = [a for a in core_[2] if q.is_call(a, "covenant_weight_from_bytes")][0] if any(q.is_call(a, "covenant_weight_from_bytes") for a in core_[2]) else core_
            if core_ is not None and q.is_call(core_, "covenant_weight_from_bytes") and core_[2][0][0] == "param":
                r.ok("base_fee/weigher", "weigher closure returns %s" % show(rets[0][2]), where)
            elif rets and not any(q.has_unknown(x[2]) for x in rets):
                r.violation("base_fee/weigher", "weigher closure returns %s, not covenant_weight_from_bytes(its argument)" %
                            " | ".join(show(x[2]) for x in rets), where)
            else:
                r.undecided("base_fee/weigher", "weigher closure not understood", where)
        else:
            r.undecided("base_fee/weigher", "weigher %s not recognised" % show(w), where)
        # the gate atom
        atoms = []
        for bb in sorted(lblocks):
            t2 = body.term(bb)
            cands = []
            if t2 and t2["k"] == "call":
                cands.append(body.rec_call(t2, bb))
            for si, s in enumerate(body.blocks[bb]["stmts"]):
                if s["k"] == "assign" and s["rv"]["k"] == "bin":
                    cands.append(body.rec_rvalue(s["rv"], bb, si))
            for c in cands:
                cm = q.as_cmp(c)
                if not cm:
                    continue
                op, L, R = cm
                Lu, Ru = q.unwrap0(L), q.unwrap0(R)
                fee = ("field", ("elem", src), "fee")
                if Lu == fee and Ru == e:
                    atoms.append((c, op, True, bb))
                elif Ru == fee and Lu == e:
                    atoms.append((c, op, False, bb))
        if not atoms:
            r.violation("gate/missing", "no comparison between tx.fee and this base_fee(..) result exists in the loop: the minimum fee is not enforced", where)
            continue
        table = {a[0]: q.cmp_truth_given_lt(a[1], a[2]) for a in atoms}
        f = Forcing(body, lambda x: table.get(x))
        alive = [l for l in latches if l in f.reach]
        if alive:
            r.violation("gate/polarity", "with tx.fee < min_fee forced (%s) the loop latch bb%s is still reachable: an underpaying transaction is kept" %
                        (", ".join("%s:=%s" % (show(a[0], 80), table[a[0]]) for a in atoms), alive), body.where(atoms[0][3]))
        else:
            r.ok("gate/polarity", "tx.fee < min_fee (%s) cannot reach the latch" % ", ".join("%s %s" % (a[1], "fee,min" if a[2] else "min,fee") for a in atoms),
                 body.where(atoms[0][3]))
        # and paying exactly min_fee is accepted (the property says 'at least'): forcing equality must keep the latch reachable
        table_eq = {a[0]: q.cmp_truth_given_eq(a[1]) for a in atoms}
        f2 = Forcing(body, lambda x: table_eq.get(x))
        if all(l not in f2.reach for l in latches):
            r.violation("gate/exact-fee-rejected", "with tx.fee == min_fee forced the latch is unreachable: a transaction paying exactly the minimum is rejected", body.where(atoms[0][3]))
        else:
            r.ok("gate/exact-fee-accepted", "tx.fee == min_fee reaches the latch", body.where(atoms[0][3]))
    weigher_def(ctx, r)


def weigher_def(ctx, r):
    """covenant_weight_from_bytes(b) = Covenant::from_bytes(b).map(weight).unwrap_or(0): the weight charged for a covenant given as bytes is the weight of the decoded program
    as a whole (Loop prices its body by looking ahead, so weighing decoded pieces separately is a different number)"""
    prog = ctx.prog
    cw = ctx.body("melvm::covenant_weight_from_bytes", r)
    rets = q.ret_assignments(cw)
    e = rets[0][2] if len(rets) == 1 else None
    ok = False
    if e is not None and q.is_call(e, "unwrap_or") and q.const_val(e[2][1]) == 0:
        inner = e[2][0]
        if q.is_call(inner, "map") and q.is_call(inner[2][0], "Covenant::from_bytes") and inner[2][1][0] == "closure":
            cb = prog.body(inner[2][1][1])
            if cb is not None:
                rr = q.ret_assignments(cb)
                ok = len(rr) == 1 and q.is_call(rr[0][2], "Covenant::weight")
    inloop = set()
    for h, blocks, latches in cw.loops():
        inloop |= set(blocks)
    piecewise = [(bi, t) for bi, t in cw.calls() if t["fn"] and bi in inloop and
                 mir.norm_name(t["fn"]["path"]).split("::")[-1] in ("opcodes_weight", "opcodes_car_weight", "weight")]
    if ok:
        r.ok("weigher/def", "covenant_weight_from_bytes = from_bytes(b).map(weight).unwrap_or(0)", cw.where(rets[0][0]))
    elif piecewise:
        r.violation("weigher/def", "covenant_weight_from_bytes weighs the program piece by piece (%s inside a loop): a Loop prices its body by looking ahead at the following "
                    "instructions, so the sum of the pieces is not the weight of the program — bytes and instructions give different weights" %
                    mir.norm_name(piecewise[0][1]["fn"]["path"]).split("::")[-1], cw.where(piecewise[0][0]))
    elif e is not None and not q.has_unknown(e):
        r.violation("weigher/def", "covenant_weight_from_bytes returns %s, not from_bytes(b).map(weight).unwrap_or(0)" % show(e), "%s:%s" % (cw.file, cw.line))
    else:
        r.undecided("weigher/def", "covenant_weight_from_bytes not understood")


def _atom_key_factory(fee, minfee):
    def key(e):
        e2 = q.novers(e)
        if e2 == q.novers(fee):
            return "tx.fee"
        if e2 == q.novers(minfee):
            return "min_fee"
        root, path = q.fields_path(e2)
        if root[0] == "var" and path and path[0] in ("tips", "fee_pool") and (len(path) == 1 or path[1:] == ["0"]):
            return "state." + path[0]
        return None
    return key


def r2_split(ctx):
    r = ctx.rule("R2", "on the kept path of create_next_state: Δtips = tx.fee − min_fee, Δfee_pool = min_fee (linear forms; saturating adds read as +)")
    body = ctx.body("melstf::state::applytx::create_next_state", r)
    sites = _find_base_fee(ctx, r, body)
    loops = q.loop_with_source(body, lambda src: src[0] == "param")
    r.anchor(loops, "loop over the batch")
    h, lblocks, latches, src = loops[0]
    minfee = body.rec_call(sites[0][1], sites[0][0])
    fee = ("field", ("elem", src), "fee")
    key = _atom_key_factory(fee, minfee)
    deltas = {}
    for fld in ("tips", "fee_pool"):
        ws = [w for w in q.stmt_writes(body, fld) if w[1] in lblocks]
        r.floor("writes:" + fld, len(ws), 1)
        total = q.Lin()
        for w in ws:
            if w[0] == "assign":
                newv = q.lin(w[4], key)
                d = newv - q.Lin({"state." + fld: 1})
                total = total + d
                deltas.setdefault(fld, []).append((w, d))
            else:
                cons = w[4]
                if cons is None:
                    r.undecided("write/%s" % fld, "&mut borrow of %s with unknown consumer" % fld, body.where(w[1], w[2]))
                    continue
                cb, ct = cons
                n = mir.callee_name(ct)
                ce = body.rec_call(ct, cb)
                if n.endswith("add_assign") or n.endswith("AddAssign::add_assign"):
                    d = q.lin(ce[2][1], key)
                elif n.endswith("sub_assign"):
                    d = q.lin(ce[2][1], key).scale(-1)
                else:
                    r.undecided("write/%s" % fld, "%s passed by &mut to %s" % (fld, n), body.where(cb))
                    continue
                total = total + d
                deltas.setdefault(fld, []).append((w, d))
        deltas[fld + ":total"] = total
    dt, dp = deltas.get("tips:total"), deltas.get("fee_pool:total")
    where = body.where(sites[0][0])
    exp_pool = q.Lin({"min_fee": 1})
    exp_tips = q.Lin({"tx.fee": 1, "min_fee": -1})
    opaque = [k for k in list(dt.terms) + list(dp.terms) if not isinstance(k, str)]
    if opaque:
        r.undecided("split", "deltas leave the linear domain: Δtips=%r Δfee_pool=%r" % (dt, dp), where)
        return
    r.check(dp == exp_pool, "split/fee_pool", "Δfee_pool = %r" % dp, "Δfee_pool = %r, expected min_fee" % dp, where)
    r.check(dt == exp_tips, "split/tips", "Δtips = %r" % dt, "Δtips = %r, expected tx.fee − min_fee" % dt, where)
    r.check((dt + dp) == q.Lin({"tx.fee": 1}), "split/sum", "Δtips + Δfee_pool = tx.fee", "Δtips + Δfee_pool = %r, expected tx.fee" % (dt + dp), where)
    # the writes happen on the kept path only: dominated by the non-rejecting side of the gate — covered by R1 (latch
    # unreachable when underpaying) plus: every write block reaches a latch
    for fld in ("tips", "fee_pool"):
        for (w, d) in deltas.get(fld, []):
            reach = body.reachable(w[1])
            r.check(any(l in reach for l in latches), "split/%s/on-kept-path" % fld, "write of %s at bb%d leads to the latch" % (fld, w[1]),
                    "write of %s at bb%d cannot reach the latch (effects on a rejected path)" % (fld, w[1]), body.where(w[1], w[2]))
    # … and every kept iteration performs them: no path from the loop body's entry to a latch avoids the write of either field
    entry = q.loop_entry(body, h, lblocks)
    for fld in ("tips", "fee_pool"):
        wb = sorted({w[1] for (w, d) in deltas.get(fld, [])})
        if not wb or entry is None:
            continue
        wo = body.reachable(entry, removed=wb) if entry not in wb else set()
        if any(l in wo for l in latches):
            # a skip is harmless when it is taken only if the credited amount is zero: force every `amount ⋚ 0` test to "amount > 0"
            want = {"tips": exp_tips, "fee_pool": exp_pool}[fld]
            tbl = {}
            for ae, canon, abi in q.cmp_atoms(body):
                op, L, R = q.as_cmp(ae)
                for (x, k, o) in ((L, R, op), (R, L, q.SWAP[op])):
                    if q.const_val(k) == 0 and q.lin(x, key) == want:
                        tbl[ae] = {"Gt": 1, "Ge": 1, "Ne": 1, "Lt": 0, "Le": 0, "Eq": 0}[o]
            if tbl:
                f = q.force(body, tbl)
                wo = f.reach_from(entry, avoid=wb)
        r.check(not any(l in wo for l in latches), "split/%s/every-kept-tx" % fld, "every accepted transaction's fee reaches %s" % fld,
                "an accepted transaction can finish the iteration without %s being credited (its fee, or part of it, vanishes)" % fld, body.where(wb[0]))


def r3_reward(ctx):
    r = ctx.rule("R3", "collect_proposer_action_fee: base = fee_pool>>16; Δfee_pool = −base; tips := 0; one coin {id: proposer_reward(height), "
                       "value: base + old tips, denom Mel, covhash action.reward_dest, height: self.height}; reached only under Some(action)")
    prog = ctx.prog
    body = ctx.body("melstf::state::UnsealedState::collect_proposer_action_fee", r)

    def key(e):
        e2 = q.novers(e)
        root, path = q.fields_path(e2)
        if root[0] in ("var", "param") and path and path[0] in ("tips", "fee_pool") and (len(path) == 1 or path[1:] == ["0"]):
            ver = e[1][2] if (e[0] == "field" and False) else None
            return None
        return None

    def vkey(e):
        # distinguish old (version 0) and later reads
        root, path = q.fields_path(e)
        if root[0] in ("var", "param") and path and path[0] in ("tips", "fee_pool") and (len(path) == 1 or path[1:] == ["0"]):
            # a variable carries its version as 3rd component, a `&mut` parameter whose pointee was written before the read as 4th
            ver = root[2] if (root[0] == "var" and len(root) > 2) else (root[3] if (root[0] == "param" and len(root) > 3) else 0)
            return "%s@%d" % (path[0], ver)
        return None
    # fee_pool delta
    deltas = {}
    for fld in ("fee_pool", "tips"):
        ws = q.stmt_writes(body, fld)
        r.floor("writes:" + fld, len(ws), 1)
        total = None
        for w in ws:
            if w[0] == "assign":
                total = ("set", q.lin(w[4], vkey), w)
            else:
                cons = w[4]
                if cons is None:
                    r.undecided("write/" + fld, "unknown consumer of &mut %s" % fld, body.where(w[1], w[2]))
                    continue
                cb, ct = cons
                n = mir.callee_name(ct)
                ce = body.rec_call(ct, cb)
                if n.endswith("sub_assign"):
                    total = ("delta", q.lin(ce[2][1], vkey).scale(-1), w)
                elif n.endswith("add_assign"):
                    total = ("delta", q.lin(ce[2][1], vkey), w)
                elif n.endswith("mem::replace") and len(ct["args"]) == 2:
                    # `let old = mem::replace(&mut self.f, v)`: f := v (the call's value, the old f, is read by K3 as the field before the write)
                    total = ("set", q.lin(body.rec_operand(ct["args"][1], cb, "T"), vkey), w)
                elif n.endswith("mem::take"):
                    total = ("set", q.Lin({}, 0), w)
                else:
                    r.undecided("write/" + fld, "%s passed by &mut to %s" % (fld, n), body.where(cb))
        deltas[fld] = total
    base = q.Lin({"fee_pool@0": q.Fraction(1, 65536)}, 0, {"floor"})
    fp = deltas.get("fee_pool")
    if fp is None:
        r.violation("fee_pool/unchanged", "fee_pool is not decreased by the proposer's share")
    elif fp[0] == "delta":
        r.check(fp[1] == base.scale(-1), "fee_pool/delta", "Δfee_pool = %r" % fp[1], "Δfee_pool = %r, expected −(fee_pool>>16)" % fp[1], body.where(fp[2][1], fp[2][2]))
    else:
        d = fp[1] - q.Lin({"fee_pool@0": 1})
        r.check(d == base.scale(-1), "fee_pool/delta", "Δfee_pool = %r" % d, "Δfee_pool = %r, expected −(fee_pool>>16)" % d, body.where(fp[2][1], fp[2][2]))
    tp = deltas.get("tips")
    if tp is None:
        r.violation("tips/not-zeroed", "tips are not reset when the proposer collects them")
    elif tp[0] == "set":
        r.check(tp[1] == q.Lin({}, 0), "tips/zeroed", "tips := 0", "tips := %r, expected 0" % tp[1], body.where(tp[2][1], tp[2][2]))
    else:
        r.undecided("tips/zeroed", "tips updated by a delta %r" % tp[1])
    # the coin
    ins = q.calls_to(body, "CoinMapping::insert_coin")
    r.check(len(ins) == 1, "coin/one", "exactly one coin is inserted", "%d coins are inserted by collect_proposer_action_fee" % len(ins), "%s:%s" % (body.file, body.line))
    for bi, t in ins:
        e = body.rec_call(t, bi)
        where = body.where(bi)
        cid, cdh = e[2][1], e[2][2]
        r.check(q.is_call(cid, "CoinID::proposer_reward") and q.fields_path(q.unwrap0(cid[2][0]))[1] == ["height"], "coin/id",
                "coin id = %s" % show(cid), "coin id = %s, expected CoinID::proposer_reward(self.height)" % show(cid), where)
        if cdh[0] != "agg":
            r.undecided("coin/data", "coin data %s not an aggregate" % show(cdh), where)
            continue
        f = dict(cdh[3])
        cd = f.get("coin_data")
        hroot, hpath = q.fields_path(q.unwrap0(f.get("height")))
        r.check(hpath == ["height"] and hroot[0] in ("var", "param"), "coin/height", "coin height = self.height", "coin height = %s" % show(f.get("height")), where)
        if cd is None or cd[0] != "agg":
            r.undecided("coin/data", "coin_data not an aggregate", where)
            continue
        g = dict(cd[3])
        val = q.lin(g["value"], vkey)
        expv = q.Lin({"fee_pool@0": q.Fraction(1, 65536), "tips@0": 1}, 0, {"floor"})
        r.check(val == expv, "coin/value", "coin value = %r" % val, "coin value = %r, expected (fee_pool>>16) + tips (values before the update)" % val, where)
        r.check(g["denom"] == ("agg", "melstructs::Denom", "Mel", ()), "coin/denom", "denom Mel", "denom = %s" % show(g["denom"]), where)
        croot, cpath = q.fields_path(q.unwrap0(g["covhash"]))
        r.check(cpath == ["reward_dest"] and croot[0] == "param", "coin/covhash", "covhash = action.reward_dest", "covhash = %s, expected action.reward_dest" % show(g["covhash"]), where)
        # conservation: Δfee_pool + Δtips + value = 0
        if fp and tp and fp[0] == "delta" and tp[0] == "set":
            s = fp[1] + (tp[1] - q.Lin({"tips@0": 1})) + val
            r.check(s == q.Lin({}, 0), "conservation", "Δfee_pool + Δtips + coin value = 0", "Δfee_pool + Δtips + coin value = %r ≠ 0" % s, where)
    # every path: the three effects (fee_pool debit, tips reset, reward coin) are not skipped on a special case.  A path that returns without
    # one of them is reported unless what it skips is provably nothing (not attempted: a zero-reward early return also drops the tips).
    effects = [("coin", bi) for bi, t in ins]
    for fld in ("fee_pool", "tips"):
        for w in q.stmt_writes(body, fld):
            effects.append((fld, w[1]))
    for nm in ("coin", "fee_pool", "tips"):
        blocks = [bb for n_, bb in effects if n_ == nm]
        if not blocks:
            continue
        wo = body.reachable(0, removed=blocks)
        r.check(not any(x in wo for x in body.return_blocks()), "every-path/" + nm, "%s is updated on every path" % nm,
                "a path through collect_proposer_action_fee returns without %s: the proposer is not paid exactly fee_pool/65536 + tips on that path"
                % {"coin": "creating the reward coin", "fee_pool": "debiting the fee pool", "tips": "resetting the tips"}[nm], body.where(blocks[0]))
    # reached only under Some(action) in seal
    seal = ctx.body("melstf::state::UnsealedState::seal", r)
    apa = ctx.body("melstf::state::UnsealedState::apply_proposer_action", r)
    edges, _ = prog.callgraph()
    callers = prog.callers_of(body.id)
    r.check(callers == [apa.id], "callers", "only apply_proposer_action calls collect_proposer_action_fee",
            "collect_proposer_action_fee is called from %s" % callers)
    callers2 = prog.callers_of(apa.id)
    r.check(callers2 == [seal.id], "callers2", "only seal calls apply_proposer_action", "apply_proposer_action is called from %s" % callers2)
    for bi, t in q.calls_to(seal, "apply_proposer_action"):
        # forcing action == None must make the call unreachable
        def atom(x):
            if x[0] == "discr" and x[1][0] == "param" and x[1][2] == "action":
                return 0
            return None
        f = Forcing(seal, atom)
        r.check(bi not in f.reach, "only-with-action", "apply_proposer_action is unreachable when action is None",
                "apply_proposer_action is reachable when action is None", seal.where(bi))
        e = seal.rec_call(t, bi)
        a = e[2][1]
        r.check(q.novers(a) == ("try", ("param", 2, "action")), "action-arg", "the action applied is the caller's", "the action applied is %s" % show(a), seal.where(bi))


def shared(ctx):
    """the minimum fee is a function of the transaction and the multiplier alone: nothing on the fee path may remember earlier transactions (C03.R5: no new
    mutable global state — a memo of weights keyed by anything coarser than the whole transaction prices a padded transaction at its slim weight)"""
    from rules.engine import core
    from rules.props import c03
    core.import_rules(ctx, [c03.r5_globals], "X03")
    from rules.props import c01
    core.import_rules(ctx, [c01.r10_no_wraparound], "X01")
    # "accounted exactly": fee_pool and tips change only in the fee split, the proposer reward and the TIP-909 subsidy — no other function (next_unsealed, a restore
    # path, a clean-up) writes them
    core.import_rules(ctx, [c01.r5_issuance_confinement], "X01")     # fee pool and tips stop at the top of their range, they do not wrap


RULES = [r1_fee_gate, r2_split, r3_reward, shared]
