"""C08 — restart equivalence: a state rebuilt from its block behaves identically."""
from rules.engine import mir, q
from rules.engine.mir import show
from rules.engine.q import sig, has_unknown

EXPLANATION = (
    "R1 reconstruction map: every field of the UnsealedState aggregate built by SealedState::from_block (field list taken from the ADT, "
    "so a new field is automatically an obligation) is sourced from the block / stake set / store, and from the same-named header field "
    "where there is one; the sealed proposer action comes from the block. R2 a field that from_block initialises with a constant must "
    "provably hold that constant in every sealed state: on every path of `seal` a callee that sets it to that constant is passed, or "
    "next_unsealed resets it (must-pass-through over CFG + call graph). R3 pairing with to_block: everything from_block reads from the "
    "block is written by to_block."
    " R2 additionally decides the part of the `tips` clause that holds today: a block sealed WITH a proposer action has tips = 0 on every path through seal and its callees (`tips/const-under-action`); the recorded finding D5 is the seal(None) case."
    ' Imports C01.R5 (no further writer of the unrecorded field `tips`) and C20.R1/R2 (coin entries and counts are written through to the tree on every path: from_block rebuilds the coin map from the tree alone).'
)
NOT_DECIDED = ["extensional equality of all future behaviour (follows from R1+R2 only together with C03/C07)",
               "that the content-addressed store returns the tree with the requested root (novasmt, trusted base)"]
ASSUMPTIONS = ["Database::get_tree(root) yields the tree whose root hash is `root`"]

FB = "melstf::state::SealedState::from_block"


def _agg(ctx, r):
    body = ctx.body(FB, r)
    rets = q.ret_assignments(body)
    r.anchor(rets, "return of from_block")
    e = mir.strip(rets[0][2])
    if e[0] != "agg" or not e[1].endswith("SealedState"):
        r.undecided("shape", "from_block returns %s" % sig(e))
        return None
    f = dict(e[3])
    inner = mir.strip(f["0"])
    return body, rets[0], inner, f.get("1")


def r1_reconstruction_map(ctx):
    r = ctx.rule("R1", "from_block: every UnsealedState field is sourced from blk/stakes/db (same-named header field where one exists); SealedState.1 = blk.proposer_action")
    got = _agg(ctx, r)
    if not got:
        return
    body, ret, inner, act = got
    where = body.where(ret[0], ret[1])
    fields = ctx.prog.adt_fields("melstf::state::UnsealedState")
    r.floor("UnsealedState fields", len(fields or []), 11)
    if inner[0] != "agg":
        r.undecided("shape", "inner state is %s" % sig(inner), where)
        return
    actual = dict(inner[3])
    tree = lambda ctor, h: {"%s(Option::unwrap(Database::get_tree($3, $1.header.%s.0)))" % (ctor, h)}
    table = {
        "network": "$1.header.network", "height": "$1.header.height",
        "fee_pool": "$1.header.fee_pool", "fee_multiplier": "$1.header.fee_multiplier", "dosc_speed": "$1.header.dosc_speed",
        "history": tree("SmtMapping::new", "history_hash"), "coins": tree("CoinMapping::new", "coins_hash"), "pools": tree("SmtMapping::new", "pools_hash"),
        "transactions": {"Iterator::collect(HashSet::iter($1.transactions))", "Iterator::collect($1.transactions)"},
        "stakes": "$2",
    }
    consts = {}
    for f in fields:
        if f not in actual:
            r.violation("field/%s/missing" % f, "from_block does not initialise `%s`" % f, where)
            continue
        v = actual[f]
        depends = q.contains(v, lambda x: x[0] == "param")
        if not depends:
            consts[f] = v
            r.info("field/%s/constant" % f, "`%s` is initialised with the constant %s → obligation R2" % (f, sig(v)), where)
            continue
        if f in table:
            q.check_table(r, "field", {f: v}, {f: table[f]}, where, prog=ctx.prog)
        else:
            r.violation("field/%s/unmapped" % f, "UnsealedState has a field `%s` with no designated source (source is %s)" % (f, sig(v)), where)
    r.check(act is not None and sig(act) == "$1.proposer_action", "proposer_action", "SealedState.1 = blk.proposer_action",
            "SealedState.1 = %s" % (sig(act) if act is not None else "?"), where)
    ctx.extra["constant_initialisers"] = {f: sig(v) for f, v in consts.items()}


def _sets_const(prog, body, field, cval, memo):
    """blocks of `body` that set self.<field> := cval directly or call a local function that does so on all its paths"""
    if body.id in memo:
        return memo[body.id]
    memo[body.id] = (False, set())
    blocks = set()
    for w in q.stmt_writes(body, field):
        if w[0] == "assign" and q.const_val(w[4]) == cval:
            blocks.add(w[1])
        elif w[0] == "mutref" and w[4] is not None:
            # `mem::replace(&mut self.f, K)` / `mem::take(&mut self.f)` (K, resp. the default 0, is what the field holds afterwards)
            cb, ct = w[4]
            n_ = mir.callee_name(ct)
            if n_.endswith("mem::replace") and len(ct["args"]) == 2:
                v_ = body.rec_operand(ct["args"][1], cb, "T")
                if v_[0] == "agg" and len(v_[3]) == 1:
                    v_ = v_[3][0][1]
                if q.const_val(v_) == cval:
                    blocks.add(cb)
            elif n_.endswith("mem::take") and cval == 0:
                blocks.add(cb)
    for bi, t in body.calls():
        cb = prog.by_id.get(mir.callee_id(t))
        if cb is not None and cb.crate == "melstf":
            # the state must be passed on (by &mut self / by value)
            sub, _ = _sets_const(prog, cb, field, cval, memo)
            if sub:
                blocks.add(bi)
    reach = body.reachable(0, removed=blocks)
    must = bool(blocks) and not any(b in reach for b in body.return_blocks())
    memo[body.id] = (must, blocks)
    return memo[body.id]


def _read_by_header(ctx, field):
    """bodies reachable from SealedState::header that read UnsealedState.<field>"""
    prog = ctx.prog
    h = prog.body("melstf::state::SealedState::header")
    if h is None:
        return ["?"]
    out = []
    for bid in sorted(prog.reach_from([h.id])):
        b = prog.by_id[bid]
        if b.crate != "melstf":
            continue
        hit = False
        for bi, si, s_ in b.iter_stmts():
            if s_["k"] != "assign":
                continue
            for pl in _places_read(s_["rv"]):
                if any(p["k"] == "field" and p["n"] == field and mir.norm_name(p["owner"]) == "melstf::state::UnsealedState" for p in pl["p"]):
                    hit = True
        for bi, t in b.calls():
            for a in t["args"]:
                if a["k"] in ("copy", "move") and any(p["k"] == "field" and p["n"] == field and mir.norm_name(p["owner"]) == "melstf::state::UnsealedState" for p in a["place"]["p"]):
                    hit = True
        if hit:
            out.append(b.nname.split("::")[-1])
    return out


def _places_read(rv):
    k = rv["k"]
    out = []
    if k in ("ref", "rawptr", "discr"):
        out.append(rv["place"])
    for op in mir._rvalue_operands(rv):
        if op["k"] in ("copy", "move"):
            out.append(op["place"])
    return out


def r2_constant_fields_invariant(ctx):
    r = ctx.rule("R2", "a field that from_block sets to a constant holds that constant in every sealed state (seal sets it on every path, or next_unsealed resets it)")
    got = _agg(ctx, r)
    if not got:
        return
    body, ret, inner, act = got
    where = body.where(ret[0], ret[1])
    actual = dict(inner[3]) if inner[0] == "agg" else {}
    seal = ctx.body("melstf::state::UnsealedState::seal", r)
    nu = ctx.body("melstf::state::SealedState::next_unsealed", r)
    n = 0
    for f, v in actual.items():
        if q.contains(v, lambda x: x[0] == "param"):
            continue
        n += 1
        cv = q.const_val(v)
        if cv is None and v[0] == "call" and v[1].endswith("::default") and not v[2]:
            ty = v[1].split(" as ")[0].lstrip("<")
            if ty in q.INT_BITS:
                cv = 0
        read_by_header = _read_by_header(ctx, f)
        if cv is None:
            # non-integer constants (e.g. Default::default()): acceptable only if next_unsealed resets the field the same way
            # before anything observable reads it (header() and what it calls must not read it)
            ws = [w for w in q.stmt_writes(nu, f) if w[0] == "assign"]
            if ws and all(sig(w[4]) == sig(v) for w in ws) and not read_by_header:
                r.ok("%s/reset-by-next_unsealed" % f, "`%s` is reset by next_unsealed and not read by header()" % f, where)
            elif has_unknown(v):
                r.undecided("%s/non-integer-constant" % f, "`%s` initialised with %s" % (f, sig(v)), where)
            else:
                r.violation("%s/not-invariant" % f, "`%s` is rebuilt as the constant %s although the sealed state's own value is observable%s" %
                            (f, sig(v), " (read by header(): %s)" % read_by_header if read_by_header else ""), where)
            continue
        must_seal, blocks = _sets_const(ctx.prog, seal, f, cv, {})
        ws_nu = [w for w in q.stmt_writes(nu, f) if w[0] == "assign" and q.const_val(w[4]) == cv]
        reset = False
        if ws_nu:
            reach = nu.reachable(0, removed={w[1] for w in ws_nu})
            reset = not any(b in reach for b in nu.return_blocks())
        if must_seal:
            r.ok("%s/invariant-by-seal" % f, "`%s` := %d on every path of seal" % (f, cv), "%s:%s" % (seal.file, seal.line))
        elif reset and not read_by_header:
            r.ok("%s/reset-by-next_unsealed" % f, "`%s` := %d on every path of next_unsealed" % (f, cv), "%s:%s" % (nu.file, nu.line))
        else:
            detail = ("`%s` is rebuilt as the constant %d, but a sealed state can hold another value: seal sets it to %d only at bb%s (not on every path) "
                      "and next_unsealed copies it — the rebuilt state diverges from the original" % (f, cv, cv, sorted(blocks)))
            r.violation("%s/not-invariant" % f, detail, where)
            # the part of the clause that does hold today and must keep holding: when the block is sealed WITH a proposer action, the field has the
            # constant on every path (so a chain of action-sealed blocks is restart-equivalent).  A special-case early return that skips the reset breaks it.
            discr = [x for b2, t in seal.iter_terms("switch") for x in [seal.rec_operand(t["discr"], b2, "T")] if x[0] == "discr" and sig(q.novers(x[1])) == "$2"]
            if discr:
                fz = q.force(seal, {discr[0]: 1})
                wo = fz.reach_from(0, avoid=list(blocks))
                r.check(bool(blocks) and not any(b in wo for b in seal.return_blocks()), "%s/const-under-action" % f, "sealed with a proposer action ⇒ `%s` = %d on every path" % (f, cv),
                        "a block sealed with a proposer action can keep `%s` ≠ %d (a path through seal and its callees skips the reset): from_block rebuilds it as %d, "
                        "so the rebuilt state pays the next proposer differently" % (f, cv, cv), "%s:%s" % (seal.file, seal.line))
    if n == 0:
        r.ok("no-constant-fields", "from_block has no constant initialisers")


def r3_pairing(ctx):
    r = ctx.rule("R3", "every block component from_block reads (header, transactions, proposer_action) is produced by to_block from the state")
    got = _agg(ctx, r)
    if not got:
        return
    body, ret, inner, act = got
    tb = ctx.body("melstf::state::SealedState::to_block", r)
    rets = q.ret_assignments(tb)
    e = mir.strip(rets[0][2])
    written = {f for f, v in e[3]} if e[0] == "agg" else set()
    read = set()
    for x in mir.walk(("tuple", (inner, act))):
        if x[0] == "field" and x[1][0] == "param" and x[1][1] == 1:
            read.add(x[2])
    for f in sorted(read):
        r.check(f in written, "reads/" + f, "blk.%s is written by to_block" % f, "from_block reads blk.%s which to_block does not write" % f)
    r.floor("block components read", len(read), 3)


def shared(ctx):
    """from_block restores the scalar fields from the header and the trees from the header's roots: that is only faithful while header() records each field of the
    state exactly (C07.R1 — a clamped, rounded or substituted header field is restored as the wrong value) and the stake commitment covers the whole stake set (C07.R6)."""
    from rules.engine import core
    from rules.props import c07
    core.import_rules(ctx, [c07.r1_header_map, c07.r6_stake_commitment], "X07")
    # `tips` is the one field no header records (recorded finding D5: what a seal(None) leaves in it is lost by from_block).  The finding is delimited by who can put
    # something there: only the fee split of accepted transactions.  A new writer of tips (or of fee_pool outside the fee stages) widens what a restart loses.
    from rules.props import c01
    core.import_rules(ctx, [c01.r5_issuance_confinement], "X01")
    # from_block restores the coin map as `CoinMapping::new(tree under the header's root)`: whatever the coin map knows must be IN the tree at every block boundary.
    # C20.R1: insert_coin / remove_coin write the coin entry and its count through to the tree on every path (nothing is buffered next to it)
    from rules.props import c20
    core.import_rules(ctx, [c20.r1_protocol, c20.r2_confinement], "X20")


RULES = [r1_reconstruction_map, r2_constant_fields_invariant, r3_pairing, shared]
