"""MIR fact model + analysis kernel (K1 call graph, K2 CFG, K3 expression recovery,
K4 atoms, K5 forcing, K7 writes).  Pure Python, no execution of the analysed code.
"""
import json
import os
import re
from collections import defaultdict, deque

def _strip_generics(s):
    out = []
    i = 0
    n = len(s)
    while i < n:
        if s.startswith("::<", i):
            # find the matching '>'
            depth = 0
            j = i + 2
            while j < n:
                c = s[j]
                if c == "<":
                    depth += 1
                elif c == ">" and s[j - 1] != "-":
                    depth -= 1
                    if depth == 0:
                        break
                j += 1
            inner = s[i + 3:j]
            if " as " in inner or inner.startswith("impl "):
                # qualified path `<T as Trait>` / `<impl ..>`: keep, but normalise its inside
                out.append("::<" + _strip_generics(inner) + ">")
            i = j + 1
            continue
        out.append(s[i])
        i += 1
    return "".join(out)


_NORM_MEMO = {}


def norm_name(s):
    """strip generic argument lists `::<..>` (keeping `<T as Trait>` qualifiers)"""
    if not s:
        return s
    r = _NORM_MEMO.get(s)
    if r is None:
        r = _strip_generics(s)
        _NORM_MEMO[s] = r
    return r


class Body:
    def __init__(self, prog, j, crate):
        self.prog = prog
        self.j = j
        self.crate = crate
        self.name = j["name"]
        self.nname = norm_name(j["name"])
        self.id = j["id"]
        self.kind = j["kind"]
        self.file = j["file"]
        self.line = j["line"]
        self.end_line = j["end_line"]
        self.parent = j.get("parent")
        self.promoted = j.get("promoted")
        self.arg_count = j["arg_count"]
        self.locals = j["locals"]
        self.blocks = j["blocks"]
        self.vis = j.get("vis", "")
        self.sig_inputs = j.get("sig_inputs", [])
        self.sig_output = j.get("sig_output", "")
        self.n = len(self.blocks)
        # debug names for whole locals
        self.local_name = {}
        self.upvar_name = {}
        for d in j["debug"]:
            p = d.get("place")
            if not p:
                continue
            if not p["p"]:
                # first name wins (shadowing produces distinct locals anyway)
                self.local_name.setdefault(p["l"], d["name"])
        # disambiguate shadowed names: name, name#2, name#3 ... in order of local index
        cnt = defaultdict(int)
        for l in sorted(self.local_name):
            n = self.local_name[l]
            cnt[n] += 1
            if cnt[n] > 1:
                self.local_name[l] = "%s#%d" % (n, cnt[n])
        self._succ = None
        self._pred = None
        self._dom = None
        self._pdom = None
        self._defs = None
        self._rd = None
        self._memo = {}
        self._restrict = None

    # ------------------------------------------------------------------ CFG (K2)
    def term(self, bb):
        return self.blocks[bb]["term"]

    def succs(self, bb):
        if self._succ is None:
            self._build_cfg()
        return self._succ[bb]

    def preds(self, bb):
        if self._pred is None:
            self._build_cfg()
        return self._pred[bb]

    def _build_cfg(self):
        succ = [[] for _ in range(self.n)]
        for i, b in enumerate(self.blocks):
            t = b["term"]
            if t is None or b["cleanup"]:
                continue
            k = t["k"]
            if k == "goto":
                succ[i] = [t["t"]]
            elif k == "switch":
                s = [x[1] for x in t["targets"]] + [t["otherwise"]]
                seen = []
                for x in s:
                    if x not in seen:
                        seen.append(x)
                succ[i] = seen
            elif k in ("call", "assert", "drop"):
                if t.get("target") is not None:
                    succ[i] = [t["target"]]
        pred = [[] for _ in range(self.n)]
        for i, ss in enumerate(succ):
            for s in ss:
                pred[s].append(i)
        self._succ, self._pred = succ, pred

    def reachable(self, start=0, removed=(), removed_edges=()):
        removed = set(removed)
        removed_edges = set(removed_edges)
        if start in removed:
            return set()
        seen = {start}
        dq = deque([start])
        while dq:
            b = dq.popleft()
            for s in self.succs(b):
                if s in removed or (b, s) in removed_edges or s in seen:
                    continue
                seen.add(s)
                dq.append(s)
        return seen

    def return_blocks(self):
        return [i for i, b in enumerate(self.blocks) if b["term"] and b["term"]["k"] == "return" and not b["cleanup"]]

    def dominators(self):
        if self._dom is not None:
            return self._dom
        reach = self.reachable(0)
        allb = set(reach)
        dom = {b: set(allb) for b in allb}
        dom[0] = {0}
        changed = True
        order = sorted(allb)
        while changed:
            changed = False
            for b in order:
                if b == 0:
                    continue
                ps = [p for p in self.preds(b) if p in allb]
                if not ps:
                    continue
                new = set.intersection(*(dom[p] for p in ps)) | {b}
                if new != dom[b]:
                    dom[b] = new
                    changed = True
        self._dom = dom
        return dom

    def dominates(self, a, b):
        d = self.dominators()
        return b in d and a in d[b]

    def loops(self):
        """natural loops: list of (header, body-set, latches)"""
        dom = self.dominators()
        out = {}
        for b in dom:
            for s in self.succs(b):
                if s in dom[b]:  # back edge b -> s
                    body = {s, b}
                    st = [b]
                    while st:
                        x = st.pop()
                        if x == s:
                            continue
                        for p in self.preds(x):
                            if p in dom and p not in body:
                                body.add(p)
                                st.append(p)
                    if s in out:
                        out[s][0].update(body)
                        out[s][1].append(b)
                    else:
                        out[s] = [body, [b]]
        return [(h, v[0], v[1]) for h, v in sorted(out.items())]

    # ------------------------------------------------------------------ statements
    def iter_stmts(self):
        for bi, b in enumerate(self.blocks):
            if b["cleanup"]:
                continue
            for si, s in enumerate(b["stmts"]):
                yield bi, si, s

    def iter_terms(self, kind=None):
        for bi, b in enumerate(self.blocks):
            if b["cleanup"] or b["term"] is None:
                continue
            if kind is None or b["term"]["k"] == kind:
                yield bi, b["term"]

    def calls(self):
        return list(self.iter_terms("call"))

    # ------------------------------------------------------------------ definitions
    def defs(self):
        """local -> list of (bb, idx) full definitions; idx == 'T' for call destinations.
        Also computes self.partial (locals with projected writes) and self.mutref
        (locals whose address is taken mutably)."""
        if self._defs is not None:
            return self._defs
        defs = defaultdict(list)
        partial = defaultdict(list)
        mutref = defaultdict(list)
        for bi, si, s in self.iter_stmts():
            if s["k"] == "assign":
                pl = s["place"]
                if not pl["p"]:
                    defs[pl["l"]].append((bi, si))
                elif pl["p"][0]["k"] == "deref" and 1 <= pl["l"] <= self.arg_count:
                    # `(*param).f = v`: a write THROUGH a reference parameter changes what it points to, not the parameter (like the `&mut (*x)`
                    # re-borrows below); reads of it stay positional ($k) and carry the version of the field (rec_place / write_sites)
                    pass
                else:
                    partial[pl["l"]].append((bi, si))
                rv = s["rv"]
                if rv["k"] in ("ref", "rawptr") and rv["mut"]:
                    # &mut (*x) re-borrows through a reference do not mutate x itself
                    p = rv["place"]
                    if not (p["p"] and p["p"][0]["k"] == "deref"):
                        mutref[p["l"]].append((bi, si))
            elif s["k"] == "setdiscr":
                partial[s["place"]["l"]].append((bi, si))
        for bi, t in self.iter_terms("call"):
            d = t["dest"]
            if not d["p"]:
                defs[d["l"]].append((bi, "T"))
            else:
                partial[d["l"]].append((bi, "T"))
        self._defs = defs
        self.partial = partial
        self.mutref = mutref
        return defs

    def reaching(self):
        """reaching definitions at block entry: list (per block) of dict local -> frozenset(defsites)"""
        if self._rd is not None:
            return self._rd
        defs = self.defs()
        gen = [dict() for _ in range(self.n)]
        for l, sites in defs.items():
            for (bi, si) in sites:
                cur = gen[bi].get(l)
                if cur is None or _site_after((bi, si), cur):
                    gen[bi][l] = (bi, si)
        IN = [None] * self.n
        IN[0] = {}
        wl = deque([0])
        inq = {0}
        while wl:
            b = wl.popleft()
            inq.discard(b)
            out = dict(IN[b])
            for l, site in gen[b].items():
                out[l] = frozenset([site])
            for s in self.succs(b):
                if IN[s] is None:
                    IN[s] = dict(out)
                    ch = True
                else:
                    ch = False
                    cur = IN[s]
                    for l, v in out.items():
                        o = cur.get(l)
                        if o is None:
                            cur[l] = v
                            ch = True
                        elif not v <= o:
                            cur[l] = o | v
                            ch = True
                if ch and s not in inq:
                    wl.append(s)
                    inq.add(s)
        self._rd = IN
        return IN

    def defs_reaching(self, local, bb, idx):
        """definition sites of `local` reaching the point just before statement idx of bb
        (idx == 'T' → before the terminator)."""
        defs = self.defs().get(local, [])
        best = None
        for (bi, si) in defs:
            if bi == bb and _idx_lt(si, idx):
                if best is None or _site_after((bi, si), best):
                    best = (bi, si)
        if best is not None:
            return [best]
        IN = self.reaching()[bb]
        if IN is None:
            return []
        out = sorted(IN.get(local, ()), key=lambda x: (x[0], -1 if x[1] == "T" else x[1]))
        if self._restrict is not None:
            # path-restricted recovery (see `restricted`): only definitions in blocks still reachable under the forcing
            kept = [s_ for s_ in out if s_[0] in self._restrict]
            if kept:
                return kept
        return out

    def restricted(self, reach):
        """context manager: expression recovery that joins only the definitions lying in `reach` (the blocks reachable under a forcing,
        `Forcing.reach`).  `let x = if c {a} else {b}` recovered under c := 1 is `a`, wherever the join is consumed (struct fields,
        helper results, tuples) — unlike q.resolve_phis, which must recognise the alternatives after the fact."""
        body = self

        class _R:
            def __enter__(self_):
                self_.saved = (body._memo, body._restrict)
                body._memo = {}
                body._restrict = set(reach)
                return body

            def __exit__(self_, *a):
                body._memo, body._restrict = self_.saved
                return False
        return _R()

    # ------------------------------------------------------------------ K3 expression recovery
    def where(self, bb, idx=None):
        b = self.blocks[bb]
        if idx is None or idx == "T":
            return "%s:%s" % (self.file, b["term"]["line"])
        return "%s:%s" % (self.file, b["stmts"][idx]["line"])

    def rec_operand(self, op, bb, idx, depth=0):
        k = op["k"]
        if k == "const":
            return self._const(op)
        if k in ("copy", "move"):
            return self.rec_place(op["place"], bb, idx, depth)
        return ("unknown", "operand")

    def _const(self, op):
        if "fn" in op:
            f = op["fn"]
            return ("fn", norm_name(f["resolved"] or f["path"]))
        if "closure" in op:
            return ("closure", norm_name(op["closure"]), ())
        if "static" in op:
            return ("static", norm_name(op["static"]))
        if "promoted" in op:
            pb = self.prog.promoted_body(self, op["promoted"], op.get("promoted_owner"))
            if pb is not None:
                return pb.promoted_value()
            return ("unknown", "promoted")
        if "int" in op:
            ty = op["ty"]
            if ty == "bool":
                return ("const", "bool", int(op["int"]))
            v = int(op["int"])
            if "def" in op:
                dn = norm_name(op["def"])
                kc = self.prog.known_consts
                if kc is not None and dn not in kc:
                    return ("const", ty, v)       # a constant the rules do not know by name (hoisted literal): its value is what matters
                return ("const", ty, v, dn)
            return ("const", ty, v)
        if "def" in op:
            return ("cdef", norm_name(op["def"]))
        return ("const", op["ty"], op["dbg"])

    def promoted_value(self):
        """value expression of a promoted constant body: what *_0 refers to"""
        key = ("promoted_value",)
        if key in self._memo:
            return self._memo[key]
        rets = self.return_blocks()
        v = ("unknown", "promoted")
        if rets:
            v = self.rec_place({"l": 0, "p": []}, rets[0], "T", 0)
        self._memo[key] = v
        return v

    def write_sites(self, l):
        """sites that may change (part of) local l or what it points to:
        list of (bb, idx, first_field|None)"""
        key = ("ws", l)
        if key in self._memo:
            return self._memo[key]
        out = []

        def first_field(projs):
            for p in projs:
                if p["k"] == "field":
                    return p["n"]
                if p["k"] != "deref":
                    return None
            return None
        for bi, si, s in self.iter_stmts():
            if s["k"] == "assign":
                pl = s["place"]
                if pl["l"] == l:
                    out.append((bi, si, first_field(pl["p"])))
                rv = s["rv"]
                if rv["k"] in ("ref", "rawptr") and rv["mut"] and rv["place"]["l"] == l:
                    # only count the borrow if it is not merely a `for`-loop style reborrow of an iterator
                    out.append((bi, si, first_field(rv["place"]["p"])))
            elif s["k"] == "setdiscr" and s["place"]["l"] == l:
                out.append((bi, si, None))
        for bi, t in self.iter_terms("call"):
            if t["dest"]["l"] == l:
                out.append((bi, "T", first_field(t["dest"]["p"])))
        self._memo[key] = out
        return out

    def version(self, l, field, bb, idx):
        n = 0
        for (wb, wi, wf) in self.write_sites(l):
            if wf is not None and field is not None and wf != field:
                continue
            if wb == bb:
                if _idx_lt(wi, idx):
                    n += 1
            elif self.dominates(wb, bb):
                n += 1
        return n

    def rec_place(self, place, bb, idx, depth=0):
        base = self.rec_local(place["l"], bb, idx, depth)
        if (base[0] == "var" and self.local_name.get(place["l"]) == base[1]) or \
                (base[0] == "param" and base[1] == place["l"] and self.write_sites(place["l"])):
            f = None
            for p in place["p"]:
                if p["k"] == "field":
                    f = p["n"]
                    break
                if p["k"] != "deref":
                    break
            ver = self.version(place["l"], f, bb, idx)
            if base[0] == "var":
                base = ("var", base[1], ver)
            elif ver:
                # a `&mut` parameter whose pointee has been written before this read
                base = ("param", base[1], base[2], ver)
        e = base
        projs = place["p"]
        i = 0
        while i < len(projs):
            p = projs[i]
            k = p["k"]
            if k == "deref":
                pass
            elif k == "field":
                if p["owner"] == "closure" and e[0] == "closure_env":
                    e = mk_upvar(p["n"])
                else:
                    e = mk_field(e, p["n"])
            elif k == "downcast":
                # downcast is always followed by a field
                if i + 1 < len(projs) and projs[i + 1]["k"] == "field":
                    e = mk_vfield(e, p["v"], projs[i + 1]["n"])
                    i += 1
                else:
                    e = ("variant", e, p["v"])
            elif k == "index":
                e = ("index", e, self.rec_local(p["l"], bb, idx, depth + 1))
            elif k == "constindex":
                e = ("index", e, ("const", "usize", p["offset"]))
            else:
                e = ("proj", e, k)
            i += 1
        return e

    def rec_local(self, l, bb, idx, depth=0):
        if depth > 60:
            return ("unknown", "depth")
        key = ("loc", l, bb, idx)
        if key in self._memo:
            v = self._memo[key]
            if v is None:
                return ("rec", self.local_name.get(l, "_%d" % l))
            return v
        self._memo[key] = None
        v = self._rec_local(l, bb, idx, depth)
        self._memo[key] = v
        return v

    def _rec_local(self, l, bb, idx, depth):
        self.defs()
        name = self.local_name.get(l)
        if self.kind == "Closure" and l == 1:
            return ("closure_env",)
        is_param = 1 <= l <= self.arg_count
        alldefs = self._defs.get(l, [])
        mutated = bool(self.partial.get(l)) or bool(self.mutref.get(l))
        if is_param and not alldefs and not mutated:
            return ("param", l, name or "_%d" % l)
        if name is not None and name.split("#")[0] == "iter" and len(alldefs) == 1 and not self.partial.get(l) \
                and alldefs[0][1] != "T" and self.blocks[alldefs[0][0]]["stmts"][alldefs[0][1]]["exp"]:
            # the hidden iterator binding of a `for` loop: inline its single definition
            return self.rec_def(alldefs[0], depth + 1)
        if name is not None and not is_param and len(alldefs) == 1 and alldefs[0][1] != "T" and self.locals[l]["ty"].startswith("&") \
                and not self.mutref.get(l) and all(self._deref_first(w) for w in self.partial.get(l, [])):
            # a named reference that is bound once (`let fp = &mut x.f;`): an alias; writes through it are writes to the pointee
            rv = self.blocks[alldefs[0][0]]["stmts"][alldefs[0][1]]["rv"]
            if rv["k"] in ("ref", "use"):
                return self.rec_def(alldefs[0], depth + 1)
        if name is not None and not mutated and not is_param and len(alldefs) > 1:
            # `let x = if c {a} else {b}`: join of the reaching definitions; loop-carried updates fall back to a leaf
            sites = self.defs_reaching(l, bb, idx)
            if sites:
                es = [self.rec_def(s_, depth + 1) for s_ in sites]
                e = self._option_join(sites, es) or mk_phi(es)
                if not contains(e, lambda x: x[0] == "rec"):
                    return e
            return ("var", name)
        if name is not None and (mutated or len(alldefs) > 1 or (is_param and (alldefs or mutated))):
            # a user variable whose value depends on the program point: leaf
            return ("var", name)
        if is_param:
            return ("param", l, name or "_%d" % l)
        sites = self.defs_reaching(l, bb, idx)
        if not sites:
            if len(alldefs) == 1:
                sites = alldefs
            else:
                return ("unknown", "nodef:_%d" % l)
        if len(sites) == 1:
            e = self.rec_def(sites[0], depth + 1)
            if mutated and name is None:
                e = ("mutated", e)
            return e
        es = [self.rec_def(s, depth + 1) for s in sites]
        return self._option_join(sites, es) or mk_phi(es)

    def _option_join(self, sites, exprs):
        """`if let Some(v) = x { v } else { d }` / `match x { Some(v) => v, None => d }`: the join of the Some-payload of x (defined under the Some edge of the
        switch on x's discriminant) and a value defined under the None edge is `x.unwrap_or(d)`"""
        if len(sites) != 2:
            return None
        for a, b_ in ((0, 1), (1, 0)):
            sa = exprs[a]
            while sa[0] == "mutated":
                sa = sa[1]
            if sa[0] != "try" or contains(exprs[b_], lambda x: x[0] in ("rec", "unknown")):
                continue
            X = sa[1]
            for bi, blk in enumerate(self.blocks):
                t = blk["term"]
                if not t or t["k"] != "switch" or blk["cleanup"]:
                    continue
                d = self.rec_operand(t["discr"], bi, "T")
                if d != ("discr", X):
                    continue
                # only Option (None = 0, Some = 1); for a Result the payload under `try` is the Ok side and 0/1 are the other way round
                oty = None
                for st in blk["stmts"]:
                    if st["k"] == "assign" and st["rv"]["k"] == "discr" and not st["rv"]["place"]["p"]:
                        oty = self.locals[st["rv"]["place"]["l"]]["ty"]
                if not oty or not oty.lstrip("&").startswith(("std::option::Option<", "core::option::Option<")):
                    continue
                tg = {str(v): tgt for v, tgt in t["targets"]}
                some, none = tg.get("1"), tg.get("0")
                if some is None and none is not None:
                    some = t["otherwise"]
                if none is None and some is not None:
                    none = t["otherwise"]
                if some is None or none is None or some == none:
                    continue
                if list(self.preds(some)) != [bi] or list(self.preds(none)) != [bi]:
                    continue
                if (some == sites[a][0] or self.dominates(some, sites[a][0])) and (none == sites[b_][0] or self.dominates(none, sites[b_][0])):
                    return ("call", "std::option::Option::unwrap_or", (X, exprs[b_]))
        return None

    def _deref_first(self, site):
        bb, idx = site
        if idx == "T":
            pl = self.blocks[bb]["term"]["dest"]
        else:
            st = self.blocks[bb]["stmts"][idx]
            pl = st["place"]
        return bool(pl["p"]) and pl["p"][0]["k"] == "deref"

    def rec_def(self, site, depth=0):
        key = ("def", site)
        if key in self._memo:
            v = self._memo[key]
            if v is None:
                return ("rec", "def")
            return v
        self._memo[key] = None
        v = self._rec_def(site, depth)
        self._memo[key] = v
        return v

    def _rec_def(self, site, depth):
        bb, idx = site
        if idx == "T":
            t = self.blocks[bb]["term"]
            return self.rec_call(t, bb, depth)
        s = self.blocks[bb]["stmts"][idx]
        return self.rec_rvalue(s["rv"], bb, idx, depth)

    def rec_call(self, t, bb, depth=0):
        f = t["fn"]
        args = tuple(self.rec_operand(a, bb, "T", depth + 1) for a in t["args"])
        if f is None:
            callee = self.rec_operand(t["fnop"], bb, "T", depth + 1)
            return simplify_call("<indirect>", (callee,) + args)
        path = norm_name(f["resolved"] or f["path"])
        path = self.prog.alias_names.get(path, path)          # a known function found under a new path keeps its old name in recovered expressions
        tp = norm_name(f["path"])
        if tp in ("std::convert::From::from", "std::convert::Into::into") and len(args) == 1:
            # newtype wrap/unwrap spelled as a conversion: render like the literal spelling (`CoinValue(x)` / `x.0`)
            dt = self._place_type(t.get("dest"))
            at = self._op_type(t["args"][0])
            nt = NEWTYPES.get(at)
            if nt and dt == nt[1]:
                return mk_field(args[0], "0")
            if at in INT_TYPES and dt in INT_TYPES and at != dt:
                return ("cast", args[0], at, dt)      # `u16::from(k)` is the lossless `k as u16`
        if tp == "std::iter::IntoIterator::into_iter" and len(args) == 1:
            at = self._op_type(t["args"][0]) or ""
            for coll in ("std::collections::HashMap", "std::collections::BTreeMap", "std::collections::HashSet", "std::collections::BTreeSet",
                         "imbl::HashMap", "imbl::OrdMap", "imbl::HashSet", "imbl::OrdSet", "imbl::Vector"):
                if at.startswith("&" + coll + "<"):
                    return ("call", coll + "::iter", (args[0],))
        if tp in ("std::iter::Iterator::next", "std::iter::DoubleEndedIterator::next_back") and len(args) == 1 and strip(args[0])[0] == "var":
            # `let mut it = xs.iter(); while let Some(x) = it.next()`: the explicit iterator variable is only ever advanced; what it ranges over
            # is what it was initialised with (the hidden iterator of a `for` loop is treated the same way)
            nm = strip(args[0])[1]
            ls = [l_ for l_, n_ in self.local_name.items() if n_ == nm]
            self.defs()
            if len(ls) == 1 and len(self._defs.get(ls[0], [])) == 1 and not (1 <= ls[0] <= self.arg_count):
                init = self.rec_def(self._defs[ls[0]][0], depth + 1)
                if not contains(init, lambda x: x[0] in ("rec", "unknown")):
                    args = (init,)
        if tp == "std::default::Default::default" and len(args) == 0:
            # `CoinValue::default()` / `u128::default()`: the numeric zero (the wrapper of an integer newtype is not rendered)
            dt = self._place_type(t.get("dest"))
            base = NEWTYPES.get(dt, (None, dt))[1]
            if base in INT_TYPES:
                return ("const", base, 0)
        if (tp == "std::default::Default::default" and len(args) == 0) or (path.endswith("Option::unwrap_or_default") and len(args) == 1):
            # the all-zero hash: `HashVal::default()` is `HashVal([0; 32])`, `.unwrap_or_default()` on an Option<HashVal> is `.unwrap_or(HashVal([0; 32]))`
            dt = self._place_type(t.get("dest"))
            if dt == "tmelcrypt::HashVal":
                z = ("agg", "tmelcrypt::HashVal", "HashVal", (("0", ("repeat", ("const", "u8", 0), "32")),))
                return z if not args else ("call", path[:-len("unwrap_or_default")] + "unwrap_or", (args[0], z))
        if path.endswith("Option::unwrap_or_default") and len(args) == 1:
            # numeric default: `.unwrap_or_default()` ≡ `.unwrap_or(0)` (also for the integer newtypes, whose wrapper is not rendered)
            dt = self._place_type(t.get("dest"))
            base = NEWTYPES.get(dt, (None, dt))[1]
            if base in ("u8", "u16", "u32", "u64", "u128", "usize", "i8", "i16", "i32", "i64", "i128", "isize"):
                return ("call", path[:-len("unwrap_or_default")] + "unwrap_or", (args[0], ("const", base, 0)))
        return simplify_call(path, args, tp)

    def _place_type(self, pl):
        if not pl:
            return None
        if pl["p"]:
            last = pl["p"][-1]
            if last["k"] == "field":
                return last.get("ty")
            if all(p_["k"] == "deref" for p_ in pl["p"]):
                # `*r` / `**r` of a reference-typed local: the pointee type
                ty = self.locals[pl["l"]]["ty"]
                for _ in pl["p"]:
                    if ty.startswith("&mut "):
                        ty = ty[5:]
                    elif ty.startswith("&"):
                        ty = ty[1:].lstrip()
                    else:
                        return None
                return ty
            if last["k"] == "deref" and len(pl["p"]) >= 2 and pl["p"][-2]["k"] == "field":
                ty = pl["p"][-2].get("ty") or ""
                return ty[5:] if ty.startswith("&mut ") else (ty[1:].lstrip() if ty.startswith("&") else None)
            return None
        return self.locals[pl["l"]]["ty"]

    def _op_type(self, op):
        if op.get("k") in ("move", "copy"):
            return self._place_type(op["place"])
        if op.get("k") == "const":
            return op.get("ty")
        return None

    def rec_rvalue(self, rv, bb, idx, depth=0):
        k = rv["k"]
        if k == "use":
            return self.rec_operand(rv["op"], bb, idx, depth)
        if k in ("ref", "rawptr"):
            return self.rec_place(rv["place"], bb, idx, depth)
        if k == "bin":
            a = self.rec_operand(rv["a"], bb, idx, depth + 1)
            b = self.rec_operand(rv["b"], bb, idx, depth + 1)
            return mk_bin(rv["op"], a, b)
        if k == "un":
            return ("un", rv["op"], self.rec_operand(rv["a"], bb, idx, depth + 1))
        if k == "cast":
            e = self.rec_operand(rv["op"], bb, idx, depth + 1)
            ck = rv["ck"]
            if ck.startswith("PointerCoercion") or ck in ("Transmute", "PtrToPtr"):
                return e
            if rv["from"] == rv["ty"]:
                return e
            return ("cast", e, rv["from"], rv["ty"])
        if k == "agg":
            ops = tuple(self.rec_operand(o, bb, idx, depth + 1) for o in rv["ops"])
            ak = rv["ak"]
            if ak == "adt":
                nm_ = norm_name(rv["path"])
                if nm_ == "melstructs::CoinID" and list(rv["fields"]) == ["txhash", "index"]:
                    # `CoinID { txhash, index }` is what `CoinID::new(txhash, index)` builds (melstructs): one spelling
                    return ("call", "melstructs::CoinID::new", ops)
                return ("agg", nm_, rv["variant"], tuple(zip(rv["fields"], ops)))
            if ak == "closure":
                return ("closure", norm_name(rv["path"]), tuple(zip(rv["fields"], ops)))
            if ak == "tuple":
                return ("tuple", ops)
            if ak == "array":
                return ("array", ops)
            return ("unknown", "agg")
        if k == "discr":
            return ("discr", self.rec_place(rv["place"], bb, idx, depth + 1))
        if k == "repeat":
            return ("repeat", self.rec_operand(rv["op"], bb, idx, depth + 1), rv["n"])
        return ("unknown", "rvalue:" + rv.get("dbg", k)[:40])


def _idx_lt(a, b):
    """statement index a strictly before b within one block ('T' is last)"""
    if a == "T":
        return False
    if b == "T":
        return True
    return a < b


def _site_after(a, b):
    return _idx_lt(b[1], a[1])


# ---------------------------------------------------------------------- expression constructors
# single-field tuple structs whose `From`/`Into` impls only wrap / unwrap field 0 (derive_more in melstructs, newtypes in tmelcrypt)
INT_TYPES = ("u8", "u16", "u32", "u64", "u128", "usize", "i8", "i16", "i32", "i64", "i128", "isize")
NEWTYPES = {
    "melstructs::CoinValue": ("melstructs::CoinValue", "u128"),
    "melstructs::BlockHeight": ("melstructs::BlockHeight", "u64"),
    "melstructs::Address": ("melstructs::Address", "tmelcrypt::HashVal"),
    "melstructs::TxHash": ("melstructs::TxHash", "tmelcrypt::HashVal"),
    "tmelcrypt::HashVal": ("tmelcrypt::HashVal", "[u8; 32]"),
}
TRANSPARENT_CALLS = {
    # receiver-preserving adapters: value identity is what matters for provenance
    "std::clone::Clone::clone", "std::borrow::Borrow::borrow", "std::convert::AsRef::as_ref",
    "std::ops::Deref::deref", "std::ops::DerefMut::deref_mut", "std::convert::Into::into",
    "std::convert::From::from", "std::borrow::ToOwned::to_owned", "std::iter::IntoIterator::into_iter",
    "std::borrow::BorrowMut::borrow_mut", "std::convert::AsMut::as_mut",
}
TRANSPARENT_SUFFIX = ("::clone", "::into_iter", "::deref", "::as_ref", "::borrow", "::to_owned", "::to_vec", "::as_slice", "::as_mut_slice")


def simplify_call(path, args, trait_path=None):
    tp = trait_path or path
    # two spellings the trusted base defines as identical (stdcode: `x.stdcode()` is `serialize(&x).unwrap()`; tmelcrypt: `x.hash()` is `hash_single(x)`)
    if path in ("std::result::Result::unwrap", "std::result::Result::<T, E>::unwrap", "core::result::Result::unwrap") or path.endswith("Result::unwrap") or path.endswith("Result::expect"):
        if args and args[0][0] == "call" and args[0][1] == "stdcode::serialize" and len(args[0][2]) == 1:
            return ("call", "stdcode::StdcodeSerializeExt::stdcode", (args[0][2][0],))
    if path.endswith("FromIterator>::from_iter") or (tp or "").endswith("FromIterator::from_iter") or path.split("::")[-1] == "from_iter" and "FromIterator" in path:
        if len(args) == 1:
            return ("call", "std::iter::Iterator::collect", (args[0],))          # `C::from_iter(it)` is `it.collect::<C>()`
    if path.split("::")[-1] == "unwrap_or_else" and ("Option" in path or "Result" in path) and len(args) == 2 and args[1][0] == "fn" and args[1][1].endswith("Default>::default"):
        return ("call", path[:-len("unwrap_or_else")] + "unwrap_or_default", (args[0],))          # `.unwrap_or_else(T::default)` is `.unwrap_or_default()`
    if tp in ("std::ops::FnOnce::call_once", "std::ops::FnMut::call_mut", "std::ops::Fn::call") and len(args) == 2 and args[0][0] == "fn" and args[1][0] == "tuple":
        # a function item called through a generic `impl FnOnce(..)` parameter (a helper spliced into its caller): the call itself
        return simplify_call(args[0][1], tuple(args[1][1]))
    if path in ("std::mem::replace", "core::mem::replace") and len(args) == 2:
        return args[0]                  # the value of `mem::replace(&mut x, v)` is x as it was before the call (the write is seen by K7)
    if path in ("std::mem::take", "core::mem::take") and len(args) == 1:
        return args[0]
    if len(args) == 1 and (path.endswith("Vec::as_slice") or path.endswith("Vec::<T, A>::as_slice") or path.endswith("::as_slice")):
        return args[0]
    if len(args) == 2 and path.split("::")[-1] == "index" and "ops::Index<" in path:
        i = strip(args[1])
        if i[0] == "field" and i[2] == "0" and i[1][0] == "elem" and i[1][1][0] == "call" and i[1][1][1].endswith("Iterator::enumerate") and strip(i[1][1][2][0]) == strip(args[0]):
            return ("field", i[1], "1")          # v[i] for i the position of enumerate(v): the element itself
    if len(args) == 1 and path in ("core::slice::<impl [T]>::first", "std::slice::<impl [T]>::first"):
        return ("call", path[:-len("first")] + "get", (args[0], ("const", "usize", 0)))      # `.first()` is `.get(0)`
    if len(args) == 3 and path.split("::")[-1] == "map_or_else" and "Option" in path:
        pre = path[:-len("map_or_else")]          # x.map_or_else(d, f) is x.map(f).unwrap_or_else(d)
        return simplify_call(pre + "unwrap_or_else", (("call", pre + "map", (args[0], args[2])), args[1]))
    if len(args) == 3 and path.split("::")[-1] == "map_or" and ("Option" in path or "Result" in path):
        pre = path[:-len("map_or")]          # x.map_or(d, f) is x.map(f).unwrap_or(d)
        return ("call", pre + "unwrap_or", (("call", pre + "map", (args[0], args[2])), args[1]))
    if tp == "tmelcrypt::Hashable::hash" and len(args) == 1:
        return ("call", "tmelcrypt::hash_single", (args[0],))
    if tp in TRANSPARENT_CALLS and len(args) == 1:
        return args[0]
    if tp in ("std::iter::Iterator::next", "std::iter::DoubleEndedIterator::next_back") and len(args) == 1:
        return ("next", args[0])
    if tp == "std::ops::Try::branch" and len(args) == 1:
        return ("branch", args[0])
    if tp == "std::iter::Iterator::cloned" or tp == "std::iter::Iterator::copied":
        return args[0]
    if tp in ("std::option::Option::<T>::cloned", "std::option::Option::cloned", "std::option::Option::copied",
              "std::option::Option::as_ref", "std::option::Option::as_mut", "std::result::Result::as_ref"):
        return args[0]
    if path.endswith(("::iter", "::iter_mut")) and len(args) == 1 and (path.startswith("core::slice") or path.startswith("std::vec::Vec") or path.startswith("std::slice") or "slice::<impl [T]>" in path):
        return args[0]
    return ("call", path, args)


def zip_counter(e):
    """A if e is an element of `A.zip(0..)`: the pair (x, position) — `enumerate()` with the components swapped"""
    if e[0] == "elem" and e[1][0] == "call" and e[1][1].endswith("Iterator::zip") and len(e[1][2]) == 2:
        r = strip(e[1][2][1])
        if r[0] == "agg" and r[1].endswith("ops::RangeFrom") and len(r[3]) == 1 and r[3][0][1][0] == "const" and r[3][0][1][2] == 0:
            return e[1][2][0]
    return None


def mk_field(e, name):
    if e[0] == "const" and name == "0" and e[1] in NEWTYPES:
        return e          # `MAX_COINVAL.0`: the wrapper of an integer newtype constant is not rendered
    if name in ("0", "1"):
        za = zip_counter(e)
        if za is not None:
            # `for (x, i) in v.iter().zip(0..)` is `for (i, x) in v.iter().enumerate()`
            return ("field", ("elem", ("call", "std::iter::Iterator::enumerate", (za,))), "1" if name == "0" else "0")
    if e[0] == "agg":
        for (n, v) in e[3]:
            if n == name:
                return v
    if e[0] == "tuple":
        try:
            return e[1][int(name)]
        except Exception:
            pass
    if e[0] == "phi":
        return mk_phi([mk_field(x, name) for x in e[1]])
    return ("field", e, name)


def mk_try(e):
    """success payload of an Option/Result value, however the failure arm is spelled: `x?`, `x.ok_or(E)?`, `x.map_err(f)?`,
    `match x { Some(v) => v, None => return .. }`, `if let Some(v) = x` all give ('try', x)"""
    while e[0] == "call" and len(e[2]) >= 1 and e[1].split("::")[-1] in ("ok_or", "ok_or_else", "map_err") and \
            ("Option" in e[1] or "Result" in e[1]):
        e = e[2][0]
    if e[0] == "phi":
        # a value assembled on several paths (an inlined helper's return slot): failure alternatives do not reach the success payload
        ok = []
        for a in e[1]:
            if a[0] == "agg" and a[2] in ("Err", "None"):
                continue
            if a[0] == "call" and a[1].endswith("::from_residual"):
                continue
            ok.append(a)
        if len(ok) == 1:
            a = ok[0]
            if a[0] == "agg" and a[2] in ("Ok", "Some") and len(a[3]) == 1:
                return a[3][0][1]
            return mk_try(a)
    if e[0] == "agg" and e[2] in ("Ok", "Some") and len(e[3]) == 1:
        return e[3][0][1]
    b = beta_option_map(e)
    if b is not None:
        return b
    return ("try", e)


def mk_upvar(name):
    """a captured place.  Edition-2021 closures capture disjoint fields (`self.pc`, `self.instrs` — upvars `_ref__self__pc`, ..) where
    older ones, or ones that use the whole variable, capture `self`: both read as fields of the one captured variable"""
    pre = "_ref__" if name.startswith("_ref__") else ""
    parts = name[len(pre):].split("__")
    if len(parts) > 1 and all(parts):
        e = ("upvar", pre + parts[0])
        for f in parts[1:]:
            e = mk_field(e, f)
        return e
    return ("upvar", name)


def beta_option_map(e):
    """payload of `x.map(|v| proj(v))` for a capture-free closure that only projects its argument (`|l| l.end`): proj(payload of x)"""
    prog = _PROG[0]
    if prog is None or e[0] != "call" or len(e[2]) != 2 or e[1].split("::")[-1] != "map" or not ("Option" in e[1] or "Result" in e[1]):
        return None
    c = strip(e[2][1])
    if c[0] != "closure":
        return None
    cb = prog.body(c[1])
    if cb is None:
        return None
    rets = []
    for bi, si, st in cb.iter_stmts():
        if st["k"] == "assign" and st["place"]["l"] == 0 and not st["place"]["p"]:
            rets.append(cb.rec_rvalue(st["rv"], bi, si))
    for bi, t in cb.calls():
        if t["dest"]["l"] == 0 and not t["dest"]["p"]:
            return None
    if len(rets) != 1:
        return None
    r = strip(rets[0])
    # a pure projection chain of the closure's parameter
    x = r
    while x[0] == "field" and len(x) == 3:
        x = x[1]
    if not (x[0] == "param" and x[1] == 2) or r == x:
        return None
    inner = mk_try(e[2][0])

    def sub(y):
        if y[0] == "param":
            return inner
        return mk_field(sub(y[1]), y[2])
    return sub(r)


_PROG = [None]      # the program being analysed (set by Program.__init__): lets expression constructors look into closure bodies


def flat_source(src):
    """`xs.iter().flat_map(|x| x.ys.iter())`: (outer source, inner source with the closure's parameter replaced by the outer element), or None"""
    s0 = strip(src)
    prog = _PROG[0]
    if prog is None or s0[0] != "call" or s0[1].split("::")[-1] != "flat_map" or len(s0[2]) != 2:
        return None
    c = strip(s0[2][1])
    if c[0] != "closure":
        return None
    cb = prog.body(c[1])
    if cb is None:
        return None
    rets = []
    for bi, si, st in cb.iter_stmts():
        if st["k"] == "assign" and st["place"]["l"] == 0 and not st["place"]["p"]:
            rets.append(cb.rec_rvalue(st["rv"], bi, si))
    for bi, t in cb.calls():
        if t["dest"]["l"] == 0 and not t["dest"]["p"]:
            rets.append(cb.rec_call(t, bi))
    if len(rets) != 1:
        return None
    outer = s0[2][0]

    def sub(e):
        if not isinstance(e, tuple):
            return e
        if e and e[0] == "param" and e[1] == 2:
            return ("elem", outer)
        if e and e[0] == "field" and len(e) == 3:
            return mk_field(sub(e[1]), e[2])
        return tuple(sub(x) if isinstance(x, tuple) else x for x in e)
    return outer, sub(strip(rets[0]))


def param_types(b):
    """types of the parameters of a function body (closures: none — their parameters are dictated by the adapter they are passed to)"""
    if b.kind == "Closure":
        return None
    import re
    # lifetimes and the names of generic parameters are spelling
    return [re.sub(r"'[a-z_0-9]+ ?", "", b.locals[i]["ty"]) for i in range(1, b.arg_count + 1)]


def range_over(src):
    """V if src is the range 0..len(V)"""
    s0 = strip(src)
    if s0[0] == "agg" and s0[1].endswith("ops::Range") and len(s0[3]) == 2:
        d = dict(s0[3])
        st, en = d.get("start"), d.get("end")
        if st is not None and st[0] == "const" and st[2] == 0 and en is not None:
            en = strip(en)
            if en[0] == "call" and en[1].split("::")[-1] == "len" and len(en[2]) == 1:
                v = en[2][0]
                # only a sequence that cannot change during the loop (no mutated local anywhere in its expression)
                if not contains(v, lambda x: x[0] in ("var", "mutated", "phi", "unknown")):
                    return v
    return None


def mk_vfield(e, variant, name):
    # payload of x? : Continue(v) of branch(x) is the success payload of x
    if e[0] == "branch" and variant == "Continue":
        return mk_try(e[1])
    if e[0] == "next" and variant == "Some":
        fs = flat_source(e[1])
        if fs is not None:
            return ("elem", fs[1])          # an element of the flattened sequence is an element of the inner sequence of an outer element
        rs = range_over(e[1])
        if rs is not None:
            # `for i in 0..v.len()`: i is the position component of `v.iter().enumerate()`
            return ("field", ("elem", ("call", "std::iter::Iterator::enumerate", (rs,))), "0")
        return ("elem", e[1])
    if e[0] == "agg" and e[2] == variant:
        for (n, v) in e[3]:
            if n == name:
                return v
    if variant in ("Some", "Ok") and name == "0":
        return mk_try(e)
    return ("vfield", e, variant, name)


COMMUTATIVE = {"Add", "Mul", "BitAnd", "BitOr", "BitXor", "Eq", "Ne", "AddWithOverflow", "MulWithOverflow",
               "AddUnchecked", "MulUnchecked"}


_FOLD = {"Add": lambda x, y: x + y, "Sub": lambda x, y: x - y, "Mul": lambda x, y: x * y, "Shl": lambda x, y: x << y if 0 <= y < 256 else None,
         "Shr": lambda x, y: x >> y if 0 <= y < 256 else None, "Div": lambda x, y: x // y if y > 0 and x >= 0 else None,
         "BitAnd": lambda x, y: x & y, "BitOr": lambda x, y: x | y}


def mk_bin(op, a, b):
    # constant folding: `1 << 20` written in place and a constant holding 1048576 are the same value
    if op in _FOLD and a[0] == "const" and b[0] == "const" and len(a) == 3 and len(b) == 3 and isinstance(a[2], int) and isinstance(b[2], int) \
            and not isinstance(a[2], bool) and a[1] != "bool":
        v = _FOLD[op](a[2], b[2])
        if v is not None and 0 <= v < (1 << 128):
            return ("const", a[1], v)
    if op in COMMUTATIVE and repr(b) < repr(a):
        a, b = b, a
    return ("bin", op, a, b)


def mk_phi(es):
    flat = []
    for e in es:
        if e[0] == "phi":
            for x in e[1]:
                if x not in flat:
                    flat.append(x)
        elif e not in flat:
            flat.append(e)
    if len(flat) == 1:
        return flat[0]
    return ("phi", tuple(sorted(flat, key=repr)))


def show(e, maxlen=400):
    s = _show(e)
    return s if len(s) <= maxlen else s[: maxlen - 3] + "..."


def _show(e):
    if not isinstance(e, tuple):
        return repr(e)
    k = e[0]
    if k == "param":
        return e[2] + ("@%d" % e[3] if len(e) > 3 else "")
    if k == "var":
        return "var:" + e[1] + ("@%d" % e[2] if len(e) > 2 and e[2] else "")
    if k == "upvar":
        return "upvar:" + e[1]
    if k == "const":
        if len(e) > 3:
            return "%s(=%s)" % (e[3].split("::")[-1], e[2])
        return "%s" % (e[2],)
    if k == "cdef":
        return e[1].split("::")[-1]
    if k == "fn":
        return "fn:" + short(e[1])
    if k == "static":
        return "static:" + e[1].split("::")[-1]
    if k == "field":
        return "%s.%s" % (_show(e[1]), e[2])
    if k == "vfield":
        return "(%s as %s).%s" % (_show(e[1]), e[2], e[3])
    if k == "call":
        return "%s(%s)" % (short(e[1]), ", ".join(_show(a) for a in e[2]))
    if k == "bin":
        return "%s(%s, %s)" % (e[1], _show(e[2]), _show(e[3]))
    if k == "un":
        return "%s(%s)" % (e[1], _show(e[2]))
    if k == "cast":
        return "(%s as %s)" % (_show(e[1]), e[3])
    if k == "agg":
        return "%s::%s{%s}" % (short(e[1]), e[2], ", ".join("%s: %s" % (n, _show(v)) for n, v in e[3]))
    if k == "closure":
        return "closure:%s[%s]" % (short(e[1]), ", ".join("%s=%s" % (n, _show(v)) for n, v in e[2]))
    if k in ("tuple", "array"):
        return "%s(%s)" % (k, ", ".join(_show(x) for x in e[1]))
    if k == "phi":
        return "phi(%s)" % " | ".join(_show(x) for x in e[1])
    if k in ("try", "elem", "next", "branch", "discr", "mutated"):
        return "%s(%s)" % (k, _show(e[1]))
    if k == "index":
        return "%s[%s]" % (_show(e[1]), _show(e[2]))
    if k == "unknown":
        return "?%s" % e[1]
    if k == "closure_env":
        return "env"
    return repr(e)


def short(path):
    # keep the last two path segments
    p = path
    if "<" in p:
        return p
    segs = p.split("::")
    return "::".join(segs[-2:])


def walk(e):
    """all sub-expressions, pre-order"""
    yield e
    if isinstance(e, tuple):
        for x in e[1:]:
            if isinstance(x, tuple):
                if x and isinstance(x[0], str):
                    yield from walk(x)
                else:
                    for y in x:
                        if isinstance(y, tuple):
                            if y and isinstance(y[0], str) and y[0] in _KINDS:
                                yield from walk(y)
                            else:
                                for z in y:
                                    if isinstance(z, tuple):
                                        yield from walk(z)


_KINDS = {"static", "param", "var", "upvar", "const", "cdef", "fn", "field", "vfield", "call", "bin", "un", "cast", "agg",
          "closure", "tuple", "array", "phi", "try", "elem", "next", "branch", "discr", "mutated", "index",
          "unknown", "closure_env", "variant", "proj", "repeat", "rec"}


def contains(e, pred):
    return any(pred(x) for x in walk(e))


def mentions_call(e, suffix):
    return contains(e, lambda x: x[0] == "call" and (x[1].endswith(suffix)))


def strip(e):
    """strip value-preserving wrappers for provenance matching: try, mutated, casts between same-kind"""
    while isinstance(e, tuple) and e[0] in ("try", "mutated"):
        e = e[1]
    return e


# ---------------------------------------------------------------------- program
class Program:
    def __init__(self, facts_dir):
        self.facts_dir = facts_dir
        _PROG[0] = self
        self.alias_names = {}
        self.sig_touched = {}
        self.bodies = []
        self.by_id = {}
        self.by_nname = defaultdict(list)
        self.adts = {}
        self.items = []
        self.meta = {}
        mp = os.path.join(facts_dir, "meta.json")
        if os.path.exists(mp):
            self.meta = json.load(open(mp))
        crates = []
        for fn in sorted(os.listdir(facts_dir)):
            if not fn.endswith(".json") or fn == "meta.json":
                continue
            crates.append(json.load(open(os.path.join(facts_dir, fn))))
        _resolve_unique_impls(crates)
        # splice helper functions the rules do not know (not in the baseline inventory) into their callers
        from . import inline as _inl
        self.known = _inl.load_known() if os.environ.get("MELSTF_NO_INLINE") != "1" else None
        self.inlined = _inl.inline_unknown(crates, self.known)
        if os.environ.get("MELSTF_NO_INLINE") != "1":
            _inl.eta_expand_tail_results(crates)
        self.known_consts = set(self.known["consts"]) if self.known else None
        fnrefs = set()
        for j in crates:
            for bj in j["bodies"]:
                for blk in bj["blocks"]:
                    for s_ in blk["stmts"]:
                        rv = s_.get("rv") or {}
                        for o in [rv.get("op"), rv.get("a"), rv.get("b")] + list(rv.get("ops", [])):
                            if isinstance(o, dict) and o.get("k") == "const" and "fn" in o:
                                fnrefs.add(o["fn"].get("resolved_id") or o["fn"].get("id"))
                    t_ = blk["term"]
                    if t_ and t_["k"] == "call":
                        for o in t_["args"]:
                            if isinstance(o, dict) and o.get("k") == "const" and "fn" in o:
                                fnrefs.add(o["fn"].get("resolved_id") or o["fn"].get("id"))
        for j in crates:
            crate = j["crate"]
            for bj in j["bodies"]:
                b = Body(self, bj, crate)
                b.inlined_into = bj.get("inlined_into") or []
                self.by_id[b.id] = b
                self.by_nname[b.nname].append(b)
                b.alias_of = bj.get("alias_of")
                if bj.get("alias_of"):
                    self.by_nname[bj["alias_of"]].append(b)
                    self.alias_names[b.nname] = bj["alias_of"]      # a known function found under a new path (moved / method <-> free fn)
                # the parameter list the rules were written against (rules/known_items.json "sigs"): rules read parameters by position
                base = (self.known or {}).get("sigs", {}).get(b.alias_of or b.nname)
                cur = param_types(b)
                b.sig_changed = (base, cur) if base is not None and base != cur else None
                if b.inlined_into and b.id not in fnrefs:
                    continue          # fully spliced into its callers: analysed there
                self.bodies.append(b)
        for j in crates:
            for k, v in j["adts"].items():
                self.adts.setdefault(norm_name(k), v)
            self.items.extend(j["items"])
        self._cg = None

    def promoted_body(self, body, idx, owner=None):
        pid = "%s::promoted[%d]" % (owner or (body.id if body.promoted is None else body.parent), idx)
        return self.by_id.get(pid)

    def body(self, nname):
        """unique body with this normalised name, or whose name ends with ::<nname>"""
        b = self._body(nname)
        if b is not None and getattr(b, "sig_changed", None):
            self.sig_touched[b.nname] = b.sig_changed
        return b

    def _body(self, nname):
        c = self.by_nname.get(nname)
        if c:
            return c[0]
        c = [b for b in self.bodies if b.nname.endswith("::" + nname) and b.kind != "Promoted"]
        if len(c) == 1:
            return c[0]
        return None

    def find(self, suffix, kinds=("Fn", "AssocFn")):
        return [b for b in self.bodies if b.kind in kinds and (b.nname == suffix or b.nname.endswith("::" + suffix))]

    def closures_of(self, body):
        hosts = {body.id} | {h for h, callers in self.inlined.items() if body.id in callers}
        out = [b for b in self.bodies if b.kind == "Closure" and b.parent in hosts]
        return sorted(out, key=lambda b: b.name)

    def all_nested(self, body):
        """body + closures nested (transitively)"""
        out = [body]
        i = 0
        while i < len(out):
            out.extend(self.closures_of(out[i]))
            i += 1
        return out

    def adt_fields(self, nname, variant=None):
        a = self.adts.get(nname)
        if not a:
            return None
        vs = a["variants"]
        v = vs[0] if variant is None else [x for x in vs if x["name"] == variant][0]
        return [f["name"] for f in v["fields"]]

    # ------------------------------------------------------------------ K1 call graph
    def callgraph(self):
        if self._cg is not None:
            return self._cg
        edges = defaultdict(set)   # body id -> set of callee ids (local) / external names
        ext = defaultdict(set)
        for b in self.bodies:
            if b.kind == "Promoted":
                continue
            for bi, t in b.calls():
                f = t["fn"]
                if f is None:
                    continue
                rid = f["resolved_id"] or f["id"]
                if rid in self.by_id:
                    edges[b.id].add(rid)
                else:
                    ext[b.id].add(norm_name(f["resolved"] or f["path"]))
            # closure construction and fn items mentioned as values: may be called
            for bi, si, s in b.iter_stmts():
                if s["k"] != "assign":
                    continue
                rv = s["rv"]
                if rv["k"] == "agg" and rv["ak"] == "closure" and rv.get("id") in self.by_id:
                    edges[b.id].add(rv["id"])
                for op in _rvalue_operands(rv):
                    if op["k"] == "const" and "fn" in op:
                        rid = op["fn"]["resolved_id"] or op["fn"]["id"]
                        if rid in self.by_id:
                            edges[b.id].add(rid)
            for bi, t in b.calls():
                for op in t["args"]:
                    if op["k"] == "const" and "fn" in op:
                        rid = op["fn"]["resolved_id"] or op["fn"]["id"]
                        if rid in self.by_id:
                            edges[b.id].add(rid)
        self._cg = (edges, ext)
        return self._cg

    def reach_from(self, ids):
        edges, _ = self.callgraph()
        seen = set(ids)
        dq = deque(ids)
        while dq:
            x = dq.popleft()
            for y in edges.get(x, ()):
                if y not in seen:
                    seen.add(y)
                    dq.append(y)
        return seen

    def callers_of(self, target_id):
        edges, _ = self.callgraph()
        return sorted(k for k, v in edges.items() if target_id in v)

    def call_sites(self, pred):
        """all (body, bb, term) whose resolved/declared callee name satisfies pred(norm resolved, norm path)"""
        out = []
        for b in self.bodies:
            if b.kind == "Promoted":
                continue
            for bi, t in b.calls():
                f = t["fn"]
                if f is None:
                    continue
                if pred(norm_name(f["resolved"] or f["path"]), norm_name(f["path"])):
                    out.append((b, bi, t))
        return out


def _rvalue_operands(rv):
    k = rv["k"]
    if k in ("use", "cast", "repeat"):
        return [rv["op"]]
    if k == "bin":
        return [rv["a"], rv["b"]]
    if k == "un":
        return [rv["a"]]
    if k == "agg":
        return rv["ops"]
    return []


def callee_name(t):
    f = t.get("fn")
    if not f:
        return "<indirect>"
    n = norm_name(f["resolved"] or f["path"])
    pr = _PROG[0]
    return pr.alias_names.get(n, n) if pr is not None else n          # a known function found under a new path / name answers to its old name


def callee_path(t):
    f = t.get("fn")
    if not f:
        return "<indirect>"
    return norm_name(f["path"])


def _resolve_unique_impls(crates):
    """a call of a workspace trait's method on a receiver the compiler cannot resolve (a provided method of the trait calling a sibling on `Self`): when the
    trait has exactly one implementation of that method in the workspace, that implementation is the callee"""
    import re
    impls = {}
    for j in crates:
        for bj in j["bodies"]:
            if bj["kind"] not in ("Fn", "AssocFn"):
                continue
            m = re.match(r"^([A-Za-z_0-9]+)::<.* as (.+)>::([A-Za-z_0-9]+)$", norm_name(bj["name"]))
            if m:
                tr = m.group(2)
                tr = tr if tr.startswith(m.group(1) + "::") else m.group(1) + "::" + tr
                tr = re.sub(r"<.*>$", "", tr)
                impls.setdefault((tr, m.group(3)), []).append(bj)
    if not impls:
        return
    for j in crates:
        for bj in j["bodies"]:
            for blk in bj["blocks"]:
                t = blk.get("term")
                if not t or t.get("k") != "call" or not t.get("fn"):
                    continue
                f = t["fn"]
                if f.get("resolved") or f.get("resolved_kind") != "unresolved":
                    continue
                p = norm_name(f["path"])
                if "::" not in p:
                    continue
                tr, meth = p.rsplit("::", 1)
                c = impls.get((tr, meth), [])
                if len(c) == 1:
                    f["resolved"] = c[0]["name"]
                    f["resolved_id"] = c[0]["id"]
                    f["resolved_local"] = True
                    f["resolved_kind"] = "unique-impl"


def callee_id(t):
    f = t.get("fn")
    if not f:
        return None
    return f["resolved_id"] or f["id"]
