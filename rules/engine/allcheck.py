"""Run the rule functions of all 20 properties against one tree in ONE process, sharing the loaded program (same records as 20 separate
`bin/check` runs — compared on the unchanged tree — at a third of the cost).  Used by bin/mutsweep; prints one JSON object:
{"failing": [{"pid","key","sig_changed"}...], "aborted": [...], "n_records": N}.  Raw verdicts: no arming, no known-findings filter."""
import importlib
import json
import os
import sys
import traceback

from . import core, facts, mir


def run_all(pids=None):
    pids = pids or ["C%02d" % i for i in range(1, 21)]
    fd = facts.extract()
    prog = mir.Program(fd)
    failing, aborted, n, undecided = [], [], 0, []
    for pid in pids:
        mod = importlib.import_module("rules.props.%s" % pid.lower())
        # expression recovery memoises per body and breaks cycles where it happens to enter them: what a query returns can depend on the queries made before it.
        # Every property starts from empty memos, as it does in its own `bin/check` process.
        for b_ in prog.bodies:
            b_._memo = {}
            b_._restrict = None
        ctx = core.Ctx.__new__(core.Ctx)
        ctx.pid, ctx.tier, ctx.seed = pid, "quick", 0
        import time
        ctx.t0 = time.time()
        ctx.records, ctx.rules, ctx.floors, ctx.assumptions, ctx.not_decided, ctx.functions, ctx.extra, ctx.explanation = [], {}, {}, [], [], set(), {}, ""
        ctx.facts_dir, ctx.prog = fd, prog
        for fn in mod.RULES:
            n0 = len(ctx.records)
            prog.sig_touched = {}
            try:
                try:
                    fn(ctx)
                finally:
                    core._mark_sig_changed(ctx, n0)
            except core.AnchorMissing:
                pass
            except Exception:
                aborted.append({"pid": pid, "fn": fn.__name__, "err": traceback.format_exc().strip().splitlines()[-1][:200]})
        n += len(ctx.records)
        for r in ctx.records:
            if r["verdict"] == "violation":
                failing.append({"pid": pid, "key": r["key"], "sig_changed": bool(r.get("sig_changed")), "where": r.get("where", "")})
            elif r["verdict"] == "undecided":
                undecided.append(r["key"])
    return {"failing": failing, "aborted": aborted, "n_records": n, "undecided": sorted(set(undecided))}


if __name__ == "__main__":
    try:
        print("ALLCHECK-JSON " + json.dumps(run_all(sys.argv[1:] or None)))
    except RuntimeError as ex:
        print("ALLCHECK-NOCOMPILE " + str(ex)[:300])
        sys.exit(4)
