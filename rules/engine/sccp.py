"""K5: sparse conditional constant propagation with forced atoms.

Values: BOT (no reachable definition yet), ("c", int) constant, ("v", idx) known enum variant, TOP.
Locals are tracked flow-insensitively (join over all *reachable* definitions); that is exact for the
single-assignment temporaries MIR uses for conditions and sound (over-approximates reachability)
everywhere else.  A rule supplies `atom(expr) -> value|None` that pins the value of every definition or
switch discriminant whose recovered expression (K3) matches one of the rule's atoms.
"""
from . import mir

BOT = ("bot",)
TOP = ("top",)


def C(x):
    return ("c", int(x))


def V(i):
    return ("v", int(i))


def join(a, b):
    if a == BOT:
        return b
    if b == BOT:
        return a
    if a == b:
        return a
    return TOP


def _is_option(tys):
    return tys.startswith("std::option::Option") or tys.startswith("core::option::Option")


def _is_result(tys):
    return tys.startswith("std::result::Result") or tys.startswith("core::result::Result")


class Forcing:
    def __init__(self, body, atom=None, param_vals=None):
        self.b = body
        raw = atom or (lambda e: None)

        def _atom(e, raw=raw):
            v = raw(e)
            if v is None:
                nv = raw(("not", e))          # the complement of this comparison was forced (q.cmp_atoms lists both spellings)
                if nv in (0, 1):
                    return 1 - nv
            return v
        self.atom = _atom
        self.vals = {}
        self.reach = set()
        self.edges = set()
        self.param_vals = param_vals or {}
        self.run()

    # -- evaluation
    def val_local(self, l):
        b = self.b
        b.defs()
        if 1 <= l <= b.arg_count and not b._defs.get(l):
            return self.param_vals.get(l, TOP)
        if b.partial.get(l) or b.mutref.get(l):
            return TOP
        return self.vals.get(l, BOT)

    def ev_operand(self, op, bb, idx):
        k = op["k"]
        if k == "const":
            if "int" in op:
                return C(op["int"])
            if "promoted" in op:
                pb = self.b.prog.promoted_body(self.b, op["promoted"], op.get("promoted_owner"))
                if pb is not None:
                    pv = pb.promoted_value()
                    if pv[0] == "const" and isinstance(pv[2], int):
                        return C(pv[2])
            return TOP
        if k in ("copy", "move"):
            pl = op["place"]
            if not pl["p"]:
                return self.val_local(pl["l"])
            return TOP
        return TOP

    def forced(self, e):
        try:
            v = self.atom(e)
        except Exception:
            v = None
        if v is None:
            return None
        if isinstance(v, bool):
            return C(1 if v else 0)
        if isinstance(v, int):
            return C(v)
        return v

    def ev_rvalue(self, rv, bb, idx):
        e = self.b.rec_rvalue(rv, bb, idx)
        f = self.forced(e)
        if f is not None:
            return f
        k = rv["k"]
        if k == "use":
            return self.ev_operand(rv["op"], bb, idx)
        if k == "bin":
            a = self.ev_operand(rv["a"], bb, idx)
            c = self.ev_operand(rv["b"], bb, idx)
            op = rv["op"]
            if a[0] == "c" and c[0] == "c":
                x, y = a[1], c[1]
                table = {"Eq": x == y, "Ne": x != y, "Lt": x < y, "Le": x <= y, "Gt": x > y, "Ge": x >= y}
                if op in table:
                    return C(1 if table[op] else 0)
                if op == "BitAnd":
                    return C(x & y)
                if op == "BitOr":
                    return C(x | y)
                if op == "BitXor":
                    return C(x ^ y)
            if op == "BitAnd" and (a == C(0) or c == C(0)):
                return C(0)
            return TOP
        if k == "un":
            a = self.ev_operand(rv["a"], bb, idx)
            if rv["op"] == "Not" and a[0] == "c" and a[1] in (0, 1):
                return C(1 - a[1])
            return TOP
        if k == "discr":
            pl = rv["place"]
            if not pl["p"] or all(p["k"] == "deref" for p in pl["p"]):
                v = self.val_local(pl["l"]) if not pl["p"] else self._deref_val(pl["l"], bb, idx)
                if v[0] == "v":
                    return C(v[1])
                if v == BOT:
                    return BOT
            return TOP
        if k == "agg":
            if rv["ak"] == "adt" and "vidx" in rv:
                adt = self.b.prog.adts.get(mir.norm_name(rv["path"]))
                if adt and adt["kind"] == "enum":
                    return V(rv["vidx"])
            return TOP
        if k == "cast":
            a = self.ev_operand(rv["op"], bb, idx)
            if a[0] == "c" and rv["ck"].startswith("IntToInt"):
                return a
            return TOP
        if k == "ref":
            return TOP
        return TOP

    def _deref_val(self, l, bb, idx):
        """value of *l where l is a single-def `&local`"""
        b = self.b
        ds = b.defs().get(l, [])
        if len(ds) == 1 and ds[0][1] != "T":
            s = b.blocks[ds[0][0]]["stmts"][ds[0][1]]
            rv = s["rv"]
            if rv["k"] == "ref" and not rv["place"]["p"]:
                return self.val_local(rv["place"]["l"])
        return TOP

    def arg_val(self, op, bb):
        """value of a call argument, looking through `&local` temporaries"""
        v = self.ev_operand(op, bb, "T")
        if v != TOP and v != BOT:
            return v
        if op["k"] in ("copy", "move") and not op["place"]["p"]:
            dv = self._deref_val(op["place"]["l"], bb, "T")
            if dv != TOP:
                return dv
        return v

    def ev_call(self, t, bb):
        e = self.b.rec_call(t, bb)
        f = self.forced(e)
        if f is not None:
            return f
        if e[0] == "call" and e[1] in ("std::ops::Range::contains", "core::ops::Range::contains") and len(e[2]) == 2:
            # `(a..b).contains(&x)` is the conjunction `a <= x && x < b` (q.range_atoms lists the two halves as atoms ('rc', half, call))
            lo, hi = self.atom(("rc", "lo", e)), self.atom(("rc", "hi", e))
            if lo == 0 or hi == 0:
                return C(0)
            if lo == 1 and hi == 1:
                return C(1)
            return TOP
        fn = t["fn"]
        if fn is None:
            return TOP
        path = mir.norm_name(fn["path"])
        res = mir.norm_name(fn["resolved"] or fn["path"])
        g0 = fn["gargs"][0] if fn["gargs"] else ""
        args = t["args"]
        av = [self.arg_val(a, bb) for a in args]
        if any(v == BOT for v in av):
            return BOT
        if path in ("std::ops::Try::branch",):
            v = av[0]
            if v[0] == "v":
                if _is_option(g0):
                    return V(0 if v[1] == 1 else 1)
                if _is_result(g0):
                    return V(0 if v[1] == 0 else 1)
            return TOP
        if path == "std::ops::FromResidual::from_residual":
            if _is_option(g0):
                return V(0)
            if _is_result(g0):
                return V(1)
            return TOP
        last = res.split("::")[-1]
        owner = "::".join(res.split("::")[:-1])
        if owner.endswith("bool") or res.startswith("core::bool") or res.startswith("std::bool"):
            if last in ("then_some", "then") and av and av[0][0] == "c":
                return V(1 if av[0][1] else 0)
        if "option::Option" in res or res.startswith("std::option::Option"):
            v = av[0] if av else TOP
            if v[0] == "v":
                some = v[1] == 1
                if last == "is_some":
                    return C(1 if some else 0)
                if last == "is_none":
                    return C(0 if some else 1)
                if last in ("ok_or", "ok_or_else"):
                    return V(0 if some else 1)
                if last in ("map", "cloned", "copied", "as_ref", "as_mut", "as_deref"):
                    return v
                if last in ("unwrap_or", "unwrap_or_default", "unwrap_or_else") and not some and len(av) > 1:
                    return av[1]
                if last in ("and_then", "filter") and not some:
                    return V(0)
            return TOP
        if "result::Result" in res or res.startswith("std::result::Result"):
            v = av[0] if av else TOP
            if v[0] == "v":
                ok = v[1] == 0
                if last == "is_ok":
                    return C(1 if ok else 0)
                if last == "is_err":
                    return C(0 if ok else 1)
                if last in ("map", "map_err", "as_ref"):
                    return v
                if last == "ok":
                    return V(1 if ok else 0)
                if last in ("unwrap_or",) and not ok and len(av) > 1:
                    return av[1]
            return TOP
        if path == "std::ops::Not::not" and av and av[0][0] == "c":
            return C(1 - av[0][1]) if av[0][1] in (0, 1) else TOP
        if path in ("std::cmp::PartialEq::eq", "std::cmp::PartialEq::ne") and len(av) == 2:
            if av[0][0] == "c" and av[1][0] == "c":
                r = av[0][1] == av[1][1]
                return C(1 if (r == (path.endswith("eq"))) else 0)
            if av[0][0] == "v" and av[1][0] == "v":
                if av[0][1] != av[1][1]:
                    return C(0 if path.endswith("eq") else 1)
        return TOP

    # -- fixpoint
    def run(self):
        b = self.b
        b.defs()
        self.reach = {0}
        changed = True
        guard = 0
        while changed and guard < 200:
            guard += 1
            changed = False
            for bb in sorted(self.reach):
                blk = b.blocks[bb]
                for si, s in enumerate(blk["stmts"]):
                    if s["k"] != "assign" or s["place"]["p"]:
                        continue
                    l = s["place"]["l"]
                    v = self.ev_rvalue(s["rv"], bb, si)
                    nv = join(self.vals.get(l, BOT), v)
                    if nv != self.vals.get(l, BOT):
                        self.vals[l] = nv
                        changed = True
                t = blk["term"]
                if t is None:
                    continue
                k = t["k"]
                nxt = []
                if k == "call":
                    if not t["dest"]["p"]:
                        l = t["dest"]["l"]
                        v = self.ev_call(t, bb)
                        nv = join(self.vals.get(l, BOT), v)
                        if nv != self.vals.get(l, BOT):
                            self.vals[l] = nv
                            changed = True
                    if t["target"] is not None:
                        nxt = [t["target"]]
                elif k == "switch":
                    e = b.rec_operand(t["discr"], bb, "T")
                    dv = self.forced(e)
                    if dv is None:
                        dv = self.ev_operand(t["discr"], bb, "T")
                    if dv[0] == "c":
                        tgt = None
                        for val, target in t["targets"]:
                            if int(val) == dv[1]:
                                tgt = target
                        nxt = [tgt if tgt is not None else t["otherwise"]]
                    elif dv == BOT:
                        nxt = []
                    else:
                        nxt = b.succs(bb)
                        if e[0] != "discr" and t.get("discr_ty") not in (None, "bool", "isize"):
                            # forced integer-arm atoms ('isint', x, K) (q.int_switch_atoms): 1 takes arm K, 0 excludes it
                            take, drop_ = None, set()
                            for val, target in t["targets"]:
                                fv = self.atom(("isint", e, int(val)))
                                if fv == 1:
                                    take = target
                                elif fv == 0:
                                    drop_.add(target)
                            if take is not None:
                                nxt = [take]
                            elif drop_:
                                keep = {tg for v_, tg in t["targets"] if tg not in drop_}
                                if t["otherwise"] is not None:
                                    keep.add(t["otherwise"])
                                nxt = [x_ for x_ in nxt if x_ in keep]
                        if e[0] == "discr":
                            # forced variant atoms ('isvar', x, i, ..): 1 takes arm i, 0 excludes it
                            take, drop_ = None, set()
                            for val, target in t["targets"]:
                                fv = self._isvar_forced(e[1], int(val), t, bb)
                                if fv == 1:
                                    take = target
                                elif fv == 0:
                                    drop_.add(target)
                            if take is not None:
                                nxt = [take]
                            elif drop_:
                                keep = {tg for v_, tg in t["targets"] if tg not in drop_}
                                if t["otherwise"] is not None:
                                    keep.add(t["otherwise"])
                                nxt = [x_ for x_ in nxt if x_ in keep]
                else:
                    nxt = b.succs(bb)
                for s in nxt:
                    if (bb, s) not in self.edges:
                        self.edges.add((bb, s))
                        changed = True
                    if s not in self.reach:
                        self.reach.add(s)
                        changed = True

    def _isvar_forced(self, x, idx, t=None, bb=None):
        """forced value of the variant atom ('isvar', x, idx, enum, variant) for the switch terminator t of block bb"""
        b = self.b
        op = t["discr"]
        if op.get("k") not in ("move", "copy") or op["place"]["p"]:
            return None
        ds = b.defs().get(op["place"]["l"], [])
        if len(ds) != 1 or ds[0][1] == "T":
            return None
        st = b.blocks[ds[0][0]]["stmts"][ds[0][1]]
        if st["rv"].get("k") != "discr":
            return None
        from .mir import norm_name
        ty = (b._place_type(st["rv"]["place"]) or "").lstrip("&").replace("mut ", "")
        adt = b.prog.adts.get(norm_name(ty))
        if not adt and ty.startswith(("std::option::Option<", "core::option::Option<")):
            adt = {"variants": [{"name": "None"}, {"name": "Some"}]}
        if not adt:
            return None
        for i, v in enumerate(adt.get("variants", [])):
            dv = v.get("discr", "")
            if (str(dv) if dv != "" else str(i)) == str(idx):
                return self.atom(("isvar", x, idx, norm_name(ty), v["name"]))
        return None

    def reachable(self, bb):
        return bb in self.reach

    def reach_from(self, bb, avoid=()):
        """blocks reachable from bb along edges that are feasible under the forcing, not entering `avoid`"""
        if bb not in self.reach:
            return set()
        avoid = set(avoid)
        if bb in avoid:
            return set()                 # the start is itself one of the blocks to be avoided: every path from it has passed through one
        seen = {bb}
        st = [bb]
        while st:
            x = st.pop()
            for (a, b2) in self.edges:
                if a == x and b2 not in seen and b2 not in avoid:
                    seen.add(b2)
                    st.append(b2)
        return seen


def forced_reach(body, atom, param_vals=None):
    return Forcing(body, atom, param_vals).reach
