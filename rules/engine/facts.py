"""Fact extraction: run the mirfacts driver over /repo's current working tree.

Facts are cached under /verif/.cache/facts/<tree-hash>/ where the hash covers every
source/manifest file of the workspace, so a check always analyses the tree as it is now.
"""
import fcntl
import hashlib
import json
import os
import shutil
import subprocess
import sys
import time

VERIF = os.path.dirname(os.path.dirname(os.path.dirname(os.path.abspath(__file__))))
REPO = os.environ.get("MELSTF_REPO", "/repo")
CACHE = os.path.join(VERIF, ".cache")
DRIVER = os.path.join(VERIF, "tools", "mirfacts", "target", "debug", "mirfacts")
CRATES = ["melstf", "melvm", "tip911_stakeset"]


def _source_files(repo):
    out = []
    for base in ["src", "lib"]:
        for root, dirs, files in os.walk(os.path.join(repo, base)):
            dirs[:] = [d for d in dirs if d not in ("target", ".git")]
            for f in files:
                if f.endswith((".rs", ".toml", ".yaml", ".md")):
                    out.append(os.path.join(root, f))
    for f in ["Cargo.toml", "Cargo.lock", "README.md"]:
        p = os.path.join(repo, f)
        if os.path.exists(p):
            out.append(p)
    return sorted(out)


def tree_hash(repo=REPO, extra=""):
    h = hashlib.sha256()
    h.update(extra.encode())
    for p in _source_files(repo):
        h.update(os.path.relpath(p, repo).encode())
        with open(p, "rb") as f:
            h.update(hashlib.sha256(f.read()).digest())
    # the driver itself is part of the key
    src = os.path.join(VERIF, "tools", "mirfacts", "src", "main.rs")
    with open(src, "rb") as f:
        h.update(hashlib.sha256(f.read()).digest())
    return h.hexdigest()[:24]


def nightly_sysroot():
    return subprocess.check_output(["rustc", "+nightly", "--print", "sysroot"], text=True).strip()


def ensure_driver():
    if not os.path.exists(DRIVER):
        subprocess.check_call(["cargo", "build", "--offline"], cwd=os.path.join(VERIF, "tools", "mirfacts"))
    return DRIVER


def extract(repo=None, features=None, quiet=True):
    """Return directory holding <crate>.json for the current tree of `repo`."""
    repo = repo or REPO
    feat = ",".join(features or [])
    # the facts depend only on the sources (library targets of the workspace): copies with identical contents share one extraction
    th = tree_hash(repo, extra="feat=" + feat)
    out_dir = os.path.join(CACHE, "facts", th)
    os.makedirs(os.path.join(CACHE, "facts"), exist_ok=True)
    # one lock per tree: checks of the same tree wait for the one extraction, different trees (scratch copies, each with its own target
    # directory) are extracted in parallel
    lock_path = os.path.join(CACHE, "extract-%s.lock" % th)
    with open(lock_path, "w") as lock:
        fcntl.flock(lock, fcntl.LOCK_EX)
        if all(os.path.exists(os.path.join(out_dir, c + ".json")) for c in CRATES):
            try:
                os.utime(out_dir, None)          # last use: the eviction below never removes a directory that was used in the last quarter of an hour
            except OSError:
                pass
            return out_dir
        ensure_driver()
        tmp_out = out_dir + ".partial"
        shutil.rmtree(tmp_out, ignore_errors=True)
        os.makedirs(tmp_out)
        # one shared target dir for the repository proper (dependencies stay warm); scratch copies
        # get their own so that two trees never share fingerprints.
        tkey = "main" if repo == REPO else hashlib.sha256(repo.encode()).hexdigest()[:12]
        target = os.environ.get("MELSTF_TARGET") or os.path.join(CACHE, "target-" + tkey)
        # cargo's freshness cache would skip the wrapper: drop the members' fingerprints
        fp = os.path.join(target, "debug", ".fingerprint")
        if os.path.isdir(fp):
            for d in os.listdir(fp):
                if d.startswith(("melstf-", "melvm-", "tip911-stakeset-")):
                    shutil.rmtree(os.path.join(fp, d), ignore_errors=True)
        env = dict(os.environ)
        env.update({
            "CARGO_NET_OFFLINE": "true",
            "LD_LIBRARY_PATH": nightly_sysroot() + "/lib",
            "RUSTFLAGS": "-Zmir-opt-level=0 -Awarnings",
            "RUSTC_WORKSPACE_WRAPPER": DRIVER,
            "CARGO_TARGET_DIR": target,
            "MIRFACTS_OUT": tmp_out,
            "CARGO_INCREMENTAL": "0",
        })
        env.pop("RUSTC_WRAPPER", None)
        cmd = ["cargo", "+nightly", "check", "--offline", "--workspace", "--lib"]
        if feat:
            cmd += ["--features", feat]
        t0 = time.time()
        p = subprocess.run(cmd, cwd=repo, env=env, stdout=subprocess.PIPE, stderr=subprocess.STDOUT, text=True)
        if p.returncode != 0:
            sys.stderr.write(p.stdout[-6000:])
            raise RuntimeError("fact extraction failed: cargo check exited %d" % p.returncode)
        missing = [c for c in CRATES if not os.path.exists(os.path.join(tmp_out, c + ".json"))]
        if missing:
            sys.stderr.write(p.stdout[-3000:])
            raise RuntimeError("fact extraction wrote no facts for %s" % missing)
        with open(os.path.join(tmp_out, "meta.json"), "w") as f:
            json.dump({"tree_hash": th, "wall_s": time.time() - t0, "cmd": " ".join(cmd),
                       "rustc": subprocess.check_output(["rustc", "+nightly", "--version"], text=True).strip()}, f)
        shutil.rmtree(out_dir, ignore_errors=True)
        os.rename(tmp_out, out_dir)
        if not quiet:
            print("facts extracted in %.1fs -> %s" % (time.time() - t0, out_dir))
        # keep the cache small (≈5 MB per tree): drop fact dirs other than the 200 most recent — enough for a 16-way self-test run, in which
        # every scratch tree is read by 20 checks before it is discarded
        root = os.path.join(CACHE, "facts")
        try:
            ds = sorted((os.path.getmtime(os.path.join(root, d)), d) for d in os.listdir(root) if not d.endswith(".partial"))
            for mt, d in ds[:-200]:
                if time.time() - mt > 900:
                    shutil.rmtree(os.path.join(root, d), ignore_errors=True)
            for f in os.listdir(CACHE):
                if f.startswith("extract-") and f.endswith(".lock") and time.time() - os.path.getmtime(os.path.join(CACHE, f)) > 6 * 3600:
                    os.unlink(os.path.join(CACHE, f))
        except OSError:
            pass
        return out_dir


if __name__ == "__main__":
    d = extract(quiet=False)
    print(d)
    for c in CRATES:
        j = json.load(open(os.path.join(d, c + ".json")))
        print(c, len(j["bodies"]), "bodies", len(j["adts"]), "adts")
