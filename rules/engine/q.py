"""Query helpers shared by the rules (K4 atoms, K6 linear forms, K7 writes, must-pass)."""
from fractions import Fraction

from . import mir
from .mir import callee_name, callee_path, norm_name, show, walk, contains
from .sccp import Forcing, C, V, TOP


# ------------------------------------------------------------------ expression matching
def is_call(e, *suffixes):
    return isinstance(e, tuple) and e[0] == "call" and any(e[1] == s or e[1].endswith("::" + s) or e[1].endswith(s) for s in suffixes)


def call_args(e):
    return e[2]


def fields_path(e):
    """(root, [field names]) for nested field expressions"""
    names = []
    while isinstance(e, tuple) and e[0] == "field":
        names.append(e[2])
        e = e[1]
    return e, list(reversed(names))


def is_field_of(e, name):
    return isinstance(e, tuple) and e[0] == "field" and e[2] == name


def unwrap0(e):
    """strip newtype wrapping/unwrapping, try-payloads and widening-preserving noise"""
    while True:
        if not isinstance(e, tuple):
            return e
        if e[0] == "field" and e[2] == "0" and not (e[1][0] in ("elem", "tuple")):
            e = e[1]
        elif e[0] == "agg" and len(e[3]) == 1 and e[3][0][0] == "0" and e[2] == e[1].split("::")[-1]:
            e = e[3][0][1]
        elif e[0] in ("try", "mutated"):
            e = e[1]
        else:
            return e


def is_const(e, value=None):
    if not (isinstance(e, tuple) and e[0] == "const"):
        return False
    return value is None or e[2] == value


def const_val(e):
    e = unwrap0(e)
    if isinstance(e, tuple) and e[0] == "const" and isinstance(e[2], int):
        return e[2]
    return None


def has_unknown(e):
    return contains(e, lambda x: x[0] in ("unknown", "rec"))


def novers(e):
    """drop variable versions"""
    if not isinstance(e, tuple):
        return e
    if e and e[0] == "var":
        return ("var", e[1])
    if e and e[0] == "param":
        return e[:3]
    return tuple(novers(x) if isinstance(x, tuple) else x for x in e)


# ------------------------------------------------------------------ K4 comparison atoms
CMP_CALLS = {"eq": "Eq", "ne": "Ne", "lt": "Lt", "le": "Le", "gt": "Gt", "ge": "Ge"}
SWAP = {"Lt": "Gt", "Gt": "Lt", "Le": "Ge", "Ge": "Le", "Eq": "Eq", "Ne": "Ne"}
NEG = {"Lt": "Ge", "Ge": "Lt", "Gt": "Le", "Le": "Gt", "Eq": "Ne", "Ne": "Eq"}


def as_cmp(e):
    """(op, lhs, rhs) if e is a comparison (MIR BinaryOp or PartialEq/PartialOrd call), else None"""
    if not isinstance(e, tuple):
        return None
    if e[0] == "not":
        cm = as_cmp(e[1])
        return (NEG[cm[0]], cm[1], cm[2]) if cm else None
    if e[0] == "isvar":
        return ("Eq", e[1], ("agg", e[3], e[4], ()))
    if e[0] == "isint":
        return ("Eq", e[1], ("const", "int", e[2]))
    if e[0] == "rc":
        rg = dict(mir.strip(e[2][2][0])[3])
        return ("Le", rg["start"], e[2][2][1]) if e[1] == "lo" else ("Lt", e[2][2][1], rg["end"])
    cm = None
    if e[0] == "bin" and e[1] in SWAP:
        cm = (e[1], e[2], e[3])
    elif e[0] == "call":
        segs = e[1].split("::")
        last = segs[-1]
        if last in CMP_CALLS and len(e[2]) == 2 and ("PartialEq" in e[1] or "PartialOrd" in e[1] or "cmp::" in e[1]):
            cm = (CMP_CALLS[last], e[2][0], e[2][1])
    if cm and cm[0] in ("Eq", "Ne"):
        # `a.cmp(&b) == Ordering::Less` is `a < b`
        for x, y in ((cm[1], cm[2]), (cm[2], cm[1])):
            if isinstance(x, tuple) and x[0] == "call" and x[1].split("::")[-1] in ("cmp",) and len(x[2]) == 2 and \
                    isinstance(y, tuple) and y[0] == "agg" and y[1].endswith("cmp::Ordering"):
                op = {"Less": "Lt", "Greater": "Gt", "Equal": "Eq"}.get(y[2])
                if op:
                    if cm[0] == "Ne":
                        op = NEG[op]
                    return (op, x[2][0], x[2][1])
    return cm


def cmp_truth_given_lt(op, l_is_x):
    """truth value of `L op R` given the fact X < Y, where (L,R)=(X,Y) if l_is_x else (Y,X)"""
    if not l_is_x:
        op = SWAP[op]
    return {"Lt": True, "Le": True, "Ne": True, "Gt": False, "Ge": False, "Eq": False}[op]


def cmp_truth_given_eq(op):
    return {"Lt": False, "Le": True, "Ne": False, "Gt": False, "Ge": True, "Eq": True}[op]


# ------------------------------------------------------------------ sites
def calls_to(body, *suffixes):
    out = []
    for bi, t in body.calls():
        n = callee_name(t)
        p = callee_path(t)
        if any(n == s or n.endswith("::" + s) or p == s or p.endswith("::" + s) for s in suffixes):
            out.append((bi, t))
    return out


def calls_matching(body, pred):
    return [(bi, t) for bi, t in body.calls() if pred(callee_name(t), callee_path(t))]


def ret_assignments(body, eta=False):
    """(bb, idx, expr) of every assignment to the return place _0 (incl. call destinations).  A tail call returning a Result/Option is
    analysed in η-expanded form (inline.eta_expand_tail_results); with eta=False it is reported as what the source says — one assignment of
    the call's result — with eta=True as its two outcome blocks."""
    out = []
    for bi, si, s in body.iter_stmts():
        if s["k"] == "assign" and s["place"]["l"] == 0 and not s["place"]["p"]:
            if body.blocks[bi].get("eta") and not eta:
                continue
            out.append((bi, si, body.rec_rvalue(s["rv"], bi, si)))
    for bi, t in body.calls():
        if t["dest"]["l"] == 0 and not t["dest"]["p"]:
            out.append((bi, "T", body.rec_call(t, bi)))
        elif not eta and t.get("target") is not None and body.blocks[t["target"]].get("eta") and body.blocks[t["target"]]["term"]["k"] == "switch":
            out.append((bi, "T", body.rec_call(t, bi)))
    return out


def result_blocks(body):
    """blocks that build the function result: {'Ok': [...], 'Err': [...], 'Some': [...], 'None': [...], 'other': [...]}"""
    out = {"Ok": [], "Err": [], "Some": [], "None": [], "other": []}
    for bi, si, e in ret_assignments(body, eta=True):
        if e[0] == "agg" and e[2] in out:
            out[e[2]].append((bi, e))
        elif e[0] == "call" and e[1].endswith("from_residual"):
            g = e[1]
            out["Err" if "Result" in g else "None"].append((bi, e))
        else:
            out["other"].append((bi, e))
    return out


def loop_with_source(body, pred):
    """natural loops whose header calls Iterator::next on an iterator whose recovered source satisfies pred"""
    out = []
    for (h, blocks, latches) in body.loops():
        t = body.term(h)
        if t and t["k"] == "call" and callee_path(t) in ("std::iter::Iterator::next",):
            e = body.rec_call(t, h)
            if e[0] != "next":
                continue
            src = e[1]
            rv = mir.range_over(src)
            if rv is not None:
                # `for i in 0..v.len()` ranges over the positions of v: the same loop as `for (i, x) in v.iter().enumerate()` (K3 reads `i` and `v[i]` accordingly)
                src = ("call", "std::iter::Iterator::enumerate", (rv,))
            zc = mir.zip_counter(("elem", src)) if src[0] == "call" else None
            if zc is not None:
                src = ("call", "std::iter::Iterator::enumerate", (zc,))
            if pred(src):
                out.append((h, blocks, latches, src))
    return out


def loop_nest(body):
    """loop_with_source, with a loop over `outer.flat_map(|x| inner(x))` reported as the nest it stands for: the same loop is listed once with the
    outer source and once with the inner source (element of the outer one substituted)"""
    out = []
    for (h, blocks, latches, src) in loop_with_source(body, lambda s_: True):
        s0 = mir.strip(src)
        if s0[0] == "var":
            # `let mut it = <iterator>; while let Some(x) = it.next()`: the loop ranges over what `it` was initialised with
            ds = var_def_exprs(body, s0[1])
            if len(ds) == 1:
                src = ds[0][1]
        fs = mir.flat_source(src)
        if fs is None:
            out.append((h, blocks, latches, src))
        else:
            out.append((h, blocks, latches, fs[0]))
            out.append((h, blocks, latches, fs[1]))
    return out


def stmt_writes(body, field):
    """K7 (one body): every write to a place projecting `.field`:
    ('assign', bb, idx, place_expr, value_expr) and ('mutref', bb, idx, place_expr, consumer-call-or-None)"""
    out = []
    for bi, si, s in body.iter_stmts():
        if s["k"] != "assign":
            continue
        pl = s["place"]
        direct = any(p["k"] == "field" and p["n"] == field for p in pl["p"])
        via_alias = False
        if not direct and pl["p"] and pl["p"][0]["k"] == "deref":
            # write through a `&mut` alias of the field: (*alias).x = ..
            pe = body.rec_place(pl, bi, si)
            while isinstance(pe, tuple) and pe[0] == "mutated":
                pe = pe[1]
            via_alias = field in fields_path(pe)[1]
        if direct or via_alias:
            out.append(("assign", bi, si, body.rec_place(pl, bi, si), body.rec_rvalue(s["rv"], bi, si)))
        rv = s["rv"]
        if rv["k"] in ("ref", "rawptr") and rv["mut"] and any(p["k"] == "field" and p["n"] == field for p in rv["place"]["p"]):
            out.append(("mutref", bi, si, body.rec_place(rv["place"], bi, si), _consumer(body, bi, si, pl["l"])))
    for bi, t in body.calls():
        d = t["dest"]
        if any(p["k"] == "field" and p["n"] == field for p in d["p"]):
            out.append(("assign", bi, "T", body.rec_place(d, bi, "T"), body.rec_call(t, bi)))
    return out


def _consumer(body, bb, idx, local):
    """the first call on the way from (bb, idx) that receives `local` (a &mut temporary) — or a copy, reborrow or move of it — as an argument.
    The search follows the control flow (gotos, branches, calls that do not take it) for a bounded number of blocks, so that a reference handed to a
    helper whose body was spliced in is still found at the call that finally uses it."""
    want = {local}
    seen = set()
    work = [bb]
    steps = 0
    while work and steps < 60:
        cur = work.pop(0)
        if cur in seen:
            continue
        seen.add(cur)
        steps += 1
        blk = body.blocks[cur]
        if blk["cleanup"]:
            continue
        for s in blk["stmts"]:
            if s["k"] == "assign" and s["rv"]["k"] in ("ref", "use", "rawptr") and not s["place"]["p"]:
                src = s["rv"].get("place") or (s["rv"].get("op") or {}).get("place")
                if src and src["l"] in want and all(p["k"] == "deref" for p in src["p"]):
                    want.add(s["place"]["l"])
        t = blk["term"]
        if not t:
            continue
        if t["k"] == "call":
            for a in t["args"]:
                if a["k"] in ("copy", "move") and a["place"]["l"] in want and not a["place"]["p"]:
                    return (cur, t)
            if t.get("target") is not None:
                work.append(int(t["target"]))
        elif t["k"] == "goto":
            work.append(int(t["t"]))
        elif t["k"] == "switch":
            work.extend(int(x[1]) for x in t["targets"])
            work.append(int(t["otherwise"]))
        elif t["k"] in ("assert", "drop"):
            if t.get("target") is not None:
                work.append(int(t["target"]))
    return None


def field_writers(prog, owner_nname, field, crates=None):
    """K7 (program): bodies that write `<owner>.field` directly or build `<owner>` aggregates.
    returns dict body -> list of ('assign'|'mutref'|'agg', bb, idx, ...)"""
    out = {}
    for b in prog.bodies:
        if b.kind == "Promoted":
            continue
        if crates and b.crate not in crates:
            continue
        recs = []
        for bi, si, s in b.iter_stmts():
            if s["k"] != "assign":
                continue
            for pl, kind in ((s["place"], "assign"), (s["rv"].get("place") if s["rv"]["k"] in ("ref", "rawptr") and s["rv"].get("mut") else None, "mutref")):
                if not pl:
                    continue
                for p in pl["p"]:
                    if p["k"] == "field" and p["n"] == field and norm_name(p["owner"]) == owner_nname:
                        recs.append((kind, bi, si))
            rv = s["rv"]
            if rv["k"] == "agg" and rv["ak"] == "adt" and norm_name(rv["path"]) == owner_nname:
                recs.append(("agg", bi, si))
        for bi, t in b.calls():
            for p in t["dest"]["p"]:
                if p["k"] == "field" and p["n"] == field and norm_name(p["owner"]) == owner_nname:
                    recs.append(("assign", bi, "T"))
        if recs:
            out[b] = recs
    return out


# ------------------------------------------------------------------ must-pass-through (K2 + K1)
def must_call(prog, body, pred, memo=None, depth=0):
    """True iff every path entry→normal return of `body` passes a call satisfying pred(name, path),
    directly or through a local callee that itself must-call it."""
    if memo is None:
        memo = {}
    if body.id in memo:
        return memo[body.id]
    memo[body.id] = False  # cycles: assume not
    gate = set()
    for bi, t in body.calls():
        n, p = callee_name(t), callee_path(t)
        if pred(n, p):
            gate.add(bi)
        else:
            cid = mir.callee_id(t)
            cb = prog.by_id.get(cid)
            if cb is not None and depth < 6 and must_call(prog, cb, pred, memo, depth + 1):
                gate.add(bi)
    reach = body.reachable(0, removed=gate)
    res = not any(r in reach for r in body.return_blocks())
    if 0 in gate:
        res = True
    memo[body.id] = res
    return res


def gate_blocks(prog, body, pred):
    """blocks of `body` whose call satisfies pred or must-calls it"""
    memo = {}
    out = set()
    for bi, t in body.calls():
        n, p = callee_name(t), callee_path(t)
        if pred(n, p):
            out.add(bi)
        else:
            cb = prog.by_id.get(mir.callee_id(t))
            if cb is not None and must_call(prog, cb, pred, memo, 1):
                out.add(bi)
    return out


# ------------------------------------------------------------------ K6 linear forms
ADDS = ("saturating_add", "wrapping_add", "checked_add", "overflowing_add", "unchecked_add")
SUBS = ("saturating_sub", "wrapping_sub", "checked_sub", "overflowing_sub", "unchecked_sub")


class Lin:
    """sum coef*atom + const, with flags"""

    def __init__(self, terms=None, const=0, flags=()):
        self.terms = {k: v for k, v in (terms or {}).items() if v != 0}
        self.const = Fraction(const)
        self.flags = set(flags)

    def __add__(self, o):
        t = dict(self.terms)
        for k, v in o.terms.items():
            t[k] = t.get(k, 0) + v
        return Lin(t, self.const + o.const, self.flags | o.flags)

    def __sub__(self, o):
        return self + o.scale(-1)

    def scale(self, c):
        return Lin({k: v * c for k, v in self.terms.items()}, self.const * c, self.flags)

    def __eq__(self, o):
        return self.terms == o.terms and self.const == o.const

    def is_const(self):
        return not self.terms

    def __repr__(self):
        parts = []
        for k, v in sorted(self.terms.items(), key=lambda kv: repr(kv[0])):
            a = show(k) if isinstance(k, tuple) else str(k)
            parts.append(("%s*" % v if v != 1 else "") + a)
        if self.const != 0 or not parts:
            parts.append(str(self.const))
        s = " + ".join(parts)
        if self.flags:
            s += " {" + ",".join(sorted(self.flags)) + "}"
        return s


def lin(e, atom_key=None):
    """linear form of integer expression e; atom_key(e) may map an opaque sub-expression to a canonical key"""
    e = unwrap0(e)
    if atom_key:
        k = atom_key(e)
        if k is not None:
            return Lin({k: Fraction(1)})
    if not isinstance(e, tuple):
        return Lin({("opaque", repr(e)): 1})
    if e[0] == "const" and isinstance(e[2], int):
        return Lin({}, e[2])
    if e[0] == "cast":
        inner = lin(e[1], atom_key)
        if _lossy(e[2], e[3]):
            inner.flags.add("lossy:%s->%s" % (e[2], e[3]))
        return inner
    if e[0] == "bin":
        op = e[1]
        if op in ("Add", "AddWithOverflow", "AddUnchecked"):
            return lin(e[2], atom_key) + lin(e[3], atom_key)
        if op in ("Sub", "SubWithOverflow", "SubUnchecked"):
            return lin(e[2], atom_key) - lin(e[3], atom_key)
        if op in ("Mul", "MulWithOverflow"):
            a, b = lin(e[2], atom_key), lin(e[3], atom_key)
            if a.is_const():
                return b.scale(a.const)
            if b.is_const():
                return a.scale(b.const)
        if op == "Shr":
            b = lin(e[3], atom_key)
            if b.is_const():
                r = lin(e[2], atom_key).scale(Fraction(1, 2 ** int(b.const)))
                r.flags.add("floor")
                return r
        if op == "Shl":
            b = lin(e[3], atom_key)
            if b.is_const():
                return lin(e[2], atom_key).scale(2 ** int(b.const))
        if op == "Div":
            b = lin(e[3], atom_key)
            if b.is_const() and b.const != 0:
                r = lin(e[2], atom_key).scale(Fraction(1) / b.const)
                r.flags.add("trunc")
                return r
    if e[0] == "call":
        name = e[1].split("::")[-1]
        args = e[2]
        if name in ADDS and len(args) == 2:
            return lin(args[0], atom_key) + lin(args[1], atom_key)
        if name in SUBS and len(args) == 2:
            return lin(args[0], atom_key) - lin(args[1], atom_key)
        if name == "add" and len(args) == 2 and "ops::Add" in e[1]:
            return lin(args[0], atom_key) + lin(args[1], atom_key)
        if name == "sub" and len(args) == 2 and "ops::Sub" in e[1]:
            return lin(args[0], atom_key) - lin(args[1], atom_key)
        if (name == "mul" and len(args) == 2 and "ops::Mul" in e[1]) or (name in ("saturating_mul", "wrapping_mul", "checked_mul") and len(args) == 2):
            a, b = lin(args[0], atom_key), lin(args[1], atom_key)
            if a.is_const():
                return b.scale(a.const)
            if b.is_const():
                return a.scale(b.const)
        if name == "div" and len(args) == 2 and "ops::Div" in e[1]:
            b = lin(args[1], atom_key)
            if b.is_const() and b.const != 0:
                r_ = lin(args[0], atom_key).scale(Fraction(1) / b.const)
                r_.flags.add("trunc")
                return r_
    if e[0] == "field" and e[2] in ("0",) and e[1][0] == "bin" and e[1][1].endswith("WithOverflow"):
        return lin(e[1], atom_key)
    return Lin({novers_keep(e): Fraction(1)})


def novers_keep(e):
    return e


INT_BITS = {"u8": 8, "u16": 16, "u32": 32, "u64": 64, "u128": 128, "usize": 64,
            "i8": 7, "i16": 15, "i32": 31, "i64": 63, "i128": 127, "isize": 63}


def _lossy(frm, to):
    if frm in INT_BITS and to in INT_BITS:
        if frm.startswith("i") and to.startswith("u"):
            return True
        return INT_BITS[to] < INT_BITS[frm]
    return False


def is_lossy_cast(e):
    return isinstance(e, tuple) and e[0] == "cast" and _lossy(e[2], e[3])


# ------------------------------------------------------------------ variables
def local_by_name(body, name):
    for l, n in body.local_name.items():
        if n == name:
            return l
    return None


def var_def_exprs(body, name):
    """[(site, expr)] for every full definition of the user variable `name`"""
    l = local_by_name(body, name)
    if l is None:
        return []
    return [(site, body.rec_def(site)) for site in body.defs().get(l, [])]


def root_of(e):
    """innermost root of a field/vfield/try chain"""
    while isinstance(e, tuple) and e[0] in ("field", "vfield", "try", "mutated", "elem", "index"):
        e = e[1]
    return e


def path_str(e):
    """`blk.header.fee_pool`-style rendering of a pure field chain, else None"""
    root, path = fields_path(e)
    if root[0] in ("param", "var", "upvar"):
        base = root[2] if root[0] == "param" else root[1]
        return ".".join([base] + path)
    return None


def block_of_call(body, pred):
    return [bi for bi, t in body.calls() if pred(callee_name(t), callee_path(t))]


def dominated_by_call(body, bb, pred):
    """is block bb strictly dominated by a block whose call satisfies pred (and whose normal successor is on the way)"""
    for bi, t in body.calls():
        if pred(callee_name(t), callee_path(t)) and bi != bb and body.dominates(bi, bb):
            return True
    return False


# ------------------------------------------------------------------ arithmetic normal form
ARITH_CALLS = {
    "saturating_add": "Add", "wrapping_add": "Add", "checked_add": "Add", "overflowing_add": "Add",
    "saturating_sub": "Sub", "wrapping_sub": "Sub", "checked_sub": "Sub", "overflowing_sub": "Sub",
    "saturating_mul": "Mul", "wrapping_mul": "Mul", "checked_mul": "Mul", "overflowing_mul": "Mul",
    "checked_div": "Div", "wrapping_div": "Div", "saturating_div": "Div",
}
BIN_NORM = {"AddWithOverflow": "Add", "SubWithOverflow": "Sub", "MulWithOverflow": "Mul", "AddUnchecked": "Add",
            "SubUnchecked": "Sub", "MulUnchecked": "Mul", "ShrUnchecked": "Shr", "ShlUnchecked": "Shl"}


def arith_nf(e):
    """normal form for comparing arithmetic shapes: drops casts, newtype (un)wrapping, `.0` of checked ops,
    maps checked/saturating/wrapping method calls to the plain operator, abs/unsigned_abs to ('abs', x),
    max/min to ('max'|'min', a, b); commutative operands sorted.  Overflow behaviour is NOT part of the form."""
    e = unwrap0(e)
    if not isinstance(e, tuple):
        return e
    k = e[0]
    if k == "cast":
        return arith_nf(e[1])
    if k == "var":
        return ("var", e[1])
    if k == "bin":
        op = BIN_NORM.get(e[1], e[1])
        a, b = arith_nf(e[2]), arith_nf(e[3])
        if op in mir.COMMUTATIVE and repr(b) < repr(a):
            a, b = b, a
        return ("bin", op, a, b)
    if k == "field" and e[2] in ("0",) :
        return arith_nf(e[1])
    if k == "call":
        name = e[1].split("::")[-1]
        args = [arith_nf(a) for a in e[2]]
        if name in ARITH_CALLS and len(args) == 2:
            op = ARITH_CALLS[name]
            a, b = args
            if op in mir.COMMUTATIVE and repr(b) < repr(a):
                a, b = b, a
            return ("bin", op, a, b)
        if name in ("unsigned_abs", "abs", "wrapping_abs") and len(args) == 1:
            return ("abs", args[0])
        if name in ("max", "min") and len(args) == 2:
            a, b = sorted(args, key=repr)
            return (name, a, b)
        if name in ("add", "sub", "mul", "div") and len(args) == 2 and "ops::" in e[1]:
            op = name.capitalize()
            a, b = args
            if op in mir.COMMUTATIVE and repr(b) < repr(a):
                a, b = b, a
            return ("bin", op, a, b)
        return ("call", e[1], tuple(args))
    if k == "phi":
        return mir.mk_phi([arith_nf(x) for x in e[1]])
    if k in ("try", "mutated"):
        return arith_nf(e[1])
    if k == "const":
        return ("const", "int", e[2]) if isinstance(e[2], int) else e
    if k == "field":
        return ("field", arith_nf(e[1]), e[2])
    return e


def B(op, a, b):
    if op in mir.COMMUTATIVE and repr(b) < repr(a):
        a, b = b, a
    return ("bin", op, a, b)


def K(n):
    return ("const", "int", n)


def resolve_phis(body, e, reach):
    """replace phi nodes (from `let x = if c {a} else {b}`) by the alternatives whose defining block is in `reach`"""
    if not isinstance(e, tuple):
        return e
    if e[0] == "phi":
        alts = []
        for alt in e[1]:
            site = _phi_site(body, alt)
            if site is None or site in reach:
                alts.append(resolve_phis(body, alt, reach))
        return mir.mk_phi(alts) if alts else e
    if e[0] == "field" and len(e) == 3:
        return mir.mk_field(resolve_phis(body, e[1], reach), e[2])           # a projection of a now-unique aggregate is its component
    if e[0] == "vfield" and len(e) == 4:
        return mir.mk_vfield(resolve_phis(body, e[1], reach), e[2], e[3])
    return tuple(resolve_phis(body, x, reach) if isinstance(x, tuple) else x for x in e)


def _phi_site(body, val):
    for l, sites in body.defs().items():
        if len(sites) < 2:
            continue
        for s_ in sites:
            try:
                if body.rec_def(s_) == val:
                    return s_[0]
            except Exception:
                pass
    return None


# ------------------------------------------------------------------ canonical signatures
def sigv(e):
    """like sig, but `&mut` parameters / variables carry the number of earlier writes (`$2@3`)"""
    return sig(e, True, True)


def sig(e, params_positional=True, versions=False):
    if versions:
        return _sig_versions(e)
    return _sig(e, params_positional)


def _sig_versions(e):
    global _VERS
    _VERS = True
    try:
        return _sig(e, True)
    finally:
        _VERS = False


_VERS = False


def _sig(e, params_positional=True):
    """canonical one-line rendering for provenance tables: parameters positional ($1..), variables by name
    without versions, callees by their last two path segments, newtype wrapping/`.0` kept."""
    if not isinstance(e, tuple):
        return repr(e)
    k = e[0]
    if k == "param":
        return ("$%d" % e[1] if params_positional else e[2]) + ("@%d" % e[3] if _VERS and len(e) > 3 else "")
    if k == "var":
        return e[1] + ("@%d" % e[2] if _VERS and len(e) > 2 and e[2] else "")
    if k == "upvar":
        return "^" + e[1].replace("_ref__", "")
    if k == "const":
        if len(e) > 3:
            return e[3].split("::")[-1]
        return str(e[2])
    if k == "cdef":
        return e[1].split("::")[-1]
    if k == "fn":
        return "fn:" + mir.short(e[1])
    if k == "static":
        return "static:" + e[1].split("::")[-1]
    if k == "not":
        return "!(%s)" % _sig(e[1])
    if k == "field":
        return "%s.%s" % (_sig(e[1]), e[2])
    if k == "vfield":
        return "(%s as %s).%s" % (_sig(e[1]), e[2], e[3])
    if k == "agg" and e[1] in mir.NEWTYPES and len(e[3]) == 1:
        # `CoinValue(x)` and `x.into()` are the same value: the wrapper is not rendered (conversions into a newtype are transparent in K3)
        return _sig(e[3][0][1])
    if k == "call":
        return "%s(%s)" % (mir.short(e[1]), ", ".join(_sig(a) for a in e[2]))
    if k == "bin":
        return "%s(%s, %s)" % (e[1], _sig(e[2]), _sig(e[3]))
    if k == "un":
        return "%s(%s)" % (e[1], _sig(e[2]))
    if k == "cast":
        return "(%s as %s)" % (_sig(e[1]), e[3])
    if k == "agg":
        return "%s::%s{%s}" % (e[1].split("::")[-1], e[2], ", ".join("%s: %s" % (n, _sig(v)) for n, v in e[3]))
    if k == "closure":
        return "closure[%s]" % ", ".join("%s=%s" % (n.replace("_ref__", ""), _sig(v)) for n, v in e[2])
    if k in ("tuple", "array"):
        return "%s(%s)" % (k, ", ".join(_sig(x) for x in e[1]))
    if k == "phi":
        return "phi(%s)" % " | ".join(sorted(_sig(x) for x in e[1]))
    if k == "mutated":
        return _sig(e[1])          # "was lent out mutably since" is bookkeeping of the recovery, not part of the value's identity
    if k in ("try", "elem", "next", "branch", "discr"):
        return "%s(%s)" % (k, _sig(e[1]))
    if k == "index":
        return "%s[%s]" % (_sig(e[1]), _sig(e[2]))
    if k == "unknown":
        return "?"
    if k == "repeat":
        return "[%s; %s]" % (_sig(e[1]), e[2])
    if k == "variant":
        return "(%s as %s)" % (_sig(e[1]), e[2])
    return mir.show(e)


def check_table(r, prefix, actual, expected, where, what="source", prog=None):
    """compare a dict field->expr against field->(set of accepted signatures | predicate).  A fully recovered
    expression that is not accepted is a violation; one containing unknown parts is undecided."""
    for fld, exp in expected.items():
        if fld not in actual:
            r.violation("%s/%s/missing" % (prefix, fld), "%s for `%s` is missing" % (what, fld), where)
            continue
        e = actual[fld]
        s_ = sig(e)
        if callable(exp):
            ok = exp(e)
            exp_txt = getattr(exp, "__doc__", None) or "predicate"
        else:
            acc = exp if isinstance(exp, (set, list, tuple)) else [exp]
            ok = s_ in acc
            if not ok and prog is not None:
                for dpt in (1, 2, 3):
                    e2 = inline(prog, e, dpt)
                    if sig(e2) in acc:
                        ok = True
                        s_ = sig(e2) + " (after inlining helpers)"
                        break
            exp_txt = " | ".join(acc)
        if ok:
            r.ok("%s/%s" % (prefix, fld), "%s = %s" % (fld, s_), where)
        elif has_unknown(e) or (not callable(exp) and not any("closure[" in a_ for a_ in acc) and contains(e, lambda x: x and x[0] == "call" and "array::<impl [T; N]>::map" in x[1])):
            # an element of `[a, b, c].map(|x| f(x))` (`roots.map(|r| db.get_tree(r.0).unwrap())[1]`): the element-wise closure is not read through — undecided
            r.undecided("%s/%s" % (prefix, fld), "%s = %s (not fully recovered)" % (fld, s_), where)
        else:
            r.violation("%s/%s" % (prefix, fld), "%s = %s, expected %s" % (fld, s_, exp_txt), where)


# ------------------------------------------------------------------ inlining of simple local helpers
def subst(e, pmap, upmap=None):
    if not isinstance(e, tuple):
        return e
    if e and e[0] == "param" and e[1] in pmap:
        return pmap[e[1]]
    if e and e[0] == "upvar" and upmap and e[1] in upmap:
        return upmap[e[1]]
    if e and e[0] == "field" and len(e) == 3 and upmap:
        pc = _precise_capture(e, upmap)
        if pc is not None:
            return pc
    return tuple(subst(x, pmap, upmap) if isinstance(x, tuple) else x for x in e)


def _precise_capture(e, upmap):
    """a field chain of an upvar that was captured field by field (mir.mk_upvar): the captured place's expression"""
    chain = []
    x = e
    while x[0] == "field" and len(x) == 3:
        chain.append(x[2])
        x = x[1]
    if x[0] != "upvar":
        return None
    chain.reverse()
    for n in range(len(chain), 0, -1):
        nm = x[1] + "__" + "__".join(chain[:n])
        alt = ("_ref__" + nm) if not nm.startswith("_ref__") else nm[len("_ref__"):]
        for cand in (nm, alt):
            if cand in upmap:
                out = upmap[cand]
                for f in chain[n:]:
                    out = mir.mk_field(out, f)
                return out
    return None


def subst_simplify(e, pmap, upmap=None):
    """substitute parameters (and upvars) and re-normalise: a field of a substituted aggregate becomes the aggregate's component, so that an
    argument passed inside a struct (`f(Site { idx, coin })` … `site.idx`) reads the same as one passed on its own"""
    if not isinstance(e, tuple):
        return e
    if e and e[0] == "param" and e[1] in pmap:
        return pmap[e[1]]
    if e and e[0] == "upvar" and upmap and e[1] in upmap:
        return upmap[e[1]]
    if e and e[0] == "field" and len(e) == 3 and upmap:
        pc = _precise_capture(e, upmap)
        if pc is not None:
            return pc
    if e and e[0] == "field" and len(e) == 3:
        return mir.mk_field(subst_simplify(e[1], pmap, upmap), e[2])
    if e and e[0] == "vfield" and len(e) == 4:
        return mir.mk_vfield(subst_simplify(e[1], pmap, upmap), e[2], e[3])
    return tuple(subst_simplify(x, pmap, upmap) if isinstance(x, tuple) else x for x in e)


def callable_body(prog, c):
    """(body, first explicit parameter) of a recovered callable value: a closure (parameter 1 is its environment, explicit parameters start at 2) or a
    function item passed by name (`.filter(is_x)`, parameters start at 1)"""
    if not isinstance(c, tuple):
        return None, None
    if c[0] == "closure":
        return prog.body(c[1]), 2
    if c[0] == "fn":
        cands = prog.by_nname.get(c[1]) or []
        return (cands[0] if len(cands) == 1 else None), 1
    return None, None


def shift_params(text, first):
    """canonical atom strings are written for closures ($2 = first explicit parameter); for a function item the same parameter is $1"""
    if first == 2:
        return text
    import re
    return re.sub(r"\$(\d+)", lambda m: "$%d" % (int(m.group(1)) - 2 + first) if int(m.group(1)) >= 2 else m.group(0), text)


def closure_caps(clos):
    """capture map of a recovered closure value ('closure', name, ((captured name, expr), ..)), under both spellings of by-reference captures"""
    caps = dict(clos[2]) if len(clos) > 2 else {}
    caps.update({k.replace("_ref__", ""): v for k, v in list(caps.items())})
    return caps


def closure_rets_resolved(prog, clos):
    """result expressions of a closure (or of a function item passed where a closure is expected), captured variables replaced by what was captured:
    `|| old` with `let old = this.x` reads `$1.x` like `|| this.x`"""
    if clos[0] == "closure":
        cb = prog.body(clos[1])
        caps = closure_caps(clos)
    elif clos[0] == "fn":
        cands = prog.by_nname.get(clos[1]) or []
        cb = cands[0] if len(cands) == 1 else None
        caps = {}
    else:
        return None
    if cb is None:
        return None
    return [subst_simplify(novers(x[2]), {}, caps) for x in ret_assignments(cb)]


def inline(prog, e, depth=3, only_crates=("melstf", "melvm", "tip911_stakeset")):
    """replace calls to local single-expression functions by their (substituted) result expression"""
    if not isinstance(e, tuple) or depth <= 0:
        return e
    e = tuple(inline(prog, x, depth, only_crates) if isinstance(x, tuple) else x for x in e)
    if e and e[0] == "call":
        cands = prog.by_nname.get(e[1])
        if cands and len(cands) == 1 and cands[0].crate in only_crates and cands[0].kind in ("Fn", "AssocFn"):
            b = cands[0]
            rets = ret_assignments(b)
            if len(rets) == 1 and not has_unknown(rets[0][2]) and not contains(rets[0][2], lambda x: x[0] == "var"):
                pmap = {i + 1: a for i, a in enumerate(e[2])}
                return inline(prog, subst(rets[0][2], pmap), depth - 1, only_crates)
    return e


def local_calls(prog, e):
    return [x[1] for x in walk(e) if x[0] == "call" and x[1] in prog.by_nname]


# ------------------------------------------------------------------ predicates as conjunctions of atoms
def canon_cmp(op, L, R):
    """canonical (op, sigL, sigR): only Lt/Le/Eq/Ne; Eq/Ne operands sorted"""
    if op in ("Gt", "Ge"):
        op, L, R = SWAP[op], R, L
    # unsigned comparisons with 0 / 1 are (in)equalities with 0: `x > 0` is `x != 0`, `x < 1` and `x <= 0` are `x == 0`, `x >= 1` is `x != 0`
    uns = lambda k: isinstance(k, tuple) and k[0] == "const" and isinstance(k[1], str) and k[1] in ("u8", "u16", "u32", "u64", "u128", "usize") and isinstance(k[2], int)
    if op == "Lt" and uns(L) and L[2] == 0:
        op, L, R = "Ne", L, R
    elif op == "Le" and uns(R) and R[2] == 0:
        op = "Eq"
    elif op == "Lt" and uns(R) and R[2] == 1:
        op, R = "Eq", ("const", R[1], 0)
    elif op == "Le" and uns(L) and L[2] == 1:
        op, L = "Ne", ("const", L[1], 0)
    a, b = sig(L), sig(R)
    if op in ("Eq", "Ne") and b < a:
        a, b = b, a
    return "%s(%s, %s)" % (op, a, b)


def cmp_atoms(body, complements=False):
    """every comparison expression evaluated in `body` (statements and calls): list of (expr, canon, bb).
    With `complements`, each comparison e also appears as ('not', e) under the canonical form of its negation (`a != b` is listed as
    Ne(a, b) and, negated, as Eq(a, b); `a >= b` as Le(b, a) and, negated, as Lt(a, b)), so that a rule looking for the atom `x == K` finds it
    however the source spells the test; forcing ('not', e) := v forces e := 1 − v (see `force`)."""
    base = _cmp_atoms(body)
    if not complements:
        return base
    out = list(base)
    have = {c for e, c, bi in base}
    for e, c, bi in base:
        op, L, R = as_cmp(e)
        nc = canon_cmp(NEG[op], L, R)
        if nc not in have:
            out.append((("not", e), nc, bi))
    return out


def atom_forms(e):
    """[(expr, canon)] for a comparison expression and for its negation (('not', e), canon of the negated test)"""
    cm = as_cmp(e)
    if not cm:
        return []
    op, L, R = cm
    return [(e, canon_cmp(op, L, R)), (("not", e), canon_cmp(NEG[op], L, R))]


def pick_atoms(body, want):
    """comparisons of `body` as (expr, canon, bb), each in the polarity (as spelled, or negated: ('not', e)) whose canonical form satisfies
    `want(canon)`; comparisons for which neither polarity does are returned as spelled"""
    out = []
    for e, c, bi in _cmp_atoms(body):
        pick = (e, c)
        for x, cx in atom_forms(e):
            if want(cx):
                pick = (x, cx)
                break
        out.append((pick[0], pick[1], bi))
    return out


LOCAL_ENUM_PREFIXES = ("melstructs::", "melstf::", "melvm::", "tip911_stakeset::")


def variant_atoms(body):
    """`matches!(x, E::V)` / `match x { E::V => .. }` on an enum of the code base: a switch on x's discriminant.  Each explicit arm is the atom
    `x == E::V` (expr ('isvar', x, index, enum, variant)); forcing it to 1 takes that arm, to 0 excludes it."""
    out = []
    prog = body.prog
    for bi, t in body.iter_terms("switch"):
        op = t["discr"]
        if op.get("k") not in ("move", "copy") or op["place"]["p"]:
            continue
        ds = body.defs().get(op["place"]["l"], [])
        if len(ds) != 1 or ds[0][1] == "T":
            continue
        st = body.blocks[ds[0][0]]["stmts"][ds[0][1]]
        if st["rv"].get("k") != "discr":
            continue
        ty = body._place_type(st["rv"]["place"]) or ""
        ty = ty.lstrip("&").replace("mut ", "")
        adt = prog.adts.get(mir.norm_name(ty))
        if not adt or not ty.startswith(LOCAL_ENUM_PREFIXES) or len(adt.get("variants", [])) < 2:
            continue
        x = body.rec_place(st["rv"]["place"], ds[0][0], ds[0][1])
        by_discr = {str(v.get("discr", i)) if v.get("discr", "") != "" else str(i): v["name"] for i, v in enumerate(adt["variants"])}
        for val, tgt in t["targets"]:
            nm = by_discr.get(str(val))
            if nm is not None and len(t["targets"]) <= 3:
                e = ("isvar", x, int(val), mir.norm_name(ty), nm)        # int(val): the discriminant value the switch compares with
                out.append((e, canon_cmp("Eq", x, ("agg", mir.norm_name(ty), nm, ())), bi))
    return out


def int_switch_atoms(body):
    """`match n { 0 => .., k => .. }` on an integer: a switch on n itself, no comparison is computed.  Each explicit arm K is the atom `n == K`
    (expr ('isint', n, K)); forcing it to 1 takes that arm, to 0 excludes it."""
    out = []
    for bi, t in body.iter_terms("switch"):
        if t.get("discr_ty") not in mir.INT_TYPES or t.get("exp") or len(t["targets"]) > 3:
            continue
        x = body.rec_operand(t["discr"], bi, "T")
        if not isinstance(x, tuple) or x[0] in ("discr", "const") or as_cmp(x) or contains(x, lambda y: y[0] in ("unknown", "rec")):
            continue
        for val, tgt in t["targets"]:
            out.append((("isint", x, int(val)), canon_cmp("Eq", x, ("const", t["discr_ty"], int(val))), bi))
    return out


def range_atoms(body):
    """`(a..b).contains(&x)`: one call standing for the two comparisons `a <= x` and `x < b`; each half is an atom (expr ('rc', 'lo'|'hi', call)) that can
    be forced on its own (sccp evaluates the call as their conjunction)"""
    out = []
    for bi, t in body.calls():
        if t["exp"]:
            continue
        e = body.rec_call(t, bi)
        if e[0] == "call" and e[1] in ("std::ops::Range::contains", "core::ops::Range::contains") and len(e[2]) == 2:
            rg = mir.strip(e[2][0])
            if rg[0] == "agg" and rg[1].endswith("ops::Range"):
                d = dict(rg[3])
                if "start" in d and "end" in d:
                    out.append((("rc", "lo", e), canon_cmp("Le", d["start"], e[2][1]), bi))
                    out.append((("rc", "hi", e), canon_cmp("Lt", e[2][1], d["end"]), bi))
    return out


OPTION_PREFIXES = ("std::option::Option<", "core::option::Option<")


def presence_tests(body, pred):
    """every test of the presence of an Option value x with pred(sig(x)): `x.is_none()`, `x.is_some()`, and `match x` / `if let` / `matches!`
    (a switch on x's discriminant).  Returns (absent, present): two forcing tables (atom -> 0/1) that say "x is None" / "x is Some" for all of them."""
    absent, present = {}, {}
    for nm, none_val in (("Option::is_none", 1), ("Option::is_some", 0)):
        for cb, x in call_exprs(body, nm):
            if x[2] and pred(sig(x[2][0])):
                absent[x] = none_val
                present[x] = 1 - none_val
    for bi, t in body.iter_terms("switch"):
        op = t["discr"]
        if op.get("k") not in ("move", "copy") or op["place"]["p"]:
            continue
        ds = body.defs().get(op["place"]["l"], [])
        if len(ds) != 1 or ds[0][1] == "T":
            continue
        st = body.blocks[ds[0][0]]["stmts"][ds[0][1]]
        if st["rv"].get("k") != "discr":
            continue
        ty = (body._place_type(st["rv"]["place"]) or "").lstrip("&").replace("mut ", "")
        if not ty.startswith(OPTION_PREFIXES):
            continue
        x = body.rec_place(st["rv"]["place"], ds[0][0], ds[0][1])
        if not pred(sig(x)):
            continue
        nty = mir.norm_name(ty)
        for val, name in ((0, "None"), (1, "Some")):
            a = ("isvar", x, val, nty, name)
            absent[a] = 1 if name == "None" else 0
            present[a] = 0 if name == "None" else 1
    return absent, present


def _cmp_atoms(body):
    out = []
    seen = set()
    for a in variant_atoms(body) + int_switch_atoms(body) + range_atoms(body):
        if a[0] not in seen:
            seen.add(a[0])
            out.append(a)
    for bi, si, s in body.iter_stmts():
        if s["k"] == "assign" and s["rv"]["k"] == "bin" and not s["exp"]:
            e = body.rec_rvalue(s["rv"], bi, si)
            cm = as_cmp(e)
            if cm and e not in seen:
                seen.add(e)
                out.append((e, canon_cmp(*cm), bi))
    for bi, t in body.calls():
        if t["exp"]:
            continue
        e = body.rec_call(t, bi)
        cm = as_cmp(e)
        if cm and e not in seen:
            seen.add(e)
            out.append((e, canon_cmp(*cm), bi))
    return out


def ret_value_under(body, table):
    """abstract value of the return place with the atoms in `table` (expr -> 0/1) forced"""
    f = Forcing(body, lambda x: table.get(x))
    return f.vals.get(0, ("bot",)), f


def check_conjunction(r, prefix, body, expected, where=None):
    """`body` returns a bool that is exactly the conjunction of the expected atoms (canonical strings).
    necessary: forcing one atom false makes the result false; sufficient: all true makes it true;
    no other comparison atom is necessary."""
    # each comparison in the polarity in which it is one of the expected atoms, if there is one (`!(a < b)` is the atom `b <= a`)
    atoms = pick_atoms(body, lambda c: c in expected)
    by_canon = {}
    for e, c, bi in atoms:
        by_canon.setdefault(c, []).append(e)
    where = where or "%s:%s" % (body.file, body.line)
    ok_all = True
    if getattr(body, "sig_output", "bool") not in ("bool", "") and not all(c in by_canon for c in expected):
        pass
    if getattr(body, "sig_output", "bool") not in ("bool", ""):
        if all(c in by_canon for c in expected):
            r.undecided("%s/shape" % prefix, "the atoms %s are all evaluated, but the predicate does not return a bool (returns %s): conjunction not decided" % (list(expected), body.sig_output), where)
            return True
    for c in expected:
        if c not in by_canon:
            r.violation("%s/missing:%s" % (prefix, c), "the condition %s is not evaluated (found: %s)" % (c, sorted(by_canon)), where)
            ok_all = False
            continue
        v, _ = ret_value_under(body, {e: 0 for e in by_canon[c]})
        if v == C(0):
            r.ok("%s/necessary:%s" % (prefix, c), "%s false ⇒ result false" % c, where)
        else:
            r.violation("%s/not-necessary:%s" % (prefix, c), "with %s false the result can still be true" % c, where)
            ok_all = False
    for c in by_canon:
        if c in expected:
            continue
        v, _ = ret_value_under(body, {e: 0 for e in by_canon[c]})
        if v == C(0):
            r.violation("%s/extra:%s" % (prefix, c), "an additional condition %s is required (expected exactly %s)" % (c, list(expected)), where)
            ok_all = False
    tbl = {}
    for c in expected:
        for e in by_canon.get(c, []):
            tbl[e] = 1
    v, _ = ret_value_under(body, tbl)
    if v == C(1):
        r.ok("%s/sufficient" % prefix, "all of %s true ⇒ result true" % list(expected), where)
    elif ok_all:
        r.violation("%s/not-sufficient" % prefix, "with all of %s true the result is not forced true (value %s): something else can veto" % (list(expected), v), where)
    return ok_all


# ------------------------------------------------------------------ finding evaluated expressions
def call_exprs(body, *suffixes):
    """[(bb, expr)] for calls whose callee matches one of the suffixes"""
    return [(bi, body.rec_call(t, bi)) for bi, t in calls_to(body, *suffixes)]


def all_call_exprs(body):
    return [(bi, body.rec_call(t, bi)) for bi, t in body.calls()]


def force(body, table, params=None):
    """Forcing with a table expr -> value (0/1/V(i)); a key ('not', e) -> v forces e to 1 − v"""
    t2 = {}
    for k, v in table.items():
        if isinstance(k, tuple) and k and k[0] == "not" and v in (0, 1):
            t2[k[1]] = 1 - v
        else:
            t2[k] = v
    return Forcing(body, lambda x: t2.get(x), params)


def err_blocks(body, variant_substr):
    """blocks building Err(<variant>) / returning through from_residual"""
    res = result_blocks(body)
    return [b for b, e in res["Err"] if variant_substr in sig(e)]


def loop_entry(body, h, blocks):
    """first block of a `for` loop's body: the Some-successor of the switch on next()'s discriminant"""
    for s1 in body.succs(h):
        t = body.term(s1)
        if t and t["k"] == "switch":
            for val, tgt in t["targets"]:
                if val == "1" and tgt in blocks:
                    return tgt
            for s2 in body.succs(s1):
                if s2 in blocks and s2 != h and body.term(s2)["k"] != "unreachable":
                    last = s2
            return last
    return h


def abbrev(s, aliases):
    """replace long sub-signatures by names (longest first)"""
    for k in sorted(aliases, key=len, reverse=True):
        s = s.replace(k, aliases[k])
    return s


def var_sig(body, name):
    d = var_def_exprs(body, name)
    return sig(d[0][1]) if len(d) == 1 else None


def closure_captures(parent, closure_nname):
    """captured expressions of a closure constructed in `parent`: {upvar name: expr}"""
    for bi, si, s in parent.iter_stmts():
        if s["k"] == "assign" and s["rv"]["k"] == "agg" and s["rv"]["ak"] == "closure" and norm_name(s["rv"]["path"]) == closure_nname:
            e = parent.rec_rvalue(s["rv"], bi, si)
            return dict(e[2])
    return {}


def writes_in(body):
    """all projected assignments in body: [(bb, idx, place_expr, value_expr)]"""
    out = []
    for bi, si, s in body.iter_stmts():
        if s["k"] == "assign" and s["place"]["p"] and not s["exp"]:
            out.append((bi, si, body.rec_place(s["place"], bi, si), body.rec_rvalue(s["rv"], bi, si)))
    return out


def effect_sites(prog, body, *suffixes):
    """blocks of `body` where a call to one of `suffixes` takes effect: the call itself, or a call that is handed a closure (built in `body`)
    whose code — transitively — makes it (`iter.for_each(|x| f(x))` performs f at the for_each).  Returns [(bb, 'direct'|'closure', closure body|None)]"""
    out = [(bi, "direct", None) for bi, t in calls_to(body, *suffixes)]
    for c in prog.closures_of(body):
        inner = [x for n in prog.all_nested(c) for x in calls_to(n, *suffixes)]
        if not inner:
            continue
        for bi, t in body.calls():
            e = body.rec_call(t, bi)
            if e[0] == "call" and any(isinstance(a, tuple) and mir.strip(a)[0] == "closure" and mir.strip(a)[1] == c.nname for a in e[2]):
                out.append((bi, "closure", c))
    return out


def is_add_op(prog, x):
    """the accumulation step of a sum: a closure |a, b| a (saturating|wrapping|checked)+ b, or the function item itself"""
    x = mir.strip(x)
    if x[0] == "fn":
        return x[1].split("::")[-1] in ("saturating_add", "wrapping_add", "add")
    if x[0] == "closure":
        fc = prog.body(x[1])
        fr = ret_assignments(fc) if fc is not None else []
        return len(fr) == 1 and sig(arith_nf(fr[0][2])) in ("Add($2, $3)", "Add($3, $2)")
    return False


def sum_over(prog, body, e, batch="$3"):
    """if `e` is Σ term(x) for x in <batch> — spelled fold(map(batch, |x| term), 0, +), map(..).sum(), or an accumulator loop
    `let mut t = 0; for x in batch { t = t + term }` — return sig(term) with the element written `@`; else None"""
    e = mir.strip(e)
    if e[0] == "call" and e[1].split("::")[-1] in ("fold", "sum") and e[2] and is_call(mir.strip(e[2][0]), "Iterator::map"):
        m = mir.strip(e[2][0])
        fk = mir.strip(m[2][1])
        if sig(mir.strip(m[2][0])) != batch or fk[0] not in ("closure", "fn"):
            return None
        if e[1].split("::")[-1] == "fold" and not (const_val(e[2][1]) == 0 and is_add_op(prog, e[2][2])):
            return None
        mc = prog.body(fk[1])
        rr = ret_assignments(mc) if mc is not None else []
        if len(rr) != 1:
            return None
        # a closure's element is its 2nd parameter (the 1st is its environment); `.map(f)` with a named function: its 1st
        return sig(novers(rr[0][2])).replace("$2" if fk[0] == "closure" else "$1", "@")
    if e[0] == "phi" and len(e[1]) == 2:
        z = [a for a in e[1] if const_val(a) == 0]
        u = [a for a in e[1] if const_val(a) is None]
        if len(z) == 1 and len(u) == 1:
            nf = arith_nf(u[0])
            if nf[0] == "bin" and nf[1] == "Add":
                terms = [t for t in (nf[2], nf[3]) if ("elem(%s)" % batch) in sig(t)]
                if len(terms) == 1:
                    return sig(novers(terms[0])).replace("elem(%s)" % batch, "@")
    return None


def strip_unwrap(e):
    """drop `?`, unwrap() and expect() everywhere in an expression: the success payload is the same value however the failure is handled"""
    if not isinstance(e, tuple):
        return e
    if e and e[0] in ("try", "mutated") and len(e) == 2:
        return strip_unwrap(e[1])
    if e and e[0] == "call" and e[2] and e[1].split("::")[-1] in ("unwrap", "expect") and ("Option" in e[1] or "Result" in e[1]):
        return strip_unwrap(e[2][0])
    return tuple(strip_unwrap(x) if isinstance(x, tuple) else x for x in e)


def raw_root(body, op, depth=0):
    """provenance of an operand WITHOUT the clone/borrow transparency of expression recovery:
    ('param', l) when it is (a projection of / reference into) a parameter, ('clone', l, where) when the chain passes through a
    Clone::clone / to_owned call (a snapshot taken at `where`), ('call', name) / ('other',) otherwise"""
    if op["k"] not in ("move", "copy") or depth > 12:
        return ("other",)
    l = op["place"]["l"]
    if 1 <= l <= body.arg_count:
        return ("param", l)
    ds = body.defs().get(l, [])
    if len(ds) != 1:
        return ("other",)
    bb, idx = ds[0]
    if idx == "T":
        t = body.term(bb)
        n = callee_name(t)
        if n.endswith("::clone") or n.endswith("::to_owned") or n.endswith("Clone::clone"):
            return ("clone", l, body.where(bb))
        if t["args"] and (n.endswith("::deref") or n.endswith("::deref_mut") or n.endswith("::borrow") or n.endswith("::as_ref")):
            return raw_root(body, t["args"][0], depth + 1)
        return ("call", n)
    st = body.blocks[bb]["stmts"][idx]
    rv = st["rv"]
    if rv["k"] in ("ref", "rawptr"):
        return raw_root(body, {"k": "copy", "place": rv["place"]}, depth + 1)
    if rv["k"] == "use":
        return raw_root(body, rv["op"], depth + 1)
    if rv["k"] == "cast":
        return raw_root(body, rv["op"], depth + 1)
    return ("other",)


def field_reads(body, owner_nname, field):
    """[(bb, where)] places of `body` that read <owner>.<field> (as an operand, by reference, or as a call argument); a `ref` that is only
    used to write through is still listed — callers that care filter with stmt_writes"""
    out = []

    def hit(pl):
        return any(p["k"] == "field" and p["n"] == field and norm_name(p.get("owner") or "") == owner_nname for p in pl["p"])
    for bi, si, s_ in body.iter_stmts():
        if s_["k"] != "assign" or s_.get("exp"):
            continue
        rv = s_["rv"]
        pls = []
        if rv["k"] in ("ref", "rawptr", "discr"):
            pls.append(rv["place"])
        for op in mir._rvalue_operands(rv):
            if op["k"] in ("copy", "move"):
                pls.append(op["place"])
        if any(hit(pl) for pl in pls):
            out.append((bi, body.where(bi, si)))
    for bi, t in body.calls():
        if t.get("exp"):
            continue
        for a in t["args"]:
            if a["k"] in ("copy", "move") and hit(a["place"]):
                out.append((bi, body.where(bi)))
    return out


_IW = {"u8": 8, "u16": 16, "u32": 32, "u64": 64, "u128": 128, "usize": 64, "i8": 8, "i16": 16, "i32": 32, "i64": 64, "i128": 128, "isize": 64}


def narrowed_inner(e):
    """(inner, bits, how) when `e` is a value reduced to a narrower integer type without the reduction being an error:
    `x as uN` with N below x's width (wraps), or `uN::try_from(x).unwrap_or(K)` / `x.try_into().unwrap_or(K)` (saturates); else None.
    A comparison made on such a value is not a comparison of x."""
    x = mir.strip(e)
    if x[0] == "cast" and len(x) >= 4 and x[2] in _IW and x[3] in _IW and _IW[x[2]] > _IW[x[3]] and const_val(x[1]) is None:
        inner = mir.strip(x[1])
        if inner[0] == "cast" and len(inner) >= 4 and _IW.get(inner[2], 999) <= _IW[x[3]]:
            return None                 # widened from the narrow type and narrowed back: nothing is lost
        return (x[1], _IW[x[3]], "wrapped (as %s)" % x[3])
    if x[0] == "call" and x[1].split("::")[-1] in ("unwrap_or", "unwrap_or_default", "unwrap_or_else") and x[2]:
        y = mir.strip(x[2][0])
        if y[0] == "call" and y[1].split("::")[-1] in ("try_from", "try_into") and y[2]:
            import re
            m = re.search(r"TryFrom<(\w+)> for (\w+)", y[1])
            if m and m.group(1) in _IW and m.group(2) in _IW and _IW[m.group(1)] > _IW[m.group(2)]:
                return (y[2][0], _IW[m.group(2)], "saturated (%s::try_from(..).unwrap_or(..))" % m.group(2))
    return None
