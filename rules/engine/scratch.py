"""Scratch copies of /repo for the checker self-test (seeded variants).  Everything lives under
$TMPDIR/melstf-scratch-<pid>/ and is removed when done."""
import os
import shutil
import subprocess
import tempfile

from . import facts

COPY = ["src", "lib", "benches", "examples", "Cargo.toml", "Cargo.lock", "README.md"]


class Scratch:
    def __init__(self, tag="s"):
        self.root = tempfile.mkdtemp(prefix="melstf-scratch-%s-" % tag)
        self.repo = os.path.join(self.root, "repo")
        self.evidence = os.path.join(self.root, "evidence")
        os.makedirs(self.evidence)
        self.reset()
        # warm target: copy the main target directory (dependencies only need type-checking once)
        main_t = os.path.join(facts.CACHE, "target-main")
        self.target = os.path.join(self.root, "target")
        if os.path.isdir(main_t):
            subprocess.call(["cp", "-a", main_t, self.target])

    def reset(self):
        shutil.rmtree(self.repo, ignore_errors=True)
        os.makedirs(self.repo)
        for c in COPY:
            src = os.path.join(facts.REPO, c)
            if not os.path.exists(src):
                continue
            dst = os.path.join(self.repo, c)
            if os.path.isdir(src):
                shutil.copytree(src, dst, ignore=shutil.ignore_patterns("target", ".git"))
            else:
                shutil.copy2(src, dst)

    def edit(self, relfile, find, replace, count=1):
        p = os.path.join(self.repo, relfile)
        s = open(p).read()
        n = s.count(find)
        if n < 1 or (count and n != count):
            return False
        s = s.replace(find, replace)
        open(p, "w").write(s)
        return True

    def edit_line(self, relfile, line, before, after):
        """replace line `line` (1-based), which must read exactly `before`, by the lines in `after` (a list; empty = delete)"""
        p = os.path.join(self.repo, relfile)
        lines = open(p).read().split("\n")
        if line < 1 or line > len(lines) or lines[line - 1] != before:
            # the line moved: accept a unique occurrence of the same text elsewhere in the file
            idx = [i for i, l in enumerate(lines) if l == before]
            if len(idx) != 1:
                return False
            line = idx[0] + 1
        lines[line - 1:line] = list(after)
        open(p, "w").write("\n".join(lines))
        return True

    def apply_patch(self, patch_path):
        return subprocess.call(["git", "apply", "--unsafe-paths", "--directory", self.repo, patch_path]) == 0 \
            if False else subprocess.call(["patch", "-p1", "-s", "-d", self.repo, "-i", patch_path]) == 0

    def check(self, pid, tier="quick"):
        env = dict(os.environ)
        env["MELSTF_REPO"] = self.repo
        env["MELSTF_TARGET"] = self.target
        env["VERIF_EVIDENCE_DIR"] = self.evidence
        p = subprocess.run([os.path.join(facts.VERIF, "bin", "check"), pid, tier], env=env,
                           stdout=subprocess.PIPE, stderr=subprocess.STDOUT, text=True)
        return p.returncode, p.stdout

    def close(self):
        shutil.rmtree(self.root, ignore_errors=True)

    def __enter__(self):
        return self

    def __exit__(self, *a):
        self.close()
