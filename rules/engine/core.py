"""Check plumbing: rule instances, verdict policy, known findings, evidence."""
import hashlib
import json
import os
import sys
import time

from . import facts, mir

VERIF = facts.VERIF
KNOWN = os.path.join(VERIF, "known_findings.jsonl")


class AnchorMissing(Exception):
    pass


ARMED_PATH = os.path.join(os.path.dirname(os.path.dirname(os.path.abspath(__file__))), "armed_keys.json")
_ARMED = [None]


def owner_key(key):
    """C01/X15.R3/totals/left -> C15.R3/totals/left ; C15/R3/totals/left -> C15.R3/totals/left"""
    import re
    m = re.match(r"^(C\d\d)/X(\d\d)\.(.*)$", key)
    if m:
        return "C%s.%s" % (m.group(2), m.group(3))
    m = re.match(r"^(C\d\d)/(.*)$", key)
    return "%s.%s" % (m.group(1), m.group(2)) if m else key


# Homogeneous instance families: one rule applied, by the same code and against a table, to every member of an enumeration of the code base (every header field,
# every heap slot, every opcode, every (kind, denomination) cell).  A breaking variant that confirms the instance for one member confirms the reading for all of
# them — a wrong field in `from_block` is the same regression whichever field it hits — so the family is armed (and its alarms on behaviour-preserving code are
# counted) as a whole.
FAMILIES = [
    (r"^(C01\.R2/cell)/[A-Za-z0-9]+/[A-Za-z0-9]+$", r"\1/*"),
    (r"^(C04\.R4/slot)/[A-Z_0-9]+$", r"\1/*"),
    (r"^(C06\.R3/field|C07\.R1/field|C07\.R3/clone|C08\.R1/field)/[a-z_0-9]+$", r"\1/*"),
    (r"^(C10\.R2)/[A-Za-z0-9]+/(helper|op|ints-only|result=[01]|order)$", r"\1/*/\2"),
    (r"^(C10\.R6)/[A-Za-z0-9]+/(arity|array|len)$", r"\1/*/\2"),
    (r"^(C10\.R6)/[A-Za-z0-9]+/pos\d+$", r"\1/*/pos"),
    (r"^(C11\.R1/(?:arm|rest))/[A-Za-z0-9]+$", r"\1/*"),
    (r"^(C12\.T[23])/[A-Za-z0-9]+/([a-z-]+)$", r"\1/*/\2"),
    (r"^(C16\.R2/insert)/[A-Za-z]+/[A-Za-z]+/", r"\1/*/*/"),
    (r"^(C06\.R5/(?:const|uses))/[a-z_0-9]+$", r"\1/*"),
]


def arm_pattern(okey):
    """the static part of an owner-normalised key: up to the first dynamic payload marker (':' '@' '|'), closure numbers generalised, members of a
    homogeneous family (FAMILIES) generalised to the family"""
    import re
    k = okey
    for rx, rep in FAMILIES:
        k2 = re.sub(rx, rep, k)
        if k2 != k:
            return k2
    if "/site/" in k and k.count("|") == 2:
        # `fn|kind|what` without operands: the same instance as `fn|kind|what|operands`
        return re.sub(r"(::|/)c\d+(?![A-Za-z0-9_])", r"\1c#", k + "|")
    if "/site/" in k and k.count("|") >= 3:
        # K8 may-panic sites `fn|kind|what|operands`: the instance is the kind of site in that function (an unwrap, a division, a call of X),
        # not the function as a whole — a variant that confirms `f|extern|withdraw|` says nothing about `f|unwrap|unwrap|`
        parts = k.split("|")
        return re.sub(r"(::|/)c\d+(?![A-Za-z0-9_])", r"\1c#", "|".join(parts[:3]) + "|")
    for i, ch in enumerate(k):
        if ch in ":@|" and not k[i:i + 2] == "::":
            if ch == ":" and i > 0 and k[i - 1] == ":":
                continue
            k = k[:i + 1]
            break
    return re.sub(r"(::|/)c\d+(?![A-Za-z0-9_])", r"\1c#", k)


_FINDING_KEYS = [None]


def load_armed():
    if _ARMED[0] is None:
        try:
            j = json.load(open(ARMED_PATH))
            _ARMED[0] = set(j["patterns"])
            _FINDING_KEYS[0] = set(j.get("finding_keys", []))
        except Exception:
            _ARMED[0] = set()
            _FINDING_KEYS[0] = set()
    return _ARMED[0]


def is_armed(armed, key):
    ok = owner_key(key)
    pat = arm_pattern(ok)
    if pat in armed or ok in armed:
        return True
    # recorded findings (known / fixed) arm their exact key and the sub-instances below it
    for fk in (_FINDING_KEYS[0] or ()):
        if ok == fk or ok.startswith(fk + "/"):
            return True
    # a key with a dynamic payload is armed through its static prefix
    import re
    gk = re.sub(r"(::|/)c\d+(?![A-Za-z0-9_])", r"\1c#", ok)
    return any(gk.startswith(a) for a in armed if a and a[-1] in ":@|")


class Rule:
    def __init__(self, ctx, rid, template, positional=True):
        self.ctx = ctx
        self.rid = rid
        self.template = template
        self.records = []
        # positional = the rule reads the parameters of the functions it names by position ($1, $2, ..): its failures are not decided when such a
        # function's parameter list is not the recorded one.  Rules about captures, types or call structure pass positional=False.
        self.positional = positional

    def _rec(self, verdict, key, detail, where=None, extra=None):
        r = {"rule": self.rid, "key": "%s/%s/%s" % (self.ctx.pid, self.rid, key), "verdict": verdict,
             "detail": detail}
        if where:
            r["where"] = where
        if extra:
            r.update(extra)
        self.records.append(r)
        self.ctx.records.append(r)
        return r

    def ok(self, key, detail, where=None, **extra):
        return self._rec("ok", key, detail, where, extra)

    def violation(self, key, detail, where=None, **extra):
        return self._rec("violation", key, detail, where, extra)

    def undecided(self, key, detail, where=None, **extra):
        return self._rec("undecided", key, detail, where, extra)

    def info(self, key, detail, where=None, **extra):
        return self._rec("info", key, detail, where, extra)

    def check(self, cond, key, detail_ok, detail_bad=None, where=None, **extra):
        if cond:
            return self.ok(key, detail_ok, where, **extra)
        return self.violation(key, detail_bad or ("NOT: " + detail_ok), where, **extra)

    def anchor(self, obj, name):
        """fail closed: a rule whose anchor is gone must not pass vacuously"""
        if obj is None or obj == [] or obj is False:
            self.violation("anchor-missing:" + name,
                           "anchor `%s` not found in the current tree; the rule cannot be evaluated" % name)
            raise AnchorMissing(name)
        return obj

    def floor(self, name, measured, minimum):
        if measured < minimum:
            self.violation("floor:" + name, "instance count for `%s` is %d, below the confirmed floor %d"
                           % (name, measured, minimum))
            return False
        self.ctx.floors[self.rid + ":" + name] = {"measured": measured, "floor": minimum}
        return True


class Ctx:
    def __init__(self, pid, tier="quick"):
        self.pid = pid
        self.tier = tier
        self.t0 = time.time()
        self.seed = int(os.environ.get("VERIF_SEED", "0") or 0)
        self.records = []
        self.rules = {}
        self.floors = {}
        self.assumptions = []
        self.not_decided = []
        self.functions = set()
        self.extra = {}
        self.explanation = ""
        self.facts_dir = facts.extract()
        self.prog = mir.Program(self.facts_dir)

    def rule(self, rid, template, positional=True):
        r = Rule(self, rid, template, positional)
        self.rules[rid] = r
        return r

    def analysed(self, *bodies):
        for b in bodies:
            if b is not None:
                self.functions.add(b.nname if hasattr(b, "nname") else str(b))

    def body(self, nname, rule=None):
        b = self.prog.body(nname)
        if b is None and rule is not None:
            rule.anchor(None, nname)
        if b is not None:
            self.functions.add(b.nname)
        return b

    # ------------------------------------------------------------------
    def load_known(self):
        out = []
        if os.path.exists(KNOWN):
            for line in open(KNOWN):
                line = line.strip()
                if line and not line.startswith("#"):
                    out.append(json.loads(line))
        return out

    def finish(self):
        known = [k for k in self.load_known() if k.get("property") == self.pid]
        known_keys = {k["key"]: k for k in known if k.get("status") == "known"}
        # ARMING.  A rule instance may report a VIOLATION only if it is *armed*: its key (normalised to the rule that owns it) has been confirmed
        # to fire on a seeded breaking variant — rules/armed_keys.json, produced by `bin/mkarmed` from a self-test run — or is a recorded finding.
        # The same condition failing under a key that was never confirmed means "the construct is not in the shape this instance reads":
        # it is reported as undecided (exit 0), never as an alarm.
        arm_all = os.environ.get("MELSTF_ARM_ALL") == "1"
        armed = load_armed()
        for r in self.records:
            if r["verdict"] == "violation" and r.get("sig_changed") and r["key"] not in known_keys:
                r["verdict"] = "undecided"
                r["detail"] = "[the parameter list of %s is not the one this rule was written against: not decided] %s" % (", ".join(x.split("::")[-1] for x in r["sig_changed"]), r["detail"])
            if r["verdict"] == "violation" and not arm_all and r["key"] not in known_keys and not is_armed(armed, r["key"]):
                r["verdict"] = "undecided"
                r["detail"] = "[unarmed instance: no seeded variant confirms this key, reported as undecided] " + r["detail"]
                r["unarmed"] = True
        viol = [r for r in self.records if r["verdict"] == "violation"]
        new, kf = [], []
        for r in viol:
            if r["key"] in known_keys:
                kf.append(r)
            else:
                new.append(r)
        oks = [r for r in self.records if r["verdict"] == "ok"]
        und = [r for r in self.records if r["verdict"] == "undecided"]
        obligations = len([r for r in self.records if r["verdict"] in ("ok", "violation", "undecided")])
        ev_path = os.path.join(os.environ.get("VERIF_EVIDENCE_DIR") or os.path.join(VERIF, "evidence"), self.pid + ".json")
        lock = os.path.join(self.facts_dir, "..", "..", "..")
        samples = []
        # a few of each kind, violations first
        for r in new + kf + und[:5] + oks[:25]:
            samples.append(r)
        trusted = []
        lockf = os.path.join(facts.REPO, "Cargo.lock")
        if os.path.exists(lockf):
            txt = open(lockf).read()
            import re
            for crate in ("melstructs", "novasmt", "melpow", "tmelcrypt", "catvec", "num-rational", "ethnum", "stdcode", "imbl", "rayon"):
                m = re.search(r'name = "%s"\nversion = "([^"]+)"\nsource = "[^"]*"\nchecksum = "([0-9a-f]+)"' % re.escape(crate), txt)
                if m:
                    trusted.append("%s %s sha256:%s" % (crate, m.group(1), m.group(2)[:16]))
        trusted.append(self.prog.meta.get("rustc", "rustc nightly"))
        cov = {
            "explanation": self.explanation,
            "obligations": obligations,
            "discharged": len(oks) + len(kf),
            "undecided": len(und),
            "evaluations": obligations,
            "distinct_nontrivial": len({r["key"] for r in self.records if r["verdict"] in ("ok", "violation", "undecided")}),
            "rule": "one obligation per rule instance (rule id + site/cell key); distinct = distinct keys; "
                    "every instance is derived from the MIR of /repo's current working tree",
            "rules": {rid: r.template for rid, r in self.rules.items()},
            "rule_counts": {rid: {v: len([x for x in r.records if x["verdict"] == v]) for v in ("ok", "violation", "undecided", "info")}
                            for rid, r in self.rules.items()},
            "samples": samples,
            "violations_new": new,
            "known_findings": kf,
            "undecided_instances": und,
            "unarmed": len([r for r in und if r.get("unarmed")]),
            "undecided_because_signature_changed": len([r for r in und if r.get("sig_changed")]),
            "armed_patterns": len(armed),
            "functions_analysed": sorted(self.functions),
            "bodies_in_scope": len([b for b in self.prog.bodies if b.kind != "Promoted"]),
            "floors": self.floors,
            "not_decided": self.not_decided,
            "trusted_base": trusted,
            "checker_cmd": "./bin/check %s %s" % (self.pid, self.tier),
            "facts": {"tree_hash": self.prog.meta.get("tree_hash"), "extract_cmd": self.prog.meta.get("cmd")},
        }
        cov.update(self.extra)
        ev = {
            "property_id": self.pid,
            "tier": self.tier,
            "seed": self.seed,
            "level": "other",
            "coverage": cov,
            "assumptions": self.assumptions,
            "wall_s": round(time.time() - self.t0, 3),
            "violations": len(new),
        }
        os.makedirs(os.path.dirname(ev_path), exist_ok=True)
        tmp = ev_path + ".tmp%d" % os.getpid()
        with open(tmp, "w") as f:
            json.dump(ev, f, indent=1, default=str)
        os.replace(tmp, ev_path)
        print("%s %s: %d obligations, %d ok, %d undecided, %d known findings, %d violations  (%.1fs)" % (
            self.pid, self.tier, obligations, len(oks), len(und), len(kf), len(new), time.time() - self.t0))
        for rid, r in self.rules.items():
            c = cov["rule_counts"][rid]
            print("  %-4s ok=%-3d viol=%-2d undecided=%-2d  %s" % (rid, c["ok"], c["violation"], c["undecided"], r.template[:110]))
        for r in und:
            print("  UNDECIDED %s: %s" % (r["key"], r["detail"][:200]))
        for r in kf:
            k = known_keys[r["key"]]
            print("KNOWN-FINDING: property=%s %s [%s] %s" % (self.pid, r["key"], r.get("where", ""), k.get("what", r["detail"])))
        for r in new:
            print("  VIOLATION-DETAIL %s @ %s: %s" % (r["key"], r.get("where", "?"), r["detail"]))
        if new:
            print("VIOLATION property=%s replay=%s" % (self.pid, ev_path))
            return 1
        return 0


def _mark_sig_changed(ctx, n0, rules=None):
    """records produced by a rule function that read (by name) a function whose parameter list is not the one the rules were written
    against: the rule's positional reading ($1, $2, ..) does not apply to it, so its failures are not decided"""
    ch = dict(ctx.prog.sig_touched)
    ctx.prog.sig_touched = {}
    if not ch:
        return
    rules = rules if rules is not None else ctx.rules
    for rec in ctx.records[n0:]:
        rl = rules.get(rec.get("rule"))
        if rl is not None and not rl.positional:
            continue
        if not rec.get("sig_changed"):
            rec["sig_changed"] = sorted(ch)


def import_rules(ctx, fns, tag):
    """run rule functions that belong to another property inside this check, as necessary conditions of this property;
    their rule ids are prefixed with `tag` (e.g. X02.R3) so that ids and violation keys stay unique"""
    for fn in fns:
        keep = ctx.rules
        sub = {}
        ctx.rules = sub
        n0 = len(ctx.records)
        ctx.prog.sig_touched = {}
        try:
            try:
                fn(ctx)
            except AnchorMissing:
                pass
            except Exception as ex:
                import traceback
                tb = traceback.format_exc()
                print("RULE-ABORTED %s.%s (imported as %s): %s" % (ctx.pid, fn.__name__, tag, str(ex)[:160]))
                rr = ctx.rule("ABORT:" + fn.__name__, "imported rule function aborted on a construct it does not read")
                rr.undecided("aborted", "rule %s aborted: %s" % (fn.__name__, tb.strip().splitlines()[-1][:200]))
        finally:
            ctx.rules = keep
            _mark_sig_changed(ctx, n0, sub)
        for rid, rule in sub.items():
            nid = "%s.%s" % (tag, rid)
            rule.rid = nid
            rule.template = "(shared with %s) %s" % (tag.replace("X", "C"), rule.template)
            for rec in rule.records:
                rec["rule"] = nid
                rec["key"] = rec["key"].replace("%s/%s/" % (ctx.pid, rid), "%s/%s/" % (ctx.pid, nid), 1)
            if nid in ctx.rules:
                ctx.rules[nid].records.extend(rule.records)
            else:
                ctx.rules[nid] = rule


def run_check(pid, tier, module):
    import traceback
    ctx = Ctx(pid, tier)
    ctx.explanation = getattr(module, "EXPLANATION", "")
    ctx.not_decided = list(getattr(module, "NOT_DECIDED", []))
    ctx.assumptions = list(getattr(module, "ASSUMPTIONS", []))
    internal = 0
    for fn in module.RULES:
        n0 = len(ctx.records)
        ctx.prog.sig_touched = {}
        try:
            try:
                fn(ctx)
            finally:
                _mark_sig_changed(ctx, n0)
        except AnchorMissing:
            pass
        except Exception as ex:
            # a rule that trips over a construct it cannot read has decided nothing: every instance it would have produced is undecided.
            # (On the unchanged tree this never happens — the committed evidence lists no aborted rule; MELSTF_STRICT=1 turns it into exit 3.)
            internal += 1
            tb = traceback.format_exc()
            print("RULE-ABORTED %s.%s: %s" % (pid, fn.__name__, str(ex)[:200]))
            if os.environ.get("MELSTF_STRICT") == "1":
                print(tb)
            rr = ctx.rule("ABORT:" + fn.__name__, "rule function aborted on a construct it does not read")
            rr.undecided("aborted", "rule %s aborted: %s" % (fn.__name__, tb.strip().splitlines()[-1][:200]))
    if tier == "thorough":
        try:
            _thorough(ctx, module)
        except Exception:
            internal += 1
            traceback.print_exc()
            print("INTERNAL-ERROR in thorough tier of %s" % pid)
    rc = ctx.finish()
    if rc == 0 and internal and os.environ.get("MELSTF_STRICT") == "1":
        return 3
    return rc


def _thorough(ctx, module):
    from . import thorough
    pid = ctx.pid
    res = thorough.run_variants(pid, jobs=int(os.environ.get("VERIF_JOBS", "8")))
    caught = [x for x in res if x["status"] in ("caught", "caught-other-key")]
    quiet = [x for x in res if x["status"] == "quiet-ok"]
    bad = [x for x in res if x["status"] in ("MISSED", "FALSE-ALARM", "nocompile")]
    skipped = [x for x in res if x["status"] == "skipped"]
    unrep = [x for x in res if x["status"] == "unreported-by-policy"]
    ctx.extra["selftest"] = {"variants": len(res), "breaking_caught": len(caught), "breaking_not_reported_by_policy": len(unrep), "behaviour_preserving_quiet": len(quiet), "skipped_anchor_gone": len(skipped),
                             "problems": bad, "results": res}
    print("  thorough/E6: %d seeded variants: %d breaking caught, %d behaviour-preserving quiet, %d skipped, %d problems" % (len(res), len(caught), len(quiet), len(skipped), len(bad)))
    for x in bad:
        print("  SELFTEST-PROBLEM %s %s %s" % (x["id"], x["status"], x.get("keys", "")))
    w = thorough.run_witnesses(pid)
    if w is not None:
        ctx.extra["witnesses"] = w
        r = ctx.rule("W", "type-level witnesses (compile_fail doctests with compiling twins, cargo +nightly test --doc): the API cannot forge/mutate what the MIR rules confine")
        if w["rc"] != 0 and not w["results"]:
            r.undecided("build", "witness crate did not build: %s" % w["tail"][-300:])
        for nm in w["relevant"]:
            got = w["results"].get(nm, {})
            if "compile_fail" not in got:
                r.undecided(nm, "witness %s did not run" % nm)
                continue
            if got.get("twin") is False:
                r.undecided(nm + "/twin", "the compiling twin of %s no longer compiles (API changed): witness inconclusive" % nm)
            elif got["compile_fail"]:
                r.ok(nm, "offending program is rejected by the compiler; twin compiles")
            else:
                r.violation(nm, "the offending program of witness %s now compiles: the API lets an outside user do what the rule forbids" % nm)
        print("  thorough/E4: witnesses %s (%.0fs)" % ({k: v for k, v in w["results"].items() if k in w["relevant"]}, w["wall_s"]))
    if hasattr(module, "thorough_extra"):
        module.thorough_extra(ctx)
