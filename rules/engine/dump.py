"""debug helper: python3 -m rules.engine.dump <name-suffix> — prints recovered call/switch expressions"""
import sys
from . import facts, mir


def dump(prog, b):
    print("== %s [%s] %s:%s args=%d" % (b.name, b.kind, b.file, b.line, b.arg_count))
    for bi, blk in enumerate(b.blocks):
        if blk["cleanup"]:
            continue
        for si, s in enumerate(blk["stmts"]):
            if s["k"] == "assign" and (s["place"]["p"] or s["place"]["l"] == 0 or s["place"]["l"] in b.local_name):
                e = b.rec_rvalue(s["rv"], bi, si)
                tgt = b.rec_place(s["place"], bi, si) if s["place"]["p"] else ("_%d(%s)" % (s["place"]["l"], b.local_name.get(s["place"]["l"], "ret")))
                print("  bb%d.%d L%d %s := %s%s" % (bi, si, s["line"], mir.show(tgt) if isinstance(tgt, tuple) else tgt, mir.show(e), " [exp]" if s["exp"] else ""))
        t = blk["term"]
        if t is None:
            continue
        k = t["k"]
        if k == "call":
            e = b.rec_call(t, bi)
            print("  bb%d.T L%d CALL _%d = %s -> bb%s%s" % (bi, t["line"], t["dest"]["l"], mir.show(e), t["target"], " [exp]" if t["exp"] else ""))
        elif k == "switch":
            e = b.rec_operand(t["discr"], bi, "T")
            print("  bb%d.T L%d SWITCH %s %s else bb%d" % (bi, t["line"], mir.show(e), t["targets"], t["otherwise"]))
        elif k == "assert":
            e = b.rec_operand(t["cond"], bi, "T")
            print("  bb%d.T L%d ASSERT %s == %s [%s] -> bb%d" % (bi, t["line"], mir.show(e), t["expected"], t["msg"], t["target"]))
        elif k == "goto":
            print("  bb%d.T goto bb%d" % (bi, t["t"]))
        elif k == "drop":
            print("  bb%d.T drop -> bb%d" % (bi, t["target"]))
        else:
            print("  bb%d.T %s" % (bi, k))


if __name__ == "__main__":
    d = facts.extract()
    prog = mir.Program(d)
    for pat in sys.argv[1:]:
        for b in prog.bodies:
            if pat in b.nname and b.kind != "Promoted":
                dump(prog, b)
