"""K8: may-panic site inventory with discharge rules (no execution).

A site is a MIR Assert terminator (overflow / division by zero / bounds check), a call to a std function that
panics (unwrap, expect, index, core::panicking::*), or a call to an external function listed in the may-panic
summary table below (written from reading the pinned dependency sources).
"""
from . import mir, q
from .q import sig, force

# external functions that can panic: callee-name suffix -> (condition under which it panics)
EXTERNAL_MAY_PANIC = {
    "num_rational::Ratio::new": "denominator == 0",
    "Ratio::new": "denominator == 0",
    "Ratio::recip": "self == 0",
    "<num::rational::Ratio<T> as std::ops::Div>::div": "divisor == 0",
    "melstructs::PoolState::swap_many": "a reserve is zero after adding the inputs (Ratio::new(l, 0) / division by a zero rate)",
    "melstructs::PoolState::deposit": "liqs != 0 and lefts*rights == 0 (Ratio::new(_, 0))",
    "melstructs::PoolState::withdraw": "liqs > self.liqs (assert) or self.liqs == 0 (Ratio::new(_, 0))",
    "melstructs::PoolState::implied_price": "rights == 0",
    "melstructs::PoolKey::new": "both denominations equal (unwrap of None)",
    "melpow::Proof::verify": "empty proof map (index) or difficulty > 64 (shift/subtraction underflow in gen_gammas)",
    "<melstructs::CoinValue as std::ops::Add>::add": "u128 overflow (debug) ",
    "<melstructs::CoinValue as std::ops::Sub>::sub": "u128 underflow",
    "<melstructs::CoinValue as std::ops::AddAssign>::add_assign": "u128 overflow",
    "<melstructs::CoinValue as std::ops::SubAssign>::sub_assign": "u128 underflow",
    "<melstructs::BlockHeight as std::ops::Sub>::sub": "u64 underflow",
    "<melstructs::BlockHeight as std::ops::Add>::add": "u64 overflow",
    "<melstructs::BlockHeight as std::ops::AddAssign>::add_assign": "u64 overflow",
    "<melstructs::BlockHeight as std::ops::Div<__RhsT>>::div": "division by zero",
    "core::num::<impl u128>::pow": "overflow",
    "core::num::<impl u64>::pow": "overflow",
    "catvec::CatVec::slice_into": "range out of bounds",
    "catvec::CatVec::insert": "index > len",
    "<&u128 as std::ops::Add<u128>>::add": "u128 overflow",
    "std::iter::Iterator::sum": "integer overflow (debug)",
    "melstructs::CoinValue::from_millions": "overflow",
    "melstructs::Transaction::base_fee": "the covenant weights are summed with plain + (Iterator::sum) and a single weight can be u128::MAX",
    "melstructs::Transaction::total_outputs": "a per-denomination total (plus the fee, for MEL) reaches 2^128: is_well_formed allows 255 outputs of 2^120 and a fee of 2^120",
    "<T as std::convert::TryInto<U>>::try_into": None,   # returns Result: not a panic
}
# |MIN| is not representable: abs/neg of a signed integer overflow on MIN (panic with overflow checks, MIN without)
for _t in ("i8", "i16", "i32", "i64", "i128", "isize"):
    EXTERNAL_MAY_PANIC["core::num::<impl %s>::abs" % _t] = "self == %s::MIN" % _t
    EXTERNAL_MAY_PANIC["core::num::<impl %s>::pow" % _t] = "overflow"
INT_W = {"u8": 8, "u16": 16, "u32": 32, "u64": 64, "usize": 64, "u128": 128}
SIGNED_W = {"i8": 8, "i16": 16, "i32": 32, "i64": 64, "isize": 64, "i128": 128}
STD_PANICKING = ("Option::unwrap", "Option::expect", "Result::unwrap", "Result::expect", "Result::unwrap_err", "Result::expect_err")
INDEXING = ("Index<I>>::index", "IndexMut<I>>::index_mut", "ops::Index<I> for [T]>::index", "ops::IndexMut<I> for [T]>::index_mut")

INFALLIBLE_PRODUCERS = (
    # D2: unwrap/expect on producers that cannot fail for the argument types used here
    "stdcode::serialize(",                    # serialising plain data into a Vec
    "std::io::impls::<impl std::io::Write for std::vec::Vec<u8, A>>::write_all(",
    "Database::get_tree(",                    # novasmt 0.2.20: always Some
)


class Site:
    def __init__(self, body, bb, kind, what, operands, expr=None, exp=False, cond=None):
        self.body, self.bb, self.kind, self.what, self.operands, self.expr, self.exp = body, bb, kind, what, operands, expr, exp
        self.cond = cond
        self.discharged = None   # (rule, reason)

    @property
    def key(self):
        b = getattr(self.body, "alias_of", None) or self.body.nname
        # a closure of a helper that was spliced into exactly one known function is keyed as a closure of that function
        body = self.body
        prog = body.prog
        chain = []
        while body is not None and body.kind == "Closure":
            chain.append(body.nname.rsplit("::", 1)[-1])
            body = prog.by_id.get(body.parent)
        if body is not None and chain:
            hosts = getattr(body, "inlined_into", None) or []
            if len(hosts) == 1 and hosts[0] in prog.by_id:
                b = "::".join([prog.by_id[hosts[0]].nname] + list(reversed(chain)))
        for pre in ("melstf::state::", "melstf::", "melvm::", "tip911_stakeset::"):
            if b.startswith(pre):
                b = b[len(pre):]
                break
        b = b.replace("{closure#", "c").replace("}", "")
        ops = ",".join(sig(q.novers(o))[:(200 if self.kind == "panic" else 70)] for o in self.operands)
        return "%s|%s|%s|%s" % (b, self.kind, self.what, ops)

    @property
    def parent_key(self):
        """the same site as it would be keyed if the closure's code stood in the enclosing function (captured variables replaced by what
        they capture): `(!x.is_empty()).then(|| f(&x).unwrap())` and `if x.is_empty() { None } else { Some(f(&x).unwrap()) }` are one site"""
        body = self.body
        if body.kind != "Closure":
            return None
        par = body.prog.by_id.get(body.parent)
        if par is None:
            return None
        caps = q.closure_captures(par, body.nname)
        if not caps:
            return None
        caps = dict(caps)
        caps.update({k.replace("_ref__", ""): v for k, v in list(caps.items())})
        b = par.nname
        for pre in ("melstf::state::", "melstf::", "melvm::", "tip911_stakeset::"):
            if b.startswith(pre):
                b = b[len(pre):]
                break
        b = b.replace("{closure#", "c").replace("}", "")
        ops = ",".join(sig(q.novers(q.subst(o, {}, caps)))[:70] for o in self.operands)
        return "%s|%s|%s|%s" % (b, self.kind, self.what, ops)

    def where(self):
        return self.body.where(self.bb)


def inventory(prog, bodies):
    sites = []
    for b in bodies:
        if b.kind == "Promoted":
            continue
        for bi, t in b.iter_terms("assert"):
            ops = [b.rec_operand(o, bi, "T") for o in t["msg_ops"]]
            cond = b.rec_operand(t["cond"], bi, "T")
            if t["msg"] in ("DivisionByZero", "RemainderByZero"):
                # the message carries the dividend; the divisor is in the condition `divisor == 0`
                cm = q.as_cmp(cond)
                if cm:
                    div = cm[2] if _const(cm[1]) == 0 else cm[1]
                    ops = [div]
            sites.append(Site(b, bi, "assert", t["msg"], ops, None, t["exp"], cond))
        for bi, t in b.calls():
            n = mir.callee_name(t)
            p = mir.callee_path(t)
            e = None
            if any(n.endswith(s) or p.endswith(s) for s in STD_PANICKING):
                e = b.rec_call(t, bi)
                # the unwrapped value itself (rec_call may have rewritten `serialize(x).unwrap()` into its canonical spelling)
                arg = b.rec_operand(t["args"][0], bi, "T") if t["args"] else e
                sites.append(Site(b, bi, "unwrap", n.split("::")[-1], [arg], e, t["exp"]))
            elif any(s in n for s in INDEXING) or (("ops::Index<" in n or "ops::IndexMut<" in n) and n.split("::")[-1] in ("index", "index_mut")):
                e = b.rec_call(t, bi)
                sites.append(Site(b, bi, "index", mir.short(n).split(">::")[-1], list(e[2]) if e[0] == "call" else [e], e, t["exp"]))
            elif n.startswith("core::panicking::") or n.startswith("std::rt::begin_panic") or "panic_fmt" in n or "assert_failed" in n or "unreachable_display" in n:
                # the condition whose failure leads here (`assert!(c)` lowers to a switch on c with the panic on one side): it is what tells one
                # assertion of a function from another, so it goes into the site key
                guard = []
                for pb in b.preds(bi):
                    pt = b.blocks[pb]["term"]
                    if pt and pt["k"] == "switch" and not b.blocks[pb]["cleanup"]:
                        try:
                            guard.append(b.rec_operand(pt["discr"], pb, "T"))
                        except Exception:
                            pass
                sites.append(Site(b, bi, "panic", n.split("::")[-1], guard[:1], None, False))
            else:
                for k, cond in EXTERNAL_MAY_PANIC.items():
                    if cond is None:
                        continue
                    if n == k or n.endswith("::" + k) or n.endswith(k):
                        e = b.rec_call(t, bi)
                        sites.append(Site(b, bi, "extern", k.split("::")[-1] if not k.startswith("<") else k, list(e[2]) if e[0] == "call" else [e], e, t["exp"]))
                        break
    return sites


def _const(e, depth=0):
    """integer value of a constant expression (with folding of constant arithmetic)"""
    v = q.const_val(e)
    if v is not None or depth > 6 or not isinstance(e, tuple):
        return v
    e = q.unwrap0(e)
    if e[0] == "field" and e[2] == "0" and e[1][0] == "bin" and e[1][1].endswith("WithOverflow"):
        e = e[1]
    if e[0] == "cast":
        return _const(e[1], depth + 1)
    if e[0] == "bin":
        a, b = _const(e[2], depth + 1), _const(e[3], depth + 1)
        if a is None or b is None:
            return None
        op = q.BIN_NORM.get(e[1], e[1])
        try:
            return {"Add": a + b, "Sub": a - b, "Mul": a * b, "Div": a // b if b else None, "Shl": a << b, "Shr": a >> b, "Rem": a % b if b else None,
                    "BitAnd": a & b, "BitOr": a | b}.get(op)
        except Exception:
            return None
    return None


def auto_discharge(prog, site):
    """D1 constant operands, D2 infallible producers, D3 dominated presence/length check, D4 bounded values, D6 guarded subtraction/division"""
    b = site.body
    if site.kind == "assert":
        msg = site.what
        ops = site.operands
        if msg in ("Overflow(Shr)", "Overflow(Shl)") and _const(ops[1]) is not None:
            return ("D1", "shift by the constant %d" % _const(ops[1]))
        if msg in ("DivisionByZero", "RemainderByZero") and _const(ops[0]) not in (None, 0):
            return ("D1", "division by the non-zero constant %d" % _const(ops[0]))
        if msg in ("DivisionByZero", "RemainderByZero") and ops[0][0] == "phi" and all(_const(x) not in (None, 0) for x in ops[0][1]):
            return ("D1", "division by one of the non-zero constants %s" % [_const(x) for x in ops[0][1]])
        if msg in ("DivisionByZero", "RemainderByZero"):
            d = mir.strip(ops[0])
            if d[0] == "field" and d[2] == "0" and d[1][0] == "bin" and d[1][1] == "AddWithOverflow" and any((_const(x) or 0) > 0 for x in (d[1][2], d[1][3])):
                return ("D1", "divisor is x + c with c > 0 in an overflow-checked addition of unsigned values")
        if msg == "Overflow(Div)" and _const(ops[1]) not in (None, -1):
            return ("D1", "division by the constant %d" % _const(ops[1]))
        if msg == "Overflow(Rem)" and _const(ops[1]) not in (None, -1):
            return ("D1", "remainder by a constant")
        if msg.startswith("Overflow(") and all(_const(o) is not None for o in ops):
            return ("D1", "constant operands (const-evaluated)")
        if msg == "BoundsCheck" and _const(ops[0]) is not None and _const(ops[1]) is not None and _const(ops[1]) < _const(ops[0]):
            return ("D1", "constant index %d of a fixed array of %d" % (_const(ops[1]), _const(ops[0])))
        if msg in ("Overflow(Add)", "Overflow(Mul)"):
            # D4: operands widened from narrower types cannot overflow the wider operation
            bits = 0
            okw = True
            for o in ops:
                w = _width_bound(o)
                if w is None:
                    okw = False
                    break
                bits = (bits + w) if msg == "Overflow(Mul)" else (max(bits, w) + 1)
            tw = _result_width(b, site.bb)
            if okw and tw is not None and bits <= tw:
                return ("D4", "operands are bounded to %d bits in a %d-bit operation" % (bits, tw))
        if msg == "Overflow(Sub)":
            g = _guarded_sub(b, site.bb, ops[0], ops[1])
            if g:
                return ("D6", g)
        if msg in ("DivisionByZero", "RemainderByZero"):
            g = _guarded_nonzero(b, site.bb, ops[0])
            if g:
                return ("D6", g)
        return None
    if site.kind == "unwrap":
        arg = site.operands[0]
        s = sig(q.novers(arg))
        for pfx in INFALLIBLE_PRODUCERS:
            if s.startswith(pfx):
                return ("D2", "producer %s… cannot fail here" % pfx[:-1])
        if s.startswith("<T as std::convert::TryInto<U>>::try_into(") and "to_be_bytes" in s:
            return ("D2", "fixed-size array conversion")
        # D3: unwrap dominated by an is_some / is_none / is_empty / length test on the same value
        g = _dominated_by_presence(b, site.bb, arg) or _forced_presence(b, site, arg)
        if g:
            return ("D3", g)
        return None
    if site.kind == "index":
        e = site.expr
        if e is not None and e[0] == "field" and e[2] == "1" and e[1][0] == "elem" and e[1][1][0] == "call" and e[1][1][1].endswith("Iterator::enumerate"):
            return ("D3", "v[i] with i ranging over 0..v.len() of the same unmodified sequence")
        g = _guarded_index(b, site) or _forced_index(b, site)
        if g:
            return ("D3", g)
        return None
    if site.kind == "extern" and site.expr is not None and site.expr[0] == "call":
        nm = site.expr[1]
        ops = site.operands
        if nm.endswith("Ratio::new") and len(ops) == 2:
            if _const(ops[1]) not in (None, 0):
                return ("D1", "denominator is the non-zero constant %s" % sig(ops[1]))
            g = _guarded_nonzero(b, site.bb, ops[1])
            if g:
                return ("D6", g)
        if nm.endswith("as std::ops::Sub>::sub") and len(ops) == 2:
            g = _guarded_sub(b, site.bb, ops[0], ops[1])
            if g:
                return ("D6", g)
        if nm.startswith("core::num::<impl i") and nm.endswith(">::abs") and len(ops) == 1:
            ty = nm[len("core::num::<impl "):-len(">::abs")]
            o = ops[0]
            if o[0] == "cast" and o[2] in SIGNED_W and SIGNED_W[o[2]] < SIGNED_W.get(ty, 0):
                return ("D4", "operand widened from %s: never %s::MIN" % (o[2], ty))
            if o[0] == "cast" and o[2] in INT_W and INT_W[o[2]] < SIGNED_W.get(ty, 0):
                return ("D4", "operand widened from %s: never negative" % o[2])
        if "as std::ops::Div" in nm and len(ops) == 2 and _const(ops[1]) not in (None, 0):
            return ("D1", "division by the non-zero constant %s" % sig(ops[1]))
    if site.kind == "extern" and site.what == "new" and site.expr is not None and site.expr[1].endswith("PoolKey::new"):
        a = [sig(x) for x in site.operands]
        if len(a) == 2 and all(x.startswith("Denom::") and x.endswith("{}") for x in a) and a[0] != a[1]:
            return ("D1", "PoolKey::new of two distinct constant denominations")
        # one side ranging over a literal array of constants (`for other in [Denom::Sym, Denom::Erg]`)
        import re as _re
        for fixed, var in ((a[0], a[1]), (a[1], a[0])) if len(a) == 2 else ():
            m = _re.match(r"^elem\(array\((.*)\)\)$", var)
            if m and fixed.startswith("Denom::") and fixed.endswith("{}"):
                alts = [x.strip() for x in m.group(1).split(",")]
                if alts and all(x.startswith("Denom::") and x.endswith("{}") and x != fixed for x in alts):
                    return ("D1", "PoolKey::new of a constant denomination and an element of a literal array of other constants")
    return None


def _width_bound(e):
    """upper bound on the bit width of a non-negative integer expression, or None"""
    e0 = e
    if isinstance(e, tuple):
        if e[0] == "cast" and e[2] in INT_W:
            inner = _width_bound(e[1])
            return min(INT_W[e[2]], inner) if inner is not None else INT_W[e[2]]
        if e[0] == "const" and isinstance(e[2], int) and e[2] >= 0:
            return max(1, e[2].bit_length())
        if e[0] == "field" or e[0] == "vfield":
            return None
        if e[0] == "call" and e[1].split("::")[-1] in ("min",):
            ws = [_width_bound(a) for a in e[2]]
            ws = [w for w in ws if w is not None]
            return min(ws) if ws else None
    return None


def _result_width(b, bb):
    t = b.term(bb)
    if t and t["k"] == "assert" and t["cond"]["k"] in ("copy", "move"):
        pl = t["cond"]["place"]
        ty = b.locals[pl["l"]]["ty"]
        # (T, bool)
        if ty.startswith("("):
            ty = ty[1:].split(",")[0]
        return INT_W.get(ty)
    return None


def _atoms_dominating(b, bb):
    """comparison atoms whose switch dominates bb, with the truth value taken on the way to bb"""
    out = []
    for sb, t in b.iter_terms("switch"):
        if not b.dominates(sb, bb) or sb == bb:
            continue
        e = b.rec_operand(t["discr"], sb, "T")
        cm = q.as_cmp(e)
        neg = False
        e1 = e
        if cm is None and e[0] == "un" and e[1] == "Not":
            cm = q.as_cmp(e[2])
            neg = True
        if cm is None and e[0] == "call" and e[1].split("::")[-1] in ("is_empty", "is_some", "is_none", "is_ok", "is_err", "contains_key"):
            cm = ("Pred:" + e[1].split("::")[-1], e[2][0], None)
        if cm is None:
            continue
        # which successor dominates bb?
        for val, tgt in t["targets"]:
            if (b.dominates(tgt, bb) or tgt == bb) and len(b.preds(tgt)) == 1:
                out.append((cm, (int(val) != 0) != neg))
        ot = t["otherwise"]
        if (b.dominates(ot, bb) or ot == bb) and len(b.preds(ot)) == 1 and all(tgt != ot for v, tgt in t["targets"]):
            vals = {int(v) for v, tgt in t["targets"]}
            if vals == {0}:
                out.append((cm, (True) != neg))
            elif vals == {1}:
                out.append((cm, (False) != neg))
    return out


def _guarded_sub(b, bb, a, c):
    """a − c dominated by a comparison establishing a >= c"""
    sa, sc = sig(q.novers(q.unwrap0(a))), sig(q.novers(q.unwrap0(c)))
    for (op, L, R), truth in _atoms_dominating(b, bb):
        if R is None:
            continue
        sl, sr = sig(q.novers(q.unwrap0(L))), sig(q.novers(q.unwrap0(R)))
        o = op if truth else q.NEG.get(op)
        if o is None:
            continue
        if sl == sa and sr == sc and o in ("Ge", "Gt"):
            return "dominated by %s %s %s" % (sa[:40], o, sc[:40])
        if sl == sc and sr == sa and o in ("Le", "Lt"):
            return "dominated by %s %s %s" % (sc[:40], o, sa[:40])
        if _const(c) is not None and sl == sa and _const(R) is not None and ((o == "Gt" and _const(R) >= _const(c) - 1) or (o == "Ge" and _const(R) >= _const(c))):
            return "dominated by %s %s %d" % (sa[:40], o, _const(R))
        # unsigned a − 1 after `a != 0` (either operand order)
        if _const(c) == 1 and o == "Ne" and ((sl == sa and _const(R) == 0) or (sr == sa and _const(L) == 0)):
            return "dominated by %s != 0" % sa[:40]
        if _const(c) is not None and sr == sa and _const(L) is not None and ((o == "Lt" and _const(L) >= _const(c) - 1) or (o == "Le" and _const(L) >= _const(c))):
            return "dominated by %d %s %s" % (_const(L), o, sa[:40])
    return None


def _guarded_nonzero(b, bb, d):
    sd = sig(q.novers(q.unwrap0(d)))
    for (op, L, R), truth in _atoms_dominating(b, bb):
        if R is None:
            continue
        sl = sig(q.novers(q.unwrap0(L)))
        o = op if truth else q.NEG.get(op)
        if op in ("Eq", "Ne") and _const(L) is not None and _const(R) is None:
            L, R = R, L
            sl = sig(q.novers(q.unwrap0(L)))
        elif _const(L) is not None and _const(R) is None and o in q.SWAP:
            L, R, o = R, L, q.SWAP[o]
            sl = sig(q.novers(q.unwrap0(L)))
        if sl == sd and _const(R) is not None and ((o == "Gt" and _const(R) >= 0) or (o == "Ne" and _const(R) == 0) or (o == "Ge" and _const(R) >= 1)):
            return "divisor dominated by %s %s %d" % (sd[:40], o, _const(R))
    # `match x { 0 => .., n => site }`: an integer switch on the divisor itself whose 0-arm does not lead to the site
    for sb, t in b.iter_terms("switch"):
        if not b.dominates(sb, bb) or sb == bb:
            continue
        dv = b.rec_operand(t["discr"], sb, "T")
        if dv[0] in ("discr",) or sig(q.novers(q.unwrap0(dv))) != sd:
            continue
        zero = [tg for v, tg in t["targets"] if str(v) == "0"]
        if zero and t["otherwise"] is not None and zero[0] != t["otherwise"]:
            reach0 = b.reachable(zero[0], removed=[sb])
            if bb not in reach0:
                return "divisor switched on: the arm for 0 does not reach the division"
    return None


def _dominated_by_presence(b, bb, arg):
    sa = sig(q.novers(arg))
    for (op, L, R), truth in _atoms_dominating(b, bb):
        if not op.startswith("Pred:"):
            continue
        sl = sig(q.novers(L))
        p = op[5:]
        if sl == sa and ((p in ("is_some", "is_ok") and truth) or (p in ("is_none", "is_err", "is_empty") and not truth)):
            return "dominated by %s(%s) == %s" % (p, sa[:50], truth)
        if p == "is_empty" and not truth and sa.endswith("(%s)" % sl):
            # split_first / first / last of a slice proven non-empty
            if any(sa.startswith(x) for x in ("core::slice::<impl [T]>::split_first(", "core::slice::<impl [T]>::first(", "core::slice::<impl [T]>::last(")):
                return "dominated by !is_empty(%s)" % sl[:50]
    return None


def _guarded_index(b, site):
    e = site.expr
    if e is None or e[0] != "call" or len(e[2]) < 2:
        return None
    base, idx = e[2][0], e[2][1]
    sb_ = sig(q.novers(base))
    # index by a range whose end is min(.., len(base))
    si = sig(q.novers(idx))
    if "RangeTo{end: Ord::min(" in si and ("len(%s)" % sb_) in si:
        return "range end is min(.., len)"
    if "RangeFrom{start:" in si and "Iterator::count(Iterator::take_while(" in si:
        return "range start counts a prefix of the same array"
    if "RangeFrom{start: Option::unwrap_or(" in si and "::position(" in si and sb_ in si and ("len(%s)" % sb_ in si or si.rstrip("})").endswith(", 32")):
        return "range start is a position inside the same array, or its length"
    # fixed array sliced by ..end: unreachable once `end > K` (K ≤ N) is forced true
    n_arr = _array_len(b, base)
    if n_arr is not None and idx[0] == "agg" and "RangeTo" in str(idx[1]):
        end = dict(idx[3]).get("end") if len(idx) > 3 else None
        if end is not None:
            raw = end[1] if end[0] == "cast" else end
            for ae, canon, abi in q.cmp_atoms(b):
                op, L, R = q.as_cmp(ae)
                for (x, k, o) in ((L, R, op), (R, L, q.SWAP[op])):
                    if mir.strip(x) in (mir.strip(raw), mir.strip(end)) and _const(k) is not None and o in ("Gt", "Ge"):
                        bound = _const(k) if o == "Gt" else _const(k) - 1
                        if bound <= n_arr and site.bb not in q.force(b, {ae: 1}).reach:
                            return "slice ..end of a [_; %d] unreachable when end > %d" % (n_arr, bound)
    ci = _const(idx)
    for (op, L, R), truth in _atoms_dominating(b, site.bb):
        if R is None:
            if op == "Pred:is_empty" and not truth and sig(q.novers(L)) == sb_ and ci == 0:
                return "dominated by !is_empty"
            continue
        sl, sr = sig(q.novers(L)), sig(q.novers(R))
        o = op if truth else q.NEG.get(op)
        lens = ("Vec::len(%s)" % sb_, "core::slice::<impl [T]>::len(%s)" % sb_)
        if ci is not None:
            if sl in lens and _const(R) is not None and ((o == "Ge" and _const(R) > ci) or (o == "Gt" and _const(R) >= ci) or (o == "Eq" and _const(R) > ci)):
                return "dominated by len %s %d" % (o, _const(R))
            if sr in lens and _const(L) is not None and ((o == "Le" and _const(L) > ci) or (o == "Lt" and _const(L) >= ci) or (o == "Eq" and _const(L) > ci)):
                return "dominated by %d %s len" % (_const(L), o)
    return None


def _array_len(b, base):
    """N if `base` is a local of type [T; N] (or a reference to one)"""
    import re
    x = base
    while x[0] in ("ref", "deref", "mutated") and len(x) > 1 and isinstance(x[1], tuple):
        x = x[1]
    if x[0] != "var":
        return None
    for l, nm in b.local_name.items():
        if nm == x[1]:
            m = re.match(r"^&?(mut )?\[[^;\]]+; (\d+)\]$", b.locals[l]["ty"])
            if m:
                return int(m.group(2))
    return None


def _len_atoms(b, base_sig):
    """comparison / emptiness atoms over len(base): [(expr, fn(len)->truth)]"""
    out = []
    lens = ("Vec::len(%s)" % base_sig, "core::slice::<impl [T]>::len(%s)" % base_sig)
    emp = ("Vec::is_empty(%s)" % base_sig, "core::slice::<impl [T]>::is_empty(%s)" % base_sig)
    for bi, e in q.all_call_exprs(b):
        if sig(q.novers(e)) in emp:
            out.append((e, lambda n: n == 0))
    for e, c, bi in q.cmp_atoms(b):
        op, L, R = q.as_cmp(e)
        sl, sr = sig(q.novers(L)), sig(q.novers(R))
        ops = {"Lt": lambda x, y: x < y, "Le": lambda x, y: x <= y, "Gt": lambda x, y: x > y, "Ge": lambda x, y: x >= y, "Eq": lambda x, y: x == y, "Ne": lambda x, y: x != y}
        if sl in lens and _const(R) is not None:
            out.append((e, (lambda n, f=ops[op], k=_const(R): f(n, k))))
        elif sr in lens and _const(L) is not None:
            out.append((e, (lambda n, f=ops[op], k=_const(L): f(k, n))))
    return out


def _forced_index(b, site):
    """index base[i] (constant i): unreachable for every length 0..i once the length/emptiness atoms are forced accordingly"""
    e = site.expr
    if e is None or e[0] != "call" or len(e[2]) < 2:
        return None
    ci = _const(e[2][1])
    if ci is None or ci > 4:
        return None
    base_sig = sig(q.novers(e[2][0]))
    atoms = _len_atoms(b, base_sig)
    if not atoms:
        return None
    for n in range(ci + 1):
        f = force(b, {a: (1 if fn(n) else 0) for a, fn in atoms})
        if site.bb in f.reach:
            return None
    return "unreachable for every length ≤ %d of %s (forced length/emptiness tests)" % (ci, base_sig[:40])


def _forced_presence(b, site, arg):
    """unwrap(X): unreachable once X is forced to None/Err"""
    from .sccp import V
    a = mir.strip(arg)
    if a[0] not in ("call",):
        return None
    last = a[1].split("::")[-1]
    if last in ("get", "first", "last", "split_first", "get_coin", "get_stake", "pop"):
        # is there an is_some/is_none test on the same expression that dominates?  force the lookup itself to None
        f = force(b, {a: V(0)})
        # the forcing must not be vacuous: the unwrap consumes `a` directly, so forcing a=None makes it panic unless unreachable
        return None
    return None
