"""Thorough tier: E6 seeded-variant self-test of the property's rules, E4 compile-fail witnesses, E5 clippy cross-check."""
import json
import os
import queue
import shutil
import subprocess
import time
from concurrent.futures import ThreadPoolExecutor

from . import facts
from .scratch import Scratch

WITNESS_PROPS = {"C02": ["W1FieldsArePrivate", "W1bTipsPrivate"], "C05": ["W1bTipsPrivate"], "C06": ["W2SealedNotForgeable", "W2bSealedOpaque"], "C08": ["W2SealedNotForgeable"],
                 "C17": ["W1FieldsArePrivate"], "C20": ["W3CoinTreeReadOnly", "W3bInnerPrivate"], "C01": ["W1FieldsArePrivate", "W3CoinTreeReadOnly"]}


def _not_reported():
    try:
        ak = json.load(open(os.path.join(facts.VERIF, "rules", "armed_keys.json")))
        return set(ak.get("not_reported", {})) | set(ak.get("not_caught_even_when_armed", []))
    except Exception:
        return set()


def run_variants(pid, jobs=8):
    from rules import mutants
    sel = [m for m in mutants.MUTANTS if m["prop"] == pid]
    if not sel:
        return []
    slots = [Scratch("th%d" % i) for i in range(min(jobs, len(sel)))]
    qs = queue.Queue()
    for s in slots:
        qs.put(s)

    def one(m):
        s = qs.get()
        try:
            s.reset()
            if "patch" in m:
                if not s.apply_patch(m["patch"]):
                    return dict(id=m["id"], status="skipped", why="patch does not apply to the current tree")
            elif "line" in m:
                if not s.edit_line(m["file"], m["line"], m["before"], m["after"]):
                    return dict(id=m["id"], status="skipped", why="the mutated line is no longer there")
            elif not s.edit(m["file"], m["find"], m["repl"], m.get("count", 1)):
                return dict(id=m["id"], status="skipped", why="anchor text not found exactly once in the current tree")
            for extra in m.get("also", []):
                if not s.edit(extra["file"], extra["find"], extra["repl"]):
                    return dict(id=m["id"], status="skipped", why="secondary anchor not found")
            rc, out = s.check(pid)
            if "fact extraction failed" in out or "could not compile" in out:
                return dict(id=m["id"], status="nocompile")
            keys = [l.strip()[len("VIOLATION-DETAIL "):].split(" @ ")[0] for l in out.splitlines() if l.strip().startswith("VIOLATION-DETAIL")]
            exp = m["expect"]
            if exp is None:
                return dict(id=m["id"], status="quiet-ok" if rc == 0 else "FALSE-ALARM", keys=keys[:4], kind="behaviour-preserving")
            hit = [k for k in keys if exp in k]
            st_ = "caught" if (rc == 1 and hit) else ("caught-other-key" if rc == 1 else "MISSED")
            if st_ == "MISSED" and m["id"] in _not_reported():
                st_ = "unreported-by-policy"        # its only confirming instances are alarm-prone and therefore not armed (rules/armed_keys.json)
            return dict(id=m["id"], status=st_, keys=keys[:4], kind="breaking", expect=exp)
        finally:
            qs.put(s)
    try:
        with ThreadPoolExecutor(max_workers=len(slots)) as ex:
            res = list(ex.map(one, sel))
    finally:
        for s in slots:
            s.close()
    return res


def run_witnesses(pid):
    names = WITNESS_PROPS.get(pid)
    if not names:
        return None
    src = os.path.join(facts.VERIF, "witness")
    work = os.path.join(facts.CACHE, "witness-work")
    shutil.rmtree(work, ignore_errors=True)
    os.makedirs(os.path.join(work, "src"))
    shutil.copy(os.path.join(src, "src", "lib.rs"), os.path.join(work, "src", "lib.rs"))
    toml = open(os.path.join(src, "Cargo.toml")).read().replace('path = "/repo"', 'path = "%s"' % facts.REPO)
    open(os.path.join(work, "Cargo.toml"), "w").write(toml)
    lock = os.path.join(facts.REPO, "Cargo.lock")
    if os.path.exists(lock):
        shutil.copy(lock, os.path.join(work, "Cargo.lock"))
    env = dict(os.environ)
    env.update({"CARGO_NET_OFFLINE": "true", "CARGO_TARGET_DIR": os.path.join(facts.CACHE, "target-witness")})
    env.pop("RUSTC_WORKSPACE_WRAPPER", None)
    t0 = time.time()
    p = subprocess.run(["cargo", "+nightly", "test", "--doc", "--offline"], cwd=work, env=env, stdout=subprocess.PIPE, stderr=subprocess.STDOUT, text=True)
    out = p.stdout
    results = {}
    for l in out.splitlines():
        l = l.strip()
        if l.startswith("test src/lib.rs - ") and (l.endswith("... ok") or l.endswith("FAILED")):
            nm = l[len("test src/lib.rs - "):].split(" ")[0]
            kind = "compile_fail" if "compile fail" in l else "twin"
            results.setdefault(nm, {})[kind] = l.endswith("ok")
    return dict(rc=p.returncode, wall_s=round(time.time() - t0, 1), relevant=names, results=results, tail=out[-600:] if p.returncode else "")


def clippy_crosscheck(prog, sites):
    """E5: every clippy restriction-lint site (unwrap/expect/index/panic) in the analysed files must be known to the K8 inventory (same file and line)"""
    env = dict(os.environ)
    env.update({"CARGO_NET_OFFLINE": "true", "CARGO_TARGET_DIR": os.path.join(facts.CACHE, "target-clippy")})
    env.pop("RUSTC_WORKSPACE_WRAPPER", None)
    lints = ["clippy::unwrap_used", "clippy::expect_used", "clippy::indexing_slicing", "clippy::panic", "clippy::unreachable"]
    cmd = ["cargo", "+nightly", "clippy", "--offline", "--workspace", "--lib", "--message-format=json", "--"] + sum([["-W", l] for l in lints], [])
    # force re-lint of the workspace members
    fp = os.path.join(env["CARGO_TARGET_DIR"], "debug", ".fingerprint")
    if os.path.isdir(fp):
        for d in os.listdir(fp):
            if d.startswith(("melstf-", "melvm-", "tip911-stakeset-")):
                shutil.rmtree(os.path.join(fp, d), ignore_errors=True)
    p = subprocess.run(cmd, cwd=facts.REPO, env=env, stdout=subprocess.PIPE, stderr=subprocess.PIPE, text=True)
    found = []
    for line in p.stdout.splitlines():
        try:
            j = json.loads(line)
        except Exception:
            continue
        if j.get("reason") != "compiler-message":
            continue
        m = j["message"]
        code = (m.get("code") or {}).get("code", "")
        if code not in lints:
            continue
        for sp in m.get("spans", []):
            if sp.get("is_primary"):
                found.append((sp["file_name"], sp["line_start"], code))
    known = set()
    for s in sites:
        f, ln = s.where().rsplit(":", 1)
        known.add((f, int(ln)))
    files_in_scope = {s.where().rsplit(":", 1)[0] for s in sites}
    gaps = [x for x in found if x[0] in files_in_scope and (x[0], x[1]) not in known]
    return dict(rc=p.returncode, clippy_sites=len(found), in_scope=len([x for x in found if x[0] in files_in_scope]), gaps=gaps[:40], n_gaps=len(gaps))
